package main

// rules_round4c.go: C29/own-listing (seed C29-c).

import (
	"fmt"
	"sort"
	"strings"

	"golang.org/x/tools/go/ssa"
)

// runC29OwnListing: the directory entries an operation turns into its reply come from a backend Readdir issued
// by this very activation, or from the directory cache (whose staleness the property allows), never from a
// value another request left in other shared storage.  Necessary for linearizability at minimal TTL: a listing
// read for an older request can miss an entry whose creation was acknowledged before this request was issued.
func runC29OwnListing(c *Ctx, P string) {
	p := c.P
	c.rule(P, "own-listing", "every []FileInfo ReadDirWithContext works on originates from a backend Readdir call of this activation or from DirCache.Get (no listing shared between requests through other storage)", 1)
	fn := p.Fn("(*AbsfsNFS).ReadDirWithContext")
	if fn == nil {
		c.undecided(P, "own-listing", "fn=ReadDirWithContext", "", "function not found")
		return
	}
	fl := newFlow(p)
	fl.ThroughInPkg = true
	dirGet := "(*" + absnfsPath + ".DirCache).Get"
	isListing := func(v ssa.Value) bool {
		if v == nil {
			return false
		}
		s := v.Type().String()
		return s == "[]io/fs.FileInfo" || s == "[]os.FileInfo"
	}
	seen := map[ssa.Value]bool{}
	var vals []ssa.Value
	for _, b := range fn.Blocks {
		for _, in := range b.Instrs {
			for _, op := range in.Operands(nil) {
				if op != nil && *op != nil && isListing(*op) && !seen[*op] {
					seen[*op] = true
					vals = append(vals, *op)
				}
			}
		}
	}
	if len(vals) == 0 {
		c.undecided(P, "own-listing", "fn=ReadDirWithContext", p.pos(fn.Pos()), "no []FileInfo value found in ReadDirWithContext")
		return
	}
	var bad []string
	sawBackend := false
	for _, v := range vals {
		for _, o := range originsThroughAppend(fl, v) {
			switch o.Kind {
			case "zero", "const", "make", "builtin", "alloc":
				continue // fresh local storage (e.g. the array a variadic append packs its arguments into)
			case "field":
				if strings.HasPrefix(o.Desc, "field:CachedDirEntry.") { // the directory cache's own storage (reached through DirCache.Get)
					continue
				}
			case "call", "outparam":
				if o.Call != nil {
					if bc := asBackendCall(o.Call); bc != nil && (bc.Method == "Readdir" || bc.Method == "ReadDir") {
						sawBackend = true
						continue
					}
					if isCallTo(o.Call, dirGet) {
						continue
					}
				}
			}
			bad = append(bad, o.Desc)
		}
	}
	sort.Strings(bad)
	bad = uniqStrings(bad)
	if len(bad) > 0 {
		c.bad(P, "own-listing", "fn=ReadDirWithContext", p.pos(fn.Pos()), fmt.Sprintf("a directory listing ReadDirWithContext works on can come from %s — not from a backend Readdir of this activation nor from the directory cache: a READDIR issued after a CREATE was acknowledged can then be answered from a listing read before it, even with every cache at minimal TTL", strings.Join(bad, ", ")))
		return
	}
	c.verdictIf(sawBackend, P, "own-listing", "fn=ReadDirWithContext", p.pos(fn.Pos()), fmt.Sprintf("%d listing value(s): all from this activation's backend Readdir or the directory cache", len(vals)), "no backend Readdir feeds the listing")
}

// originsThroughAppend: Origins, with results of the builtin append replaced by the origins of its operands
// (the flow treats builtin calls as leaves).
func originsThroughAppend(fl *Flow, v ssa.Value) []Origin {
	var out []Origin
	seenCall := map[ssa.CallInstruction]bool{}
	var rec func(v ssa.Value, depth int)
	rec = func(v ssa.Value, depth int) {
		for _, o := range fl.Origins(v) {
			if o.Kind == "call" && o.Call != nil && depth < 12 {
				if b, ok := o.Call.Common().Value.(*ssa.Builtin); ok && b.Name() == "append" {
					if !seenCall[o.Call] {
						seenCall[o.Call] = true
						for _, a := range o.Call.Common().Args {
							rec(a, depth+1)
						}
					}
					continue
				}
			}
			if o.Kind == "outparam" && o.Call != nil && o.Idx == 0 && depth < 12 {
				if b, ok := o.Call.Common().Value.(*ssa.Builtin); ok && b.Name() == "copy" {
					if !seenCall[o.Call] {
						seenCall[o.Call] = true
						rec(o.Call.Common().Args[1], depth+1)
					}
					continue
				}
			}
			out = append(out, o)
		}
	}
	rec(v, 0)
	return out
}

func uniqStrings(in []string) []string {
	var out []string
	for i, s := range in {
		if i == 0 || s != in[i-1] {
			out = append(out, s)
		}
	}
	return out
}
