package main

// rules_round6b.go: C01/attr-fresh.
//
// READ computes eof (and every reply its size) from AbsfsNFS.GetAttr.  GetAttr fills the attribute cache with
// `Lstat ... Put`, which is not atomic with respect to the invalidation a concurrent WRITE or SETATTR performs:
// a Put of pre-write attributes can land after the write's Invalidate.  That is harmless as long as GetAttr
// never answers from the cache, and on this tree it does not: the record AttrCache.Get hands out never has its
// validUntil set, so the `attrs.IsValid()` hit branch is dead and every successful return follows a backend
// stat of this very call.  The rule decides exactly that: every successful return of GetAttr is dominated by
// the success edge of a backend Lstat/Stat, or lies behind the true edge of IsValid() on the result of
// AttrCache.Get while nothing in AttrCache.Get (or what it calls in the package) can store NFSAttrs.validUntil.
// It does not decide whether some other, race-free way of serving cached sizes could be correct.

import (
	"fmt"
	"go/types"

	"golang.org/x/tools/go/ssa"
)

func runC01AttrFresh(c *Ctx, P string) {
	p := c.P
	c.rule(P, "attr-fresh", "every successful return of GetAttr follows a backend stat made by this call; the cache-hit branch is dead because AttrCache.Get never hands out a record with validUntil set", 1)
	fn := p.Fn("(*AbsfsNFS).GetAttr")
	if fn == nil || fn.Blocks == nil {
		c.undecided(P, "attr-fresh", "fn=GetAttr", "", "function not found")
		return
	}
	var succs []*ssa.BasicBlock
	for _, call := range calls(fn) {
		bc := asBackendCall(call)
		if bc == nil || bc.OnFile || (bc.Method != "Lstat" && bc.Method != "Stat") {
			continue
		}
		if s, _, ok := errSuccessEdge(call); ok {
			succs = append(succs, s)
		}
	}
	vu := p.field("NFSAttrs", "validUntil")
	n := 0
	for _, b := range fn.Blocks {
		if len(b.Instrs) == 0 || b == fn.Recover {
			continue
		}
		r, isRet := b.Instrs[len(b.Instrs)-1].(*ssa.Return)
		if !isRet || len(r.Results) < 2 || !isNilConst(r.Results[1]) || isNilConst(r.Results[0]) {
			continue
		}
		n++
		key := fmt.Sprintf("return=GetAttr#%d", n)
		fresh := false
		for _, s := range succs {
			if s == b || s.Dominates(b) {
				fresh = true
			}
		}
		if fresh {
			c.ok(P, "attr-fresh", key, p.instrPos(r), "follows a backend stat of this call")
			continue
		}
		// the dead hit branch
		get := hitBranchSource(p, b)
		if get == nil {
			c.bad(P, "attr-fresh", key, p.instrPos(r), "GetAttr can return attributes without a backend stat of its own: a size cached before a concurrent WRITE/SETATTR finished is served, READ's eof and every reply's size can be stale")
			continue
		}
		why := ""
		if vu == nil {
			why = "NFSAttrs.validUntil not found"
		} else {
			why = canStoreField(p, get, vu, 0, map[*ssa.Function]bool{})
		}
		c.verdictIf(why == "", P, "attr-fresh", key, p.instrPos(r), "cache-hit branch is dead: AttrCache.Get never sets validUntil on what it returns",
			"GetAttr's cache-hit branch is live ("+why+"): the fill `Lstat ... Put` is not atomic with the invalidation of a concurrent WRITE/SETATTR, so a stale size can be served for the whole TTL and READ's eof goes wrong")
	}
	if n == 0 {
		c.undecided(P, "attr-fresh", "fn=GetAttr", p.pos(fn.Pos()), "GetAttr has no successful return")
	}
}

// hitBranchSource: b is dominated by the true edge of x.IsValid() where x is result 0 of AttrCache.Get;
// returns the Get function.
func hitBranchSource(p *Prog, b *ssa.BasicBlock) *ssa.Function {
	for d := b; d != nil && d.Idom() != nil; d = d.Idom() {
		id := d.Idom()
		ifi := blockIf(id)
		if ifi == nil || len(id.Succs) != 2 || id.Succs[0] != d || len(d.Preds) != 1 {
			continue
		}
		call, ok := ifi.Cond.(*ssa.Call)
		if !ok {
			continue
		}
		f := staticCallee(call)
		if f == nil || fnKey(f) != "(*NFSAttrs).IsValid" || len(call.Call.Args) == 0 {
			continue
		}
		ex, ok := call.Call.Args[0].(*ssa.Extract)
		if !ok || ex.Index != 0 {
			continue
		}
		gc, ok := ex.Tuple.(*ssa.Call)
		if !ok {
			continue
		}
		g := staticCallee(gc)
		if g != nil && fnKey(g) == "(*AttrCache).Get" {
			return g
		}
	}
	return nil
}

// canStoreField: why fn (or an in-package callee, two levels deep) can store the field; "" if it cannot.
func canStoreField(p *Prog, fn *ssa.Function, fld interface{ Name() string }, depth int, seen map[*ssa.Function]bool) string {
	if fn == nil || fn.Blocks == nil || seen[fn] {
		return ""
	}
	seen[fn] = true
	fns := []*ssa.Function{fn}
	fns = append(fns, fn.AnonFuncs...)
	for _, f := range fns {
		for _, b := range f.Blocks {
			for _, in := range b.Instrs {
				switch x := in.(type) {
				case *ssa.Store:
					if fa, ok := x.Addr.(*ssa.FieldAddr); ok {
						if fo := fieldOf(fa.X.Type(), fa.Field); fo != nil && fo.Name() == fld.Name() && recvTypeName(fa.X.Type()) == "NFSAttrs" {
							return "store at " + p.instrPos(in)
						}
					}
					// a whole-struct copy of an NFSAttrs carries the field with it
					if _, isStruct := x.Val.Type().Underlying().(*types.Struct); isStruct && recvTypeName(x.Val.Type()) == "NFSAttrs" {
						if _, zero := x.Val.(*ssa.Const); !zero {
							return "whole-record copy at " + p.instrPos(in)
						}
					}
				case ssa.CallInstruction:
					if depth >= 3 {
						continue
					}
					callee := staticCallee(x)
					if callee == nil || callee.Blocks == nil || p.byName[fnKey(callee)] != callee {
						continue
					}
					// only callees that are handed an attribute record can touch the one being returned
					takes := false
					for _, a := range x.Common().Args {
						if recvTypeName(a.Type()) == "NFSAttrs" {
							takes = true
						}
					}
					if !takes {
						continue
					}
					if why := canStoreField(p, callee, fld, depth+1, seen); why != "" {
						return "via " + fnKey(callee) + ": " + why
					}
				}
			}
		}
	}
	return ""
}
