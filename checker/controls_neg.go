package main

// controls_neg.go: negative controls.  /verif/benign/*.diff are behaviour-preserving refactorings of the
// repository (extract/inline helper, split function, rename, switch<->if, constants, tables, early returns,
// explicit unlocks ...) written by independent agents that saw nothing of the checker; each compiles and passes
// the full suite.  On every thorough run (and in -selftest) each one is applied to a scratch COPY of the current
// tree and the rules of the property are run on the copy: a rule that fires there is reporting an alarm on code
// where the property still holds.  Informational in the evidence; -selftest exits 2 on a noisy control.

import (
	"os"
	"os/exec"
	"path/filepath"
	"sort"
	"strings"
	"sync"
)

type negResult struct {
	Patch   string   `json:"refactoring"`
	Applied bool     `json:"patch_applies_to_current_tree"`
	Fired   []string `json:"fired"`
	Silent  bool     `json:"silent"`
	Note    string   `json:"note,omitempty"`
}

func runNegControls(repo, dir, known, props string) []negResult {
	files, _ := filepath.Glob(filepath.Join(dir, "*.diff"))
	sort.Strings(files)
	if len(files) == 0 {
		return nil
	}
	base, _ := violatedKeys(repo, props, known)
	res := make([]negResult, len(files))
	sem := make(chan struct{}, 4)
	var wg sync.WaitGroup
	for i, f := range files {
		wg.Add(1)
		go func(i int, f string) {
			defer wg.Done()
			sem <- struct{}{}
			defer func() { <-sem }()
			r := negResult{Patch: strings.TrimSuffix(filepath.Base(f), ".diff")}
			tmp, err := os.MkdirTemp("", "absnfs-neg-")
			if err != nil {
				r.Note = err.Error()
				res[i] = r
				return
			}
			defer os.RemoveAll(tmp)
			if err := copyTree(repo, tmp); err != nil {
				r.Note = "copy failed: " + err.Error()
				res[i] = r
				return
			}
			ap := exec.Command("git", "apply", "--whitespace=nowarn", f)
			ap.Dir = tmp
			ap.Env = append(os.Environ(), "GIT_CEILING_DIRECTORIES="+filepath.Dir(tmp))
			if out, err := ap.CombinedOutput(); err != nil {
				r.Silent = true
				r.Note = "patch does not apply to the current tree (written for another revision): " + firstLine(string(out))
				res[i] = r
				return
			}
			r.Applied = true
			got, note := violatedKeys(tmp, props, known)
			r.Note = note
			for k := range got {
				if !base[k] {
					r.Fired = append(r.Fired, k)
				}
			}
			sort.Strings(r.Fired)
			r.Silent = len(r.Fired) == 0 && note == ""
			res[i] = r
		}(i, f)
	}
	wg.Wait()
	return res
}
