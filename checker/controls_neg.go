package main

// controls_neg.go: negative controls.  /verif/benign/*.diff are behaviour-preserving refactorings of the
// repository (extract/inline helper, split function, rename, switch<->if, constants, tables, early returns,
// explicit unlocks ...) written by independent agents that saw nothing of the checker; each compiles and passes
// the full suite.  On every thorough run (and in -selftest) each one is applied to a scratch COPY of the current
// tree and the rules of the property are run on the copy: a rule that fires there is reporting an alarm on code
// where the property still holds.  Informational in the evidence; -selftest exits 2 on a noisy control.

import (
	"crypto/sha256"
	"encoding/hex"
	"encoding/json"
	"io"
	"os"
	"os/exec"
	"path/filepath"
	"runtime"
	"sort"
	"strings"
	"sync"
	"syscall"
)

type negResult struct {
	Patch   string   `json:"refactoring"`
	Applied bool     `json:"patch_applies_to_current_tree"`
	Fired   []string `json:"fired"`
	Silent  bool     `json:"silent"`
	Note    string   `json:"note,omitempty"`
}

// runNegControls runs the rules of props ("all" or one id) on every refactored copy.  Loading and building a
// copy costs the same whatever rules run afterwards, so the copies are always analysed with every property's
// rules and the outcome is kept in <verif>/.cache keyed by the contents of the tree, of the refactorings, of the
// known-findings file and of the checker binary: the thorough runs of the other properties on the same tree
// reuse it.  The cache only ever short-cuts a recomputation; it is never needed and any change of an input
// changes the key.
func runNegControls(repo, dir, known, props string) []negResult {
	all := negControlsAll(repo, dir, known)
	if props == "all" || all == nil {
		return all
	}
	out := make([]negResult, len(all))
	for i, r := range all {
		o := r
		o.Fired = nil
		for _, k := range r.Fired {
			if strings.HasPrefix(k, props+"/") {
				o.Fired = append(o.Fired, k)
			}
		}
		o.Silent = len(o.Fired) == 0 && (r.Note == "" || !r.Applied)
		out[i] = o
	}
	return out
}

func negCacheKey(repo string, files []string, known string) string {
	h := sha256.New()
	add := func(path string) {
		f, err := os.Open(path)
		if err != nil {
			return
		}
		defer f.Close()
		io.WriteString(h, path+"\x00")
		io.Copy(h, f)
	}
	var src []string
	filepath.Walk(repo, func(path string, info os.FileInfo, err error) error {
		if err != nil {
			return nil
		}
		if info.IsDir() {
			if info.Name() == ".git" {
				return filepath.SkipDir
			}
			return nil
		}
		if strings.HasSuffix(path, ".go") || info.Name() == "go.mod" || info.Name() == "go.sum" {
			src = append(src, path)
		}
		return nil
	})
	sort.Strings(src)
	for _, f := range src {
		add(f)
	}
	for _, f := range files {
		add(f)
	}
	add(known)
	if self, err := os.Executable(); err == nil {
		add(self)
	}
	return hex.EncodeToString(h.Sum(nil))[:24]
}

func negControlsAll(repo, dir, known string) []negResult {
	const props = "all"
	files, _ := filepath.Glob(filepath.Join(dir, "*.diff"))
	sort.Strings(files)
	if len(files) == 0 {
		return nil
	}
	cacheDir := filepath.Join(filepath.Dir(dir), ".cache")
	cacheFile := filepath.Join(cacheDir, "negctl-"+negCacheKey(repo, files, known)+".json")
	// one computation at a time: thorough runs of several properties started together wait for the first one
	// and then read its result
	if os.MkdirAll(cacheDir, 0o755) == nil {
		if lf, err := os.OpenFile(filepath.Join(cacheDir, "lock"), os.O_CREATE|os.O_RDWR, 0o644); err == nil {
			if syscall.Flock(int(lf.Fd()), syscall.LOCK_EX) == nil {
				defer syscall.Flock(int(lf.Fd()), syscall.LOCK_UN)
			}
			defer lf.Close()
		}
	}
	if os.Getenv("VERIF_NO_CACHE") == "" {
		if b, err := os.ReadFile(cacheFile); err == nil {
			var cached []negResult
			if json.Unmarshal(b, &cached) == nil && len(cached) == len(files) {
				return cached
			}
		}
	}
	res := negControlsCompute(repo, files, known, props)
	if os.MkdirAll(cacheDir, 0o755) == nil {
		if b, err := json.Marshal(res); err == nil {
			tmp := cacheFile + ".tmp"
			if os.WriteFile(tmp, b, 0o644) == nil {
				os.Rename(tmp, cacheFile)
			}
		}
		// keep the directory small: one tree at a time matters
		if ents, err := os.ReadDir(cacheDir); err == nil && len(ents) > 6 {
			for _, e := range ents {
				if p := filepath.Join(cacheDir, e.Name()); p != cacheFile && e.Name() != "lock" {
					os.Remove(p)
				}
			}
		}
	}
	return res
}

func negControlsCompute(repo string, files []string, known, props string) []negResult {
	base, _ := violatedKeys(repo, props, known)
	res := make([]negResult, len(files))
	sem := make(chan struct{}, max(2, runtime.NumCPU()/2))
	var wg sync.WaitGroup
	for i, f := range files {
		wg.Add(1)
		go func(i int, f string) {
			defer wg.Done()
			sem <- struct{}{}
			defer func() { <-sem }()
			r := negResult{Patch: strings.TrimSuffix(filepath.Base(f), ".diff")}
			tmp, err := os.MkdirTemp("", "absnfs-neg-")
			if err != nil {
				r.Note = err.Error()
				res[i] = r
				return
			}
			defer os.RemoveAll(tmp)
			if err := copyTree(repo, tmp); err != nil {
				r.Note = "copy failed: " + err.Error()
				res[i] = r
				return
			}
			ap := exec.Command("git", "apply", "--whitespace=nowarn", f)
			ap.Dir = tmp
			ap.Env = append(os.Environ(), "GIT_CEILING_DIRECTORIES="+filepath.Dir(tmp))
			if out, err := ap.CombinedOutput(); err != nil {
				r.Silent = true
				r.Note = "patch does not apply to the current tree (written for another revision): " + firstLine(string(out))
				res[i] = r
				return
			}
			r.Applied = true
			got, note := violatedKeys(tmp, props, known)
			r.Note = note
			for k := range got {
				if !base[k] {
					r.Fired = append(r.Fired, k)
				}
			}
			sort.Strings(r.Fired)
			r.Silent = len(r.Fired) == 0 && note == ""
			res[i] = r
		}(i, f)
	}
	wg.Wait()
	return res
}
