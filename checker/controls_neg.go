package main

// controls_neg.go: negative controls.  /verif/benign/*.diff are behaviour-preserving refactorings of the
// repository (extract/inline helper, split function, rename, switch<->if, constants, tables, early returns,
// explicit unlocks ...) written by independent agents that saw nothing of the checker; each compiles and passes
// the full suite.  On every thorough run (and in -selftest) each one is applied to a scratch COPY of the current
// tree and the rules of the property are run on the copy: a rule that fires there is reporting an alarm on code
// where the property still holds.  Informational in the evidence; -selftest exits 2 on a noisy control.

import (
	"crypto/sha256"
	"encoding/hex"
	"encoding/json"
	"io"
	"os"
	"os/exec"
	"path/filepath"
	"runtime"
	"sort"
	"strings"
	"sync"
	"syscall"
)

type negResult struct {
	Patch   string   `json:"refactoring"`
	Applied bool     `json:"patch_applies_to_current_tree"`
	Fired   []string `json:"fired"`
	Silent  bool     `json:"silent"`
	Note    string   `json:"note,omitempty"`
}

// runNegControls runs the rules of props ("all" or one id) on refactored copies of the tree.  Loading and
// building a copy costs the same whatever rules run afterwards, so a copy is always analysed with every
// property's rules and the outcome of each refactoring is kept in <verif>/.cache, keyed by the contents of the
// tree, of the known-findings file, of the checker binary and of the refactoring itself: the thorough runs of
// the other properties on the same tree reuse it.  When relevant is given (the source files in which the
// property has obligations), only the refactorings that touch one of those files are analysed for this run —
// a change elsewhere leaves every function the property's rules read as it is — so that no single thorough
// command has to pay for all of them.  The cache only ever short-cuts a recomputation; it is never needed and
// any change of an input changes the key.
func runNegControls(repo, dir, known, props string, relevant map[string]bool) []negResult {
	files, _ := filepath.Glob(filepath.Join(dir, "*.diff"))
	sort.Strings(files)
	if len(files) == 0 {
		return nil
	}
	if props != "all" && len(relevant) > 0 {
		var sel []string
		for _, f := range files {
			for _, t := range patchTouches(f) {
				if relevant[t] {
					sel = append(sel, f)
					break
				}
			}
		}
		files = sel
	}
	all := negControlsFor(repo, dir, known, files)
	if props == "all" || all == nil {
		return all
	}
	out := make([]negResult, len(all))
	for i, r := range all {
		o := r
		o.Fired = nil
		for _, k := range r.Fired {
			if strings.HasPrefix(k, props+"/") {
				o.Fired = append(o.Fired, k)
			}
		}
		o.Silent = len(o.Fired) == 0 && (r.Note == "" || !r.Applied)
		out[i] = o
	}
	return out
}

// patchTouches: base names of the files a unified diff changes.
func patchTouches(patch string) []string {
	b, err := os.ReadFile(patch)
	if err != nil {
		return nil
	}
	var out []string
	for _, l := range strings.Split(string(b), "\n") {
		if strings.HasPrefix(l, "+++ b/") || strings.HasPrefix(l, "--- a/") {
			out = append(out, filepath.Base(strings.TrimSpace(l[6:])))
		}
	}
	return out
}

func negCacheKey(repo string, files []string, known string) string {
	h := sha256.New()
	add := func(path string) {
		f, err := os.Open(path)
		if err != nil {
			return
		}
		defer f.Close()
		io.WriteString(h, path+"\x00")
		io.Copy(h, f)
	}
	var src []string
	filepath.Walk(repo, func(path string, info os.FileInfo, err error) error {
		if err != nil {
			return nil
		}
		if info.IsDir() {
			if info.Name() == ".git" {
				return filepath.SkipDir
			}
			return nil
		}
		if strings.HasSuffix(path, ".go") || info.Name() == "go.mod" || info.Name() == "go.sum" {
			src = append(src, path)
		}
		return nil
	})
	sort.Strings(src)
	for _, f := range src {
		add(f)
	}
	for _, f := range files {
		add(f)
	}
	add(known)
	if self, err := os.Executable(); err == nil {
		add(self)
	}
	return hex.EncodeToString(h.Sum(nil))[:24]
}

func fileHash(path string) string {
	b, err := os.ReadFile(path)
	if err != nil {
		return "unreadable"
	}
	sum := sha256.Sum256(b)
	return hex.EncodeToString(sum[:])[:12]
}

// negControlsFor returns the all-properties result of each given refactoring, from the cache or computed now.
func negControlsFor(repo, dir, known string, files []string) []negResult {
	if len(files) == 0 {
		return []negResult{}
	}
	cacheDir := filepath.Join(filepath.Dir(dir), ".cache")
	useCache := os.Getenv("VERIF_NO_CACHE") == "" && os.MkdirAll(cacheDir, 0o755) == nil
	// one computation at a time: thorough runs started together wait for each other and share the results
	if useCache {
		if lf, err := os.OpenFile(filepath.Join(cacheDir, "lock"), os.O_CREATE|os.O_RDWR, 0o644); err == nil {
			if syscall.Flock(int(lf.Fd()), syscall.LOCK_EX) == nil {
				defer syscall.Flock(int(lf.Fd()), syscall.LOCK_UN)
			}
			defer lf.Close()
		}
	}
	prefix := "negctl-" + negCacheKey(repo, nil, known) + "-"
	res := make([]negResult, len(files))
	have := make([]bool, len(files))
	cachePath := func(f string) string {
		return filepath.Join(cacheDir, prefix+strings.TrimSuffix(filepath.Base(f), ".diff")+"-"+fileHash(f)+".json")
	}
	var missing []string
	var missingIdx []int
	for i, f := range files {
		if useCache {
			if b, err := os.ReadFile(cachePath(f)); err == nil {
				var r negResult
				if json.Unmarshal(b, &r) == nil && r.Patch != "" {
					res[i], have[i] = r, true
					continue
				}
			}
		}
		missing = append(missing, f)
		missingIdx = append(missingIdx, i)
	}
	if len(missing) == 0 {
		return res
	}
	// the violations of the unchanged tree (what a refactored copy is compared with)
	var base map[string]bool
	basePath := filepath.Join(cacheDir, prefix+"BASE.json")
	if useCache {
		if b, err := os.ReadFile(basePath); err == nil {
			var keys []string
			if json.Unmarshal(b, &keys) == nil {
				base = map[string]bool{}
				for _, k := range keys {
					base[k] = true
				}
			}
		}
	}
	if base == nil {
		base, _ = violatedKeys(repo, "all", known)
		if base == nil {
			base = map[string]bool{}
		}
		if useCache {
			var keys []string
			for k := range base {
				keys = append(keys, k)
			}
			sort.Strings(keys)
			if b, err := json.Marshal(keys); err == nil {
				os.WriteFile(basePath, b, 0o644)
			}
		}
	}
	computed := negControlsCompute(repo, missing, known, "all", base)
	for j, r := range computed {
		res[missingIdx[j]] = r
		if useCache && r.Patch != "" {
			if b, err := json.Marshal(r); err == nil {
				tmp := cachePath(missing[j]) + ".tmp"
				if os.WriteFile(tmp, b, 0o644) == nil {
					os.Rename(tmp, cachePath(missing[j]))
				}
			}
		}
	}
	// results for other trees or binaries are of no use any more
	if useCache {
		if ents, err := os.ReadDir(cacheDir); err == nil {
			for _, e := range ents {
				if e.Name() != "lock" && !strings.HasPrefix(e.Name(), prefix) {
					os.Remove(filepath.Join(cacheDir, e.Name()))
				}
			}
		}
	}
	return res
}

func negControlsCompute(repo string, files []string, known, props string, base map[string]bool) []negResult {
	res := make([]negResult, len(files))
	sem := make(chan struct{}, max(2, runtime.NumCPU()/2))
	var wg sync.WaitGroup
	for i, f := range files {
		wg.Add(1)
		go func(i int, f string) {
			defer wg.Done()
			sem <- struct{}{}
			defer func() { <-sem }()
			r := negResult{Patch: strings.TrimSuffix(filepath.Base(f), ".diff")}
			tmp, err := os.MkdirTemp("", "absnfs-neg-")
			if err != nil {
				r.Note = err.Error()
				res[i] = r
				return
			}
			defer os.RemoveAll(tmp)
			if err := copyTree(repo, tmp); err != nil {
				r.Note = "copy failed: " + err.Error()
				res[i] = r
				return
			}
			ap := exec.Command("git", "apply", "--whitespace=nowarn", f)
			ap.Dir = tmp
			ap.Env = append(os.Environ(), "GIT_CEILING_DIRECTORIES="+filepath.Dir(tmp))
			if out, err := ap.CombinedOutput(); err != nil {
				r.Silent = true
				r.Note = "patch does not apply to the current tree (written for another revision): " + firstLine(string(out))
				res[i] = r
				return
			}
			r.Applied = true
			got, note := violatedKeys(tmp, props, known)
			r.Note = note
			for k := range got {
				if !base[k] {
					r.Fired = append(r.Fired, k)
				}
			}
			sort.Strings(r.Fired)
			r.Silent = len(r.Fired) == 0 && note == ""
			res[i] = r
		}(i, f)
	}
	wg.Wait()
	return res
}
