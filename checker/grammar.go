package main

// grammar.go: RFC 1813 result grammars (ORACLES.md A3) and a matcher over
// reply traces.

import (
	"strings"
)

// nfsstat3 per RFC 1813 §2.6
var nfsstat3 = map[int64]string{0: "OK", 1: "PERM", 2: "NOENT", 5: "IO", 6: "NXIO", 13: "ACCES", 17: "EXIST", 18: "XDEV", 19: "NODEV",
	20: "NOTDIR", 21: "ISDIR", 22: "INVAL", 27: "FBIG", 28: "NOSPC", 30: "ROFS", 31: "MLINK", 63: "NAMETOOLONG", 66: "NOTEMPTY",
	69: "DQUOT", 70: "STALE", 71: "REMOTE", 10001: "BADHANDLE", 10002: "NOT_SYNC", 10003: "BAD_COOKIE", 10004: "NOTSUPP",
	10005: "TOOSMALL", 10006: "SERVERFAULT", 10007: "BADTYPE", 10008: "JUKEBOX"}

// mountstat3 per RFC 1813 §5.1.1
var mountstat3 = map[int64]string{0: "OK", 1: "PERM", 2: "NOENT", 5: "IO", 13: "ACCES", 20: "NOTDIR", 22: "INVAL", 63: "NAMETOOLONG",
	10004: "NOTSUPP", 10006: "SERVERFAULT"}

var procNames = map[uint32]string{0: "NULL", 1: "GETATTR", 2: "SETATTR", 3: "LOOKUP", 4: "ACCESS", 5: "READLINK", 6: "READ", 7: "WRITE",
	8: "CREATE", 9: "MKDIR", 10: "SYMLINK", 11: "MKNOD", 12: "REMOVE", 13: "RMDIR", 14: "RENAME", 15: "LINK", 16: "READDIR",
	17: "READDIRPLUS", 18: "FSSTAT", 19: "FSINFO", 20: "PATHCONF", 21: "COMMIT"}

// result grammars after the status word: ok / fail
var resOK = map[uint32]string{
	1: "FATTR3", 2: "WCC", 3: "FH3 POA POA", 4: "POA U32", 5: "POA STR", 6: "POA U32 U32 OPAQUE", 7: "WCC U32 U32 V8",
	8: "POFH POA WCC", 9: "POFH POA WCC", 10: "POFH POA WCC", 11: "POFH POA WCC", 12: "WCC", 13: "WCC", 14: "WCC WCC", 15: "POA WCC",
	16: "POA V8 ENTRIES U32", 17: "POA V8 ENTRIESPLUS U32", 18: "POA U64 U64 U64 U64 U64 U64 U32",
	19: "POA U32 U32 U32 U32 U32 U32 U32 U64 U32 U32 U32", 20: "POA U32 U32 U32 U32 U32 U32", 21: "WCC V8",
}
var resFail = map[uint32]string{
	1: "", 2: "WCC", 3: "POA", 4: "POA", 5: "POA", 6: "POA", 7: "WCC", 8: "WCC", 9: "WCC", 10: "WCC", 11: "WCC", 12: "WCC", 13: "WCC",
	14: "WCC WCC", 15: "POA WCC", 16: "POA", 17: "POA", 18: "POA", 19: "POA", 20: "POA", 21: "WCC",
}

// matchGrammar matches tokens (without the leading status and trailing END)
// against a space-separated grammar.  Returns ok and a description of the
// first mismatch.
func matchGrammar(toks []tok, grammar string) (bool, string) {
	elems := strings.Fields(grammar)
	ok, pos := matchSeq(toks, 0, elems)
	if ok && pos == len(toks) {
		return true, ""
	}
	if ok {
		return false, "trailing items after the result: " + tokString(toks[pos:])
	}
	return false, "items [" + tokString(toks) + "] do not match grammar [" + grammar + "]"
}

func isConst(t tok, v int64) bool { return t.Kind == "U32" && t.Const != nil && *t.Const == v }

// matchSeq returns whether elems match a prefix of toks[i:], and the end index (first match, backtracking over alternatives).
func matchSeq(toks []tok, i int, elems []string) (bool, int) {
	if len(elems) == 0 {
		return true, i
	}
	for _, end := range matchElem(toks, i, elems[0]) {
		if ok, e2 := matchSeq(toks, end, elems[1:]); ok {
			return true, e2
		}
	}
	return false, i
}

// matchElem returns all possible end indices for matching one element at i.
func matchElem(toks []tok, i int, el string) []int {
	kind := func(k string) []int {
		if i < len(toks) && toks[i].Kind == k {
			return []int{i + 1}
		}
		return nil
	}
	seq := func(alts ...[]string) []int {
		var out []int
		for _, a := range alts {
			if ok, e := matchSeq(toks, i, a); ok {
				out = append(out, e)
			}
		}
		return out
	}
	switch el {
	case "U32", "U64", "V8", "STR", "FH3", "FATTR3", "WCCATTR":
		return kind(el)
	case "ZERO":
		if i < len(toks) && isConst(toks[i], 0) {
			return []int{i + 1}
		}
		return nil
	case "ONE":
		if i < len(toks) && isConst(toks[i], 1) {
			return []int{i + 1}
		}
		return nil
	case "POA":
		return seq([]string{"ZERO"}, []string{"ONE", "FATTR3"})
	case "PRE":
		return seq([]string{"ZERO"}, []string{"ONE", "WCCATTR"})
	case "WCC":
		return seq([]string{"PRE", "POA"})
	case "POFH":
		return seq([]string{"ZERO"}, []string{"ONE", "FH3"})
	case "OPAQUE":
		return seq([]string{"U32", "BYTES", "PAD"}, []string{"U32", "BYTES"})
	case "BYTES", "PAD":
		return kind(el)
	case "ENTRIES":
		return matchStar(toks, i, []string{"ONE", "U64", "STR", "U64"})
	case "ENTRIESPLUS":
		return matchStar(toks, i, []string{"ONE", "U64", "STR", "U64", "POA", "POFH"})
	}
	return nil
}

// matchStar: (body)* ZERO
func matchStar(toks []tok, i int, body []string) []int {
	var out []int
	pos := i
	for n := 0; n < 8; n++ {
		if pos < len(toks) && isConst(toks[pos], 0) {
			out = append(out, pos+1)
		}
		ok, e := matchSeq(toks, pos, body)
		if !ok || e == pos {
			break
		}
		pos = e
	}
	return out
}
