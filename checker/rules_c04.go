package main

import (
	"fmt"
	"go/token"
	"sort"
	"strings"

	"golang.org/x/tools/go/ssa"
)

func init() {
	register("C04",
		"Decided (structure only): (complete) every NFSAttrs record built on the request path that can reach an attribute sink (AttrCache.Put, NFSNode.attrs, SetAttr, a reply encoder, or a return value) carries Mode, Size and FileId, where Mode and Size come from one backend FileInfo or are copied from the same field of another record; hint records passed only to Create/Symlink are exempt; (lstat) that FileInfo is the result of Lstat, never Stat; (fileid) FileId is the FNV-64a sum of the same path expression that was stat'ed, identically in every constructor; (typebits) a wire-derived mode is never stored into NFSAttrs.Mode of a sink-reaching record without being OR-ed with the previous type bits; (ftype) the mode-to-ftype3 switch in encodeFileAttributes equals the RFC 1813 table. Not decided: equality with the backend's lstat at run time, fileid stability across a history.",
		commonAssume, runC04)
}

type attrLit struct {
	Fn     *ssa.Function
	Alloc  *ssa.Alloc
	Fields map[string][]ssa.Value // field name -> stored values
	Sinks  []string
	Hints  []string
}

var hintCallees = map[string]bool{
	"(*" + absnfsPath + ".AbsfsNFS).Create":            true,
	"(*" + absnfsPath + ".AbsfsNFS).CreateWithContext": true,
	"(*" + absnfsPath + ".AbsfsNFS).Symlink":           true,
}

func (p *Prog) attrLiterals(reach map[*ssa.Function]bool) []*attrLit {
	var out []*attrLit
	attrsFld := p.field("NFSNode", "attrs")
	for _, fn := range p.SrcFuncs {
		if !reach[fn] {
			continue
		}
		for _, b := range fn.Blocks {
			for _, in := range b.Instrs {
				al, ok := in.(*ssa.Alloc)
				if !ok || recvTypeName(al.Type()) != "NFSAttrs" || !al.Heap {
					continue
				}
				lit := &attrLit{Fn: fn, Alloc: al, Fields: map[string][]ssa.Value{}}
				wholeCopy := false
				for _, r := range *al.Referrers() {
					switch x := r.(type) {
					case *ssa.FieldAddr:
						f := fieldOf(x.X.Type(), x.Field)
						for _, r2 := range *x.Referrers() {
							if st, ok := r2.(*ssa.Store); ok && st.Addr == ssa.Value(x) {
								lit.Fields[f.Name()] = append(lit.Fields[f.Name()], st.Val)
							}
						}
					case *ssa.Store:
						if x.Addr == ssa.Value(al) {
							wholeCopy = true // *new = *other : struct copy
						}
						if x.Val == ssa.Value(al) {
							if _, f, ok := fieldAddrOf(x.Addr); ok && f == attrsFld {
								lit.Sinks = append(lit.Sinks, "store:NFSNode.attrs")
							} else {
								lit.Sinks = append(lit.Sinks, "store:other")
							}
						}
					case *ssa.Return:
						lit.Sinks = append(lit.Sinks, "return")
					case *ssa.Phi:
						lit.Sinks = append(lit.Sinks, "phi")
					case *ssa.MakeInterface:
						lit.Sinks = append(lit.Sinks, "iface")
					case ssa.CallInstruction:
						callee := staticCallee(x)
						q := "dynamic"
						if callee != nil {
							q = qualFn(callee)
						}
						args := x.Common().Args
						isRecv := len(args) > 0 && args[0] == ssa.Value(al) && callee != nil && callee.Signature.Recv() != nil
						if isRecv {
							continue // method call on the record itself (SetMtime, Refresh ...)
						}
						if hintCallees[q] {
							lit.Hints = append(lit.Hints, shortQual(q))
						} else {
							lit.Sinks = append(lit.Sinks, "arg:"+shortQual(q))
						}
					}
				}
				if wholeCopy {
					continue // a struct copy of an existing record: completeness is inherited
				}
				out = append(out, lit)
			}
		}
	}
	return out
}

func runC04(c *Ctx) {
	p := c.P
	const P = "C04"
	runC04ChmodKeepsType(c, P)
	// the node behind a handle remembers the object's type: a re-created name must get the new node (borrowed from C05)
	{
		saved := c.Only
		c.Only = map[string]bool{"hit-rebinds": true}
		runC05Atomic(c, P)
		c.Only = saved
	}
	c.rule(P, "complete", "sink-reaching NFSAttrs literal has Mode, Size, FileId; Mode/Size from one FileInfo or copied from the same field", 4)
	c.rule(P, "lstat", "the FileInfo feeding an attribute record is an Lstat result", 2)
	c.rule(P, "fileid", "FileId = fnv64a(path) of the path that was stat'ed", 2)
	c.rule(P, "typebits", "no wire-derived value is stored into NFSAttrs.Mode of a sink-reaching record without the object's type bits", 1)
	runC04ChmodType(c, P)
	c.rule(P, "ftype", "mode type bits → ftype3 table in encodeFileAttributes equals RFC 1813 §2.5", 7)
	c.rule(P, "inval", "every backend mutation that changes an object's attributes (create/remove/rename/mkdir/symlink, data writes, truncation) invalidates that object's cached attributes before any cache read, so replies built from the cache agree with the backend (shared rule with C01/C02)", 15)
	runInval(c, P, "ns")
	runInval(c, P, "data")

	ent, err := p.entrySet()
	if err != nil {
		c.undecided(P, "complete", "entries", "", err.Error())
		return
	}
	reach := p.reachableFrom(ent.procEntries())
	fl := newFlow(p)
	lits := p.attrLiterals(reach)
	perFn := map[string]int{}
	for _, lit := range lits {
		perFn[fnKey(lit.Fn)]++
		key := fmt.Sprintf("lit=%s:NFSAttrs#%d", fnKey(lit.Fn), perFn[fnKey(lit.Fn)])
		pos := p.instrPos(lit.Alloc)
		if len(lit.Sinks) == 0 {
			if len(lit.Hints) > 0 {
				c.ok(P, "complete", key, pos, "hint record passed only to "+strings.Join(lit.Hints, ","))
			}
			continue
		}
		var missing []string
		for _, f := range []string{"Mode", "Size", "FileId"} {
			if len(lit.Fields[f]) == 0 {
				missing = append(missing, f)
			}
		}
		sinks := strings.Join(uniq(lit.Sinks), ",")
		if len(missing) > 0 {
			c.bad(P, "complete", key, pos, fmt.Sprintf("attribute record without %s reaches %s: later replies for this object report a different fileid/size/type than LOOKUP and GETATTR do", strings.Join(missing, "/"), sinks))
		} else {
			c.ok(P, "complete", key, pos, "has Mode, Size, FileId; reaches "+sinks)
		}
		// provenance of Mode and Size
		var infoCalls []ssa.CallInstruction
		copied := true
		for _, f := range []string{"Mode", "Size"} {
			for _, v := range lit.Fields[f] {
				for _, o := range fl.Origins(v) {
					switch {
					case o.Kind == "call" && o.Call != nil && strings.Contains(o.Desc, "FileInfo."+f):
						copied = false
						// the FileInfo value: receiver of the invoke
						for _, oo := range fl.Origins(o.Call.Common().Value) {
							if oo.Kind == "call" && oo.Call != nil && asBackendCall(oo.Call) != nil {
								infoCalls = append(infoCalls, oo.Call)
							}
						}
					case o.Kind == "field" && o.Fld != nil && o.Fld.Name() == f:
					default:
						if f == "Mode" {
							// handled by typebits
						}
					}
				}
			}
		}
		if !copied {
			seenCall := map[ssa.CallInstruction]bool{}
			for _, ic := range infoCalls {
				if seenCall[ic] {
					continue
				}
				seenCall[ic] = true
				bc := asBackendCall(ic)
				k2 := key + " info=" + bc.Method
				c.verdictIf(bc.Method == "Lstat", P, "lstat", k2, p.instrPos(ic), "attributes come from Lstat", "attributes are built from "+bc.Method+", which follows symbolic links: a symlink is reported with its target's type and size")
				// fileid
				if len(lit.Fields["FileId"]) > 0 {
					okID, why := checkFileID(p, fl, lit, ic)
					c.verdictIf(okID, P, "fileid", key, pos, "FileId = fnv64a of the stat'ed path", why)
				}
			}
		}
	}

	// typebits: stores to NFSAttrs.Mode of wire-derived values
	modeFld := p.field("NFSAttrs", "Mode")
	for _, fn := range p.SrcFuncs {
		if !reach[fn] {
			continue
		}
		n := 0
		for _, b := range fn.Blocks {
			for _, in := range b.Instrs {
				st, ok := in.(*ssa.Store)
				if !ok {
					continue
				}
				base, f, isFA := fieldAddrOf(st.Addr)
				if !isFA || f != modeFld {
					continue
				}
				os := fl.Origins(st.Val)
				wire := hasOrigin(os, func(o Origin) bool {
					return (o.Kind == "field" && o.Fld != nil && o.Fld.Pkg() != nil && recvTypeNameOfField(p, o.Fld) == "sattr3") || (o.Kind == "outparam" && strings.Contains(o.Desc, "binary.Read"))
				})
				if !wire {
					continue
				}
				n++
				key := fmt.Sprintf("store=%s:NFSAttrs.Mode#%d", fnKey(fn), n)
				// hint records are exempt
				if al, ok := base.(*ssa.Alloc); ok {
					isHint := false
					for _, lit := range lits {
						if lit.Alloc == al && len(lit.Sinks) == 0 {
							isHint = true
						}
					}
					if isHint {
						c.ok(P, "typebits", key, p.instrPos(in), "hint record only")
						continue
					}
				}
				// accepted: value is (old.Mode & ModeType) | (wire & perm)  => origins include a load of NFSAttrs.Mode and the op is OR
				keeps := false
				if bo, ok := unwrap(st.Val).(*ssa.BinOp); ok && bo.Op == token.OR {
					keeps = hasOrigin(os, func(o Origin) bool { return o.Kind == "field" && o.Fld == modeFld })
				}
				c.verdictIf(keeps, P, "typebits", key, p.instrPos(in), "type bits of the previous mode are kept", "a mode taken from the request replaces NFSAttrs.Mode including its type bits: after SETATTR(mode) a directory or symlink is reported (and treated) as a regular file")
			}
		}
	}

	// ftype table
	runFtype(c)
}

func recvTypeNameOfField(p *Prog, f interface{ Name() string }) string {
	for _, tn := range []string{"sattr3"} {
		n := p.namedType(tn)
		if n == nil {
			continue
		}
		if fv := p.field(tn, f.Name()); fv != nil && interface{}(fv) == interface{}(f) {
			return tn
		}
	}
	return ""
}

func uniq(s []string) []string {
	m := map[string]bool{}
	var out []string
	for _, x := range s {
		if !m[x] {
			m[x] = true
			out = append(out, x)
		}
	}
	sort.Strings(out)
	return out
}

func checkFileID(p *Prog, fl *Flow, lit *attrLit, statCall ssa.CallInstruction) (bool, string) {
	statPath := mkExpr(statCall.Common().Args[0])
	for _, v := range lit.Fields["FileId"] {
		os := fl.Origins(v)
		for _, o := range os {
			if o.Kind == "field" && o.Fld != nil && o.Fld.Name() == "FileId" {
				continue
			}
			if !(o.Kind == "call" && o.Call != nil && strings.HasSuffix(o.Desc, "Sum64#0")) {
				return false, "FileId does not come from a 64-bit hash sum: " + strings.Join(originDescs(os), ",")
			}
			// hasher value: receiver; must come from fnv.New64a and be written exactly the stat path
			h := o.Call.Common().Value
			okNew := false
			for _, ho := range fl.Origins(h) {
				if ho.Kind == "call" && strings.Contains(ho.Desc, "hash/fnv.New64a") {
					okNew = true
				}
			}
			if !okNew {
				return false, "FileId hash is not fnv.New64a"
			}
			wrote := false
			if h.Referrers() != nil {
				for _, r := range *h.Referrers() {
					ci, ok := r.(ssa.CallInstruction)
					if !ok || !ci.Common().IsInvoke() || ci.Common().Method.Name() != "Write" {
						continue
					}
					arg := unwrap(ci.Common().Args[0])
					if mkExpr(arg).equal(statPath) {
						wrote = true
					} else {
						return false, "FileId hashes " + mkExpr(arg).String() + " but the attributes are those of " + statPath.String()
					}
				}
			}
			if !wrote {
				return false, "FileId hash is never fed the stat'ed path"
			}
		}
	}
	return true, ""
}

func runFtype(c *Ctx) {
	p := c.P
	const P = "C04"
	enc := p.Fn("encodeFileAttributes")
	if enc == nil {
		c.undecided(P, "ftype", "fn=encodeFileAttributes", "", "not found")
		return
	}
	// os.ModeType patterns -> ftype3 (ORACLES A4). Values of os.FileMode bits:
	const (
		mDir     = int64(1) << 31
		mSymlink = int64(1) << 27
		mDevice  = int64(1) << 26
		mPipe    = int64(1) << 25
		mSocket  = int64(1) << 24
		mChar    = int64(1) << 21
	)
	oracle := map[int64]int64{mDir: 2, mSymlink: 5, mDevice: 3, mDevice | mChar: 4, mSocket: 6, mPipe: 7}
	names := map[int64]string{mDir: "ModeDir", mSymlink: "ModeSymlink", mDevice: "ModeDevice", mDevice | mChar: "ModeDevice|ModeCharDevice", mSocket: "ModeSocket", mPipe: "ModeNamedPipe"}
	// the first xdrEncodeUint32 argument is the ftype value
	var ft ssa.Value
	for _, call := range calls(enc) {
		if isCallTo(call, absnfsPath+".xdrEncodeUint32") {
			ft = call.Common().Args[1]
			break
		}
	}
	phi, ok := ft.(*ssa.Phi)
	if !ok {
		c.undecided(P, "ftype", "table", p.pos(enc.Pos()), "ftype value is not a phi of constants selected by a switch")
		return
	}
	got := map[int64]int64{}
	def := int64(-1)
	for i, e := range phi.Edges {
		k, isC := constInt(e)
		if !isC {
			c.undecided(P, "ftype", "table", p.pos(enc.Pos()), "non-constant ftype alternative")
			return
		}
		pred := phi.Block().Preds[i]
		facts := append(append([]condFact{}, p.facts(pred)...), edgeFacts(pred, phi.Block())...)
		matched := false
		for _, f := range facts {
			op, lhs, rhs, ok := normCmp(f)
			if !ok || op != "==" {
				continue
			}
			if pat, isC := constInt(rhs); isC {
				if bo, ok := unwrap(lhs).(*ssa.BinOp); ok && bo.Op == token.AND {
					got[pat] = k
					matched = true
				}
			}
		}
		if !matched {
			def = k
		}
	}
	var pats []int64
	for k := range oracle {
		pats = append(pats, k)
	}
	sort.Slice(pats, func(i, j int) bool { return pats[i] > pats[j] })
	for _, pat := range pats {
		key := "row=" + names[pat]
		g, has := got[pat]
		c.verdictIf(has && g == oracle[pat], P, "ftype", key, p.pos(enc.Pos()), fmt.Sprintf("→ ftype3 %d", oracle[pat]), fmt.Sprintf("maps to %d (present=%v), RFC 1813 says %d", g, has, oracle[pat]))
	}
	c.verdictIf(def == 1, P, "ftype", "row=default", p.pos(enc.Pos()), "→ NF3REG", fmt.Sprintf("default maps to %d, expected 1 (NF3REG)", def))
	for pat, g := range got {
		if _, ok := oracle[pat]; !ok {
			c.bad(P, "ftype", fmt.Sprintf("row=extra:%#x", pat), p.pos(enc.Pos()), fmt.Sprintf("unexpected pattern mapped to %d", g))
		}
	}
}
