package main

// rules_round7.go: rules added after the seventh round of seeded changes (changes made outside the functions the
// properties' anchors name: in helper types, constructors, option conversion, the connection loop).

import (
	"fmt"
	"go/token"
	"go/types"
	"strings"

	"golang.org/x/tools/go/ssa"
)

// ---------------------------------------------------------------------------
// heap-contract (C05, C06): the free list of handle ids is a container/heap.  heap.Pop swaps the minimum to the
// end and calls Pop, which must hand back the last element and keep exactly the ones before it; Push must append
// its argument.  A Pop that keeps the element it returns issues one id twice.

func runHeapContract(c *Ctx, P string) {
	p := c.P
	c.rule(P, "heap-contract", "uint64MinHeap.Pop stores back exactly the elements before the one it returns; Push appends its argument", 2)
	pop := p.Fn("(*uint64MinHeap).Pop")
	if pop == nil || pop.Blocks == nil {
		c.undecided(P, "heap-contract", "fn=Pop", "", "not found")
	} else {
		recv := pop.Params[0]
		n := 0
		why := ""
		for _, b := range pop.Blocks {
			for _, in := range b.Instrs {
				st, ok := in.(*ssa.Store)
				if !ok || st.Addr != ssa.Value(recv) {
					continue
				}
				n++
				if !keepsAllButLast(st.Val, recv, 0) {
					why = "the slice stored back at " + p.instrPos(in) + " is not `old[:len(old)-1]` (or a copy of it)"
				}
			}
		}
		if n == 0 {
			why = "Pop never stores the shortened slice back"
		}
		c.verdictIf(why == "", P, "heap-contract", "fn=(*uint64MinHeap).Pop", p.pos(pop.Pos()), "keeps exactly the elements before the returned one",
			"uint64MinHeap.Pop breaks container/heap's contract ("+why+"): the id it returns stays in the free list and is handed out a second time while the first holder is live")
	}
	push := p.Fn("(*uint64MinHeap).Push")
	if push == nil || push.Blocks == nil {
		c.undecided(P, "heap-contract", "fn=Push", "", "not found")
		return
	}
	good := false
	for _, b := range push.Blocks {
		for _, in := range b.Instrs {
			st, ok := in.(*ssa.Store)
			if !ok || st.Addr != ssa.Value(push.Params[0]) {
				continue
			}
			if call, ok := unwrap(st.Val).(*ssa.Call); ok {
				if bi, ok := call.Call.Value.(*ssa.Builtin); ok && bi.Name() == "append" && len(call.Call.Args) == 2 {
					if u, ok := unwrap(call.Call.Args[0]).(*ssa.UnOp); ok && u.X == ssa.Value(push.Params[0]) {
						good = true
					}
				}
			}
		}
	}
	c.verdictIf(good, P, "heap-contract", "fn=(*uint64MinHeap).Push", p.pos(push.Pos()), "appends to the heap's own slice", "uint64MinHeap.Push does not append its argument to the heap's slice")
}

// keepsAllButLast: v is old[:len(old)-1] for old = *recv, or append(<empty slice>, old[:len(old)-1]...).
func keepsAllButLast(v ssa.Value, recv ssa.Value, depth int) bool {
	if depth > 4 {
		return false
	}
	isOld := func(x ssa.Value) bool {
		u, ok := unwrap(x).(*ssa.UnOp)
		return ok && u.Op == token.MUL && u.X == recv
	}
	switch x := unwrap(v).(type) {
	case *ssa.Slice:
		if !isOld(x.X) || x.High == nil {
			return false
		}
		if x.Low != nil {
			if k, isC := constInt(x.Low); !isC || k != 0 {
				return false
			}
		}
		bo, ok := unwrap(x.High).(*ssa.BinOp)
		if !ok || bo.Op != token.SUB {
			return false
		}
		if k, isC := constInt(bo.Y); !isC || k != 1 {
			return false
		}
		lc, ok := unwrap(bo.X).(*ssa.Call)
		if !ok {
			return false
		}
		bi, ok := lc.Call.Value.(*ssa.Builtin)
		return ok && bi.Name() == "len" && isOld(lc.Call.Args[0])
	case *ssa.Call:
		bi, ok := x.Call.Value.(*ssa.Builtin)
		if !ok || bi.Name() != "append" || len(x.Call.Args) != 2 {
			return false
		}
		// base must be empty: make(T, 0, ...) or a nil/empty literal
		switch base := unwrap(x.Call.Args[0]).(type) {
		case *ssa.MakeSlice:
			if k, isC := constInt(base.Len); !isC || k != 0 {
				return false
			}
		case *ssa.Const:
		default:
			return false
		}
		return keepsAllButLast(x.Call.Args[1], recv, depth+1)
	}
	return false
}

// ---------------------------------------------------------------------------
// squash-kept (C10): the squash mode in force never changes at run time: the policy record UpdatePolicyOptions
// publishes has the Squash of the record it replaces.  Decided: the published record's Squash is either stored
// from the previous record's, or the publication lies behind the equal edge of a comparison of the previous
// record's Squash with the Squash field of the very record that is published (not with a value derived from it).

func runC10SquashKept(c *Ctx, P string) {
	p := c.P
	c.rule(P, "squash-kept", "the policy UpdatePolicyOptions publishes carries the previous record's Squash: compared equal as stored, or copied from it", 1)
	upo := p.Fn("(*AbsfsNFS).UpdatePolicyOptions")
	if upo == nil || upo.Blocks == nil {
		c.undecided(P, "squash-kept", "fn=UpdatePolicyOptions", "", "not found")
		return
	}
	isOld := func(v ssa.Value) bool {
		call, ok := unwrap(v).(*ssa.Call)
		return ok && atomicPtrOp(call, "Load") && len(call.Call.Args) > 0 && isMutexField(call.Call.Args[0], "policy")
	}
	// loads of X.Squash
	squashBase := func(v ssa.Value) (ssa.Value, bool) {
		base, f, ok := fieldLoad(unwrap(v))
		if !ok || f == nil || f.Name() != "Squash" {
			return nil, false
		}
		return base, true
	}
	n := 0
	for _, call := range calls(upo) {
		cc, ok := call.(*ssa.Call)
		if !ok || !atomicPtrOp(cc, "Store") || len(cc.Call.Args) < 2 || !isMutexField(cc.Call.Args[0], "policy") {
			continue
		}
		n++
		key := fmt.Sprintf("publish=UpdatePolicyOptions:policy.Store#%d", n)
		stored := unwrap(cc.Call.Args[1]) // *PolicyOptions: an Alloc holding a copy of the parameter
		// the record's origin cells: the stored alloc and whatever whole-struct value was copied into it
		cells := map[ssa.Value]bool{stored: true}
		copied := false
		if al, ok := stored.(*ssa.Alloc); ok && al.Referrers() != nil {
			for _, r := range *al.Referrers() {
				switch u := r.(type) {
				case *ssa.Store:
					if u.Addr == ssa.Value(al) {
						// snapshot := newPolicy
						src := unwrap(u.Val)
						for d := 0; d < 4; d++ {
							ld, ok := src.(*ssa.UnOp)
							if !ok || ld.Op != token.MUL {
								break
							}
							cells[ld.X] = true
							// a copy of a copy (the parameter of an inlined helper)
							sv := singleStore(ld.X)
							if sv == nil {
								break
							}
							src = unwrap(sv)
						}
						if prm, ok := src.(*ssa.Parameter); ok {
							cells[prm] = true
						}
						if prm, ok := unwrap(u.Val).(*ssa.Parameter); ok {
							cells[prm] = true
						}
					}
				case *ssa.FieldAddr:
					if f := fieldOf(u.X.Type(), u.Field); f != nil && f.Name() == "Squash" && u.Referrers() != nil {
						for _, r2 := range *u.Referrers() {
							if st, ok := r2.(*ssa.Store); ok && st.Addr == ssa.Value(u) {
								if b, ok := squashBase(st.Val); ok && isOld(b) {
									copied = true
								}
							}
						}
					}
				}
			}
		}
		compared := false
		for _, f := range p.facts(call.Block()) {
			op, l, r, okc := normCmp(f)
			if !okc || op != "==" {
				continue
			}
			lb, lok := squashBase(l)
			rb, rok := squashBase(r)
			if !lok || !rok {
				continue
			}
			if isOld(lb) && cells[unwrap(rb)] || isOld(rb) && cells[unwrap(lb)] {
				compared = true
			}
		}
		c.verdictIf(copied || compared, P, "squash-kept", key, p.instrPos(call), "published Squash equals the previous one",
			"UpdatePolicyOptions can publish a policy whose Squash differs from the one in force (the equality test is made on a derived value, not on the field that is stored): an update that leaves Squash empty switches a root_squash/all_squash export to no squashing, and uid 0 and gid 0 pass through unmapped")
	}
	if n == 0 {
		c.undecided(P, "squash-kept", "fn=UpdatePolicyOptions", p.pos(upo.Pos()), "no publication of the policy found")
	}
}

// ---------------------------------------------------------------------------
// authctx-fresh (C10, C11): ValidateAuthentication parses the credential only when the context has none yet, and
// HandleCall derives the effective identity from it.  Each request must therefore get its own AuthContext: in the
// connection loop every AuthContext is allocated inside the per-request loop.

func runAuthCtxFresh(c *Ctx, P string, loop *ssa.Function) {
	p := c.P
	c.rule(P, "authctx-fresh", "every AuthContext of the connection loop is allocated inside the per-request loop (one per call)", 1)
	if loop == nil {
		c.undecided(P, "authctx-fresh", "fn=connection-loop", "", "not found")
		return
	}
	n := 0
	fns := append([]*ssa.Function{loop}, loop.AnonFuncs...)
	for _, fn := range fns {
		for _, b := range fn.Blocks {
			for _, in := range b.Instrs {
				al, ok := in.(*ssa.Alloc)
				if !ok || recvTypeName(al.Type()) != "AuthContext" {
					continue
				}
				n++
				key := fmt.Sprintf("alloc=%s:AuthContext#%d", fnKey(fn), n)
				inLoop := fn != loop || enclosingLoopHeader(b) != nil
				c.verdictIf(inLoop, P, "authctx-fresh", key, p.instrPos(in), "allocated per request",
					"the connection loop builds one AuthContext for the whole connection: the credential parsed for the first AUTH_SYS call stays in it (ValidateAuthentication only parses when AuthSys is nil), so later calls on the connection run with the first caller's effective uid/gid and squash decision")
			}
		}
	}
	if n == 0 {
		c.undecided(P, "authctx-fresh", "fn="+fnKey(loop), p.pos(loop.Pos()), "no AuthContext allocated in the connection loop")
	}
}

// ---------------------------------------------------------------------------
// short-is-error (C10, C12): in the AUTH_SYS credential decoder every test that finds the body shorter than what
// is about to be read leads to an error return; no path gives up reading silently and returns a credential
// whose remaining fields were never decoded (zero gids put a stranger in group 0).

func runShortIsError(c *Ctx, P string) {
	p := c.P
	c.rule(P, "short-is-error", "in ParseAuthSysCredential and the reader it uses, every not-enough-bytes edge of a length test on the credential body returns an error", 2)
	pa := p.Fn("ParseAuthSysCredential")
	if pa == nil {
		c.undecided(P, "short-is-error", "fn=ParseAuthSysCredential", "", "not found")
		return
	}
	scope := p.reachableFrom([]*ssa.Function{pa})
	var fromData func(v ssa.Value, d int) bool
	fromData = func(v ssa.Value, d int) bool {
		if d > 6 {
			return false
		}
		switch x := unwrap(v).(type) {
		case *ssa.Slice:
			return fromData(x.X, d+1)
		case *ssa.Phi:
			for _, e := range x.Edges {
				if fromData(e, d+1) {
					return true
				}
			}
		case *ssa.UnOp:
			// the byte-slice field of the reader the decoder walks (whatever the reader type is called)
			if _, f, ok := fieldLoad(x); ok && f != nil && isByteSlice(f.Type()) {
				return true
			}
		case *ssa.Parameter:
			// the body handed to ParseAuthSysCredential itself
			return isByteSlice(x.Type())
		}
		return false
	}
	var hasLen func(v ssa.Value, d int) bool
	hasLen = func(v ssa.Value, d int) bool {
		if d > 4 {
			return false
		}
		switch x := unwrap(v).(type) {
		case *ssa.Call:
			if bi, ok := x.Call.Value.(*ssa.Builtin); ok && bi.Name() == "len" && len(x.Call.Args) == 1 {
				return fromData(x.Call.Args[0], 0)
			}
		case *ssa.BinOp:
			if x.Op == token.ADD || x.Op == token.SUB {
				return hasLen(x.X, d+1) // the length is the minuend / first summand when it is on this side
			}
		case *ssa.Convert:
			return hasLen(x.X, d+1)
		}
		return false
	}
	n := 0
	for _, fn := range p.SrcFuncs {
		if !scope[rootFn(fn)] || fn.Pkg != p.Pkg {
			continue
		}
		for _, b := range fn.Blocks {
			ifi := blockIf(b)
			if ifi == nil || len(b.Succs) != 2 {
				continue
			}
			cond, neg := stripNot(ifi.Cond)
			bo, ok := cond.(*ssa.BinOp)
			if !ok {
				continue
			}
			lenLeft, lenRight := hasLen(bo.X, 0), hasLen(bo.Y, 0)
			if lenLeft == lenRight {
				continue
			}
			// shortOnTrue: the true edge is the one on which the available length is the smaller side
			var shortOnTrue bool
			switch bo.Op {
			case token.LSS, token.LEQ:
				shortOnTrue = lenLeft
			case token.GTR, token.GEQ:
				shortOnTrue = lenRight
			default:
				continue
			}
			if neg {
				shortOnTrue = !shortOnTrue
			}
			short := b.Succs[1]
			if shortOnTrue {
				short = b.Succs[0]
			}
			n++
			key := fmt.Sprintf("test=%s:len#%d", fnKey(fn), n)
			good := rejectEdgeFrom(p, b, short, true) || errorEdgeOK(b, short)
			c.verdictIf(good, P, "short-is-error", key, p.instrPos(ifi), "not enough bytes ⇒ error",
				"the credential decoder can run out of bytes here and still return a credential: the fields that were not read stay zero (auxiliary gid 0, uid 0 …), an undecodable AUTH_SYS body is accepted and its caller is put into group 0")
		}
	}
	if n == 0 {
		c.undecided(P, "short-is-error", "fn=ParseAuthSysCredential", p.pos(pa.Pos()), "no length test on the credential body found")
	}
}

func isByteSlice(t types.Type) bool {
	s, ok := t.Underlying().(*types.Slice)
	if !ok {
		return false
	}
	b, ok := s.Elem().Underlying().(*types.Basic)
	return ok && b.Kind() == types.Uint8
}

// ---------------------------------------------------------------------------
// transfer-positive (C15, C23): TransferSize bounds what a WRITE may make the server allocate and what FSINFO
// advertises.  A configured value that is zero or negative means "default".  Decided: if the tuning field is
// signed, applyDefaults replaces it on the edge `TransferSize <= 0` (or < 1); if it is unsigned, no value is
// converted into it from a signed type except behind a test that the source is positive.

func runTransferPositive(c *Ctx, P string) {
	p := c.P
	c.rule(P, "transfer-positive", "a non-positive configured TransferSize becomes the default before anything uses it (no sign wrap into an unsigned field, default applied on <= 0)", 1)
	fld := p.field("TuningOptions", "TransferSize")
	if fld == nil {
		c.undecided(P, "transfer-positive", "field=TuningOptions.TransferSize", "", "not found")
		return
	}
	bt, _ := fld.Type().Underlying().(*types.Basic)
	unsigned := bt != nil && bt.Info()&types.IsUnsigned != 0
	ad := p.Fn("(*TuningOptions).applyDefaults")
	if ad == nil || ad.Blocks == nil {
		c.undecided(P, "transfer-positive", "fn=applyDefaults", "", "not found")
		return
	}
	if !unsigned {
		good := false
		rewritten := ""
		for _, b := range ad.Blocks {
			for _, in := range b.Instrs {
				st, ok := in.(*ssa.Store)
				if !ok {
					continue
				}
				_, f, isFA := fieldAddrOf(st.Addr)
				if !isFA || f != fld {
					continue
				}
				if k, isC := constInt(st.Val); !isC || k <= 0 {
					rewritten = "applyDefaults assigns TransferSize a value that is not a positive constant at " + p.instrPos(in) + " (" + st.Val.String() + ")"
					continue
				}
				for _, fc := range p.facts(b) {
					op, l, r, okc := normCmp(fc)
					if !okc {
						continue
					}
					// normalised: `TransferSize <= 0` is `0 >= TransferSize`, `TransferSize < 1` is `1 > TransferSize`
					_, rf, isLoad := fieldLoad(unwrap(r))
					if !isLoad || rf != fld {
						continue
					}
					k, isC := constInt(l)
					if !isC {
						continue
					}
					if (op == ">=" && k == 0) || (op == ">" && k == 1) {
						good = true
					}
				}
			}
		}
		if rewritten != "" {
			c.bad(P, "transfer-positive", "fn=applyDefaults TransferSize", p.pos(ad.Pos()), rewritten+": a small positive configured value can become zero after the default check, and the server then reads and writes nothing while reporting success")
			return
		}
		c.verdictIf(good, P, "transfer-positive", "fn=applyDefaults TransferSize", p.pos(ad.Pos()), "default applied on TransferSize <= 0",
			"applyDefaults does not replace every non-positive TransferSize by the default: a negative configured value reaches the request path, where it is converted to uint32 and stops bounding the buffer a WRITE's declared count allocates")
		return
	}
	// unsigned field: conversions from signed sources into it
	n := 0
	for _, fn := range p.SrcFuncs {
		for _, b := range fn.Blocks {
			for _, in := range b.Instrs {
				st, ok := in.(*ssa.Store)
				if !ok {
					continue
				}
				_, f, isFA := fieldAddrOf(st.Addr)
				if !isFA || f != fld {
					continue
				}
				cv, ok := st.Val.(*ssa.Convert)
				if !ok {
					continue
				}
				sb, _ := cv.X.Type().Underlying().(*types.Basic)
				if sb == nil || sb.Info()&types.IsInteger == 0 || sb.Info()&types.IsUnsigned != 0 {
					continue
				}
				n++
				key := fmt.Sprintf("convert=%s:TransferSize#%d", fnKey(fn), n)
				good := false
				for _, fc := range p.facts(b) {
					op, l, r, okc := normCmp(fc)
					if !okc || unwrap(l) != unwrap(cv.X) {
						continue
					}
					if k, isC := constInt(r); isC && ((op == ">" && k >= 0) || (op == ">=" && k >= 0)) {
						good = true
					}
				}
				c.verdictIf(good, P, "transfer-positive", key, p.instrPos(in), "source tested positive",
					"a signed configuration value is converted into the unsigned TransferSize without a sign test: a negative value wraps to about 4 GiB, is not replaced by the default and no longer bounds the buffer a WRITE's declared count allocates (and FSINFO advertises it)")
			}
		}
	}
	if n == 0 {
		c.ok(P, "transfer-positive", "field=TuningOptions.TransferSize", "", "unsigned field, never assigned from a signed value")
	}
}

var _ = strings.HasPrefix
