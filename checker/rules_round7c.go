package main

// rules_round7c.go: timeouts-complete (C24, C28).  Every field of TimeoutConfig is a deadline some request path
// arms; zero means "already expired" (HandleCall with DefaultTimeout 0 answers nothing, not even NULL).  A caller
// may pass a partially filled Timeouts record, so the constructor path must give EVERY field a default on its
// non-positive edge, not only a nil record.

import (
	"go/token"

	"golang.org/x/tools/go/ssa"
)

func runTimeoutsComplete(c *Ctx, P string) {
	p := c.P
	c.rule(P, "timeouts-complete", "the constructor path replaces every non-positive field of TimeoutConfig by a default (a partially filled record included)", 5)
	nw := p.Fn("New")
	if nw == nil {
		c.undecided(P, "timeouts-complete", "fn=New", "", "not found")
		return
	}
	owners := map[string]bool{"ExportOptions": true, "TimeoutConfig": true, "TuningOptions": true}
	D := map[string]string{}
	for _, g := range append([]*ssa.Function{nw}, funcsReach(p, nw)...) {
		if g.Pkg == nil || g.Pkg.Pkg.Path() != absnfsPath {
			continue
		}
		for k, v := range extractDefaults(p, g, owners) {
			D[k] = v
		}
	}
	fields := structFields(p, "TimeoutConfig")
	if len(fields) == 0 {
		c.undecided(P, "timeouts-complete", "type=TimeoutConfig", "", "not found")
		return
	}
	for _, f := range fields {
		_, ok := D["Timeouts."+f]
		c.verdictIf(ok, P, "timeouts-complete", "field=TimeoutConfig."+f, p.pos(nw.Pos()), "defaulted when not positive",
			"TimeoutConfig."+f+" gets no default when a caller passes a partially filled Timeouts record: a zero "+f+" is a deadline that has already passed, so the requests it bounds are answered with a timeout (DefaultTimeout: with no reply at all, the connection is dropped even for NULL)")
	}
}

// C17/export-once: Unexport and Close stop the server AbsfsNFS.exportServer points to, so that field must never be
// overwritten while it holds a running server: every store of a new server in Export lies behind the edge on
// which the field was found nil.
func runC17ExportOnce(c *Ctx, P string) {
	p := c.P
	c.rule(P, "export-once", "a store of a server into AbsfsNFS.exportServer is dominated by the edge on which the field was nil", 1)
	n := 0
	for _, fn := range p.SrcFuncs {
		for _, b := range fn.Blocks {
			for _, in := range b.Instrs {
				st, ok := in.(*ssa.Store)
				if !ok {
					continue
				}
				base, f, isFA := fieldAddrOf(st.Addr)
				if !isFA || f == nil || f.Name() != "exportServer" || recvTypeName(base.Type()) != "AbsfsNFS" {
					continue
				}
				if isNilConst(st.Val) {
					continue
				}
				n++
				good := false
				for _, fc := range p.facts(b) {
					op, l, r, okc := normCmp(fc)
					if !okc || op != "==" {
						continue
					}
					for _, pair := range [][2]ssa.Value{{l, r}, {r, l}} {
						if !isNilConst(pair[1]) {
							continue
						}
						if _, lf, isLoad := fieldLoad(unwrap(pair[0])); isLoad && lf == f {
							good = true
						}
					}
				}
				c.verdictIf(good, P, "export-once", "store="+fnKey(fn)+":exportServer", p.instrPos(in), "only when no server is recorded",
					"a server is recorded in AbsfsNFS.exportServer without checking that none is recorded yet: the reference to a running server is lost, Unexport and Close can no longer stop it and it keeps serving connections after teardown")
			}
		}
	}
	if n == 0 {
		c.ok(P, "export-once", "store=none", "", "no server is ever recorded in exportServer")
	}
}

// C01/trunc-asked: on the SETATTR path the file's length changes only when the request said so: every backend
// Truncate reachable from handleSetattr is reached only across the true edge of the decoded sattr3 SetSize flag.
// A Truncate decided by comparing sizes remembered in attribute records cuts off data a concurrent WRITE has
// just been acknowledged for.
func runC01TruncAsked(c *Ctx, P string) {
	p := c.P
	c.rule(P, "trunc-asked", "every backend Truncate reachable from handleSetattr lies behind the true edge of sattr3.SetSize", 1)
	ent, err := p.entrySet()
	if err != nil || ent.Handlers[2] == nil {
		c.undecided(P, "trunc-asked", "proc=SETATTR", "", "handler not found")
		return
	}
	h := ent.Handlers[2]
	fld := p.field("sattr3", "SetSize")
	if fld == nil {
		c.undecided(P, "trunc-asked", "binding:sattr3.SetSize", "", "field not found")
		return
	}
	safe := p.withBoolSummaries(fieldGuard(fld, true))
	reach := p.reachableFrom([]*ssa.Function{h})
	isEntry := map[*ssa.Function]bool{h: true}
	n := 0
	for _, fn := range p.SrcFuncs {
		if !reach[fn] {
			continue
		}
		for _, call := range calls(fn) {
			bc := asBackendCall(call)
			if bc == nil || bc.Method != "Truncate" {
				continue
			}
			n++
			key := "sink=" + fnKey(fn) + ":" + shortCallee(call)
			r := p.liftGuard(fn, call, safe, isEntry, reach)
			c.verdictIf(r.Guarded && !r.Unreached, P, "trunc-asked", key, p.instrPos(call), "only when the request sets the size",
				"SETATTR can truncate a file although the request did not set the size: the Truncate is decided by something other than the decoded set_size flag (e.g. a comparison of remembered sizes), so a mode-only SETATTR overlapping a WRITE cuts off bytes the WRITE was acknowledged for")
		}
	}
	if n == 0 {
		c.undecided(P, "trunc-asked", "proc=SETATTR", p.pos(h.Pos()), "no backend Truncate reachable from handleSetattr")
	}
}

// errorEdgeOK: every path from the edge from→start reaches a return whose error result is not nil.  Values
// merged at joins (the results of an inlined helper) are read for the edge the path came by, and a nil test on
// such a value is decided when the value is nil or known non-nil (fmt.Errorf, errors.New, a boxed value).
func errorEdgeOK(from, start *ssa.BasicBlock) bool {
	seen := map[edge]bool{}
	var path []*ssa.BasicBlock
	if from != nil {
		path = append(path, from)
	}
	resolve := func(v ssa.Value) ssa.Value {
		for n := 0; n < 8; n++ {
			phi, ok := v.(*ssa.Phi)
			if !ok {
				break
			}
			at := -1
			for i := len(path) - 1; i > 0; i-- {
				if path[i] == phi.Block() {
					at = i
					break
				}
			}
			if at < 1 {
				break
			}
			idx := -1
			for i, pr := range phi.Block().Preds {
				if pr == path[at-1] {
					idx = i
				}
			}
			if idx < 0 || idx >= len(phi.Edges) {
				break
			}
			v = phi.Edges[idx]
		}
		return v
	}
	nonNil := func(v ssa.Value) bool {
		switch x := v.(type) {
		case *ssa.MakeInterface:
			return true
		case *ssa.Call:
			if f := staticCallee(x); f != nil && f.Pkg != nil {
				q := f.Pkg.Pkg.Path() + "." + f.Name()
				return q == "fmt.Errorf" || q == "errors.New"
			}
		}
		return false
	}
	var walk func(b *ssa.BasicBlock, env phiEnv) bool
	walk = func(b *ssa.BasicBlock, env phiEnv) bool {
		var pred *ssa.BasicBlock
		if len(path) > 0 {
			pred = path[len(path)-1]
		}
		if seen[edge{pred, b}] {
			return true
		}
		seen[edge{pred, b}] = true
		path = append(path, b)
		defer func() { path = path[:len(path)-1] }()
		for _, in := range b.Instrs {
			if r, ok := in.(*ssa.Return); ok {
				if len(r.Results) == 0 {
					return false
				}
				last := resolve(retVal(r, len(r.Results)-1))
				return !isNilConst(last)
			}
		}
		succs := feasibleSuccs(b, env)
		if ifi := blockIf(b); ifi != nil && len(succs) == 2 {
			if bo, ok := ifi.Cond.(*ssa.BinOp); ok && (bo.Op == token.EQL || bo.Op == token.NEQ) {
				x, y := resolve(bo.X), resolve(bo.Y)
				var other ssa.Value
				if isNilConst(x) {
					other = y
				} else if isNilConst(y) {
					other = x
				}
				if other != nil {
					isNil, known := false, false
					if isNilConst(other) {
						isNil, known = true, true
					} else if nonNil(other) {
						isNil, known = false, true
					}
					if known {
						if (bo.Op == token.EQL) == isNil {
							succs = succs[:1]
						} else {
							succs = succs[1:2]
						}
					}
				}
			}
		}
		if len(succs) == 0 {
			return false
		}
		for _, s := range succs {
			if !walk(s, env.enter(b, s)) {
				return false
			}
		}
		return true
	}
	return walk(start, phiEnv{}.enter(from, start))
}
