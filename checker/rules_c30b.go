package main

// rules_c30b.go: C30/rotate-update.  The listener's tls.Config is built once
// in Listen and reads the certificate from the cell of the TLSConfig stored in
// the policy at that time.  The documented rotation handle is
// GetExportOptions().TLS, i.e. the TLSConfig of the CURRENT policy.  A runtime
// policy update must therefore keep the link: the TLSConfig it stores either
// is the previous one (update without TLS settings) or takes over the previous
// one's certificate cell.

import (
	"golang.org/x/tools/go/ssa"
)

func runC30RotateUpdate(c *Ctx) {
	p := c.P
	const P = "C30"
	c.rule(P, "rotate-update", "UpdatePolicyOptions keeps the listener's certificate cell reachable from the stored policy (previous TLSConfig kept, or its currentCert cell taken over)", 2)
	upo := p.Fn("(*AbsfsNFS).UpdatePolicyOptions")
	if upo == nil {
		c.undecided(P, "rotate-update", "fn=UpdatePolicyOptions", "", "not found")
		return
	}
	// values that are the previous policy record: results of atomic Load on the policy pointer
	isOld := func(v ssa.Value) bool {
		call, ok := unwrap(v).(*ssa.Call)
		return ok && atomicPtrOp(call, "Load") && len(call.Call.Args) > 0 && isMutexField(call.Call.Args[0], "policy")
	}
	// old.TLS loads
	isOldTLS := func(v ssa.Value) bool {
		u, ok := unwrap(v).(*ssa.UnOp)
		if !ok {
			return false
		}
		base, f, isLoad := fieldLoad(u)
		return isLoad && f != nil && f.Name() == "TLS" && isOld(base)
	}
	keepsCell, keepsConfig := false, false
	var cellAt, cfgAt ssa.Instruction
	for _, b := range upo.Blocks {
		for _, in := range b.Instrs {
			st, ok := in.(*ssa.Store)
			if !ok {
				continue
			}
			_, f, isFA := fieldAddrOf(st.Addr)
			if !isFA || f == nil {
				continue
			}
			switch f.Name() {
			case "currentCert":
				if u, ok := unwrap(st.Val).(*ssa.UnOp); ok {
					if base, lf, isLoad := fieldLoad(u); isLoad && lf != nil && lf.Name() == "currentCert" && isOldTLS(base) {
						keepsCell, cellAt = true, in
					}
				}
			case "TLS":
				if isOldTLS(st.Val) {
					keepsConfig, cfgAt = true, in
				}
				// the stored value is chosen by a helper's result: one of the merged values is the previous one
				if phi, isPhi := unwrap(st.Val).(*ssa.Phi); isPhi {
					for _, e := range phi.Edges {
						if isOldTLS(e) {
							keepsConfig, cfgAt = true, in
						}
					}
				}
			}
		}
	}
	pos := func(in ssa.Instruction) string {
		if in == nil {
			return p.pos(upo.Pos())
		}
		return p.instrPos(in)
	}
	why := "a policy update that carries TLS settings stores a TLSConfig whose certificate cell is not the one the running listener reads: ReloadCertificates on GetExportOptions().TLS then succeeds but new handshakes keep presenting the old certificate"
	if keepsCell {
		// the take-over may depend only on the presence of the things it copies (new TLS settings, the previous
		// TLSConfig, its cell) and on whatever the publication of the policy itself depends on
		var publish ssa.Instruction
		for _, call := range calls(upo) {
			if cc, ok := call.(*ssa.Call); ok && atomicPtrOp(cc, "Store") && len(cc.Call.Args) > 0 && isMutexField(cc.Call.Args[0], "policy") {
				publish = call
			}
		}
		common := map[*ssa.If]bool{}
		if publish != nil {
			for _, e := range controlEdges(publish.Block()) {
				common[e] = true
			}
		}
		for _, ifi := range controlEdges(cellAt.Block()) {
			if common[ifi] {
				continue
			}
			okCond := false
			cond, _ := stripNot(ifi.Cond)
			if bo, isB := cond.(*ssa.BinOp); isB {
				for _, pair := range [][2]ssa.Value{{bo.X, bo.Y}, {bo.Y, bo.X}} {
					if !isNilConst(pair[1]) {
						continue
					}
					v := unwrap(pair[0])
					if isOldTLS(v) {
						okCond = true
					}
					if u, isU := v.(*ssa.UnOp); isU {
						if base, lf, isLoad := fieldLoad(u); isLoad && lf != nil {
							if lf.Name() == "TLS" || (lf.Name() == "currentCert" && isOldTLS(base)) {
								okCond = true
							}
						}
					}
				}
			}
			if !okCond {
				keepsCell = false
				why = "the take-over of the previous certificate cell at " + p.instrPos(cellAt) + " also depends on the test at " + p.instrPos(ifi) + " (" + ifi.Cond.String() + "): when it fails the stored TLSConfig reads a cell the running listener never looks at, and ReloadCertificates on GetExportOptions().TLS no longer reaches new handshakes"
			}
		}
	}
	c.verdictIf(keepsCell, P, "rotate-update", "fn=UpdatePolicyOptions new-TLS takes-over-cell", pos(cellAt), "a TLSConfig supplied by the update takes over the previous certificate cell", why)
	c.verdictIf(keepsConfig, P, "rotate-update", "fn=UpdatePolicyOptions no-TLS keeps-previous", pos(cfgAt), "an update without TLS settings keeps the previous TLSConfig",
		"a policy update without TLS settings stores a nil TLSConfig while the TLS listener keeps running: GetExportOptions().TLS is nil and the documented rotation step cannot be performed")
}
