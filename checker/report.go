package main

import (
	"crypto/sha1"
	"encoding/json"
	"fmt"
	"os"
	"path/filepath"
	"sort"
	"strings"
	"time"
)

const (
	Discharged = "discharged"
	Violated   = "violated"
	Undecided  = "undecided"
)

// Obligation is one rule instance: (property, rule, construct key) and its verdict.
type Obligation struct {
	Prop    string `json:"property"`
	Rule    string `json:"rule"`
	Key     string `json:"key"`
	Verdict string `json:"verdict"`
	Pos     string `json:"pos,omitempty"`
	Msg     string `json:"msg,omitempty"`
	Known   bool   `json:"known_finding,omitempty"`
}

type ruleInfo struct {
	Prop, Rule, Text string
	Floor            int // minimum number of instances confirmed by hand
	Found            int
}

// Ctx collects obligations while rules run.
type Ctx struct {
	P          *Prog
	Obs        []*Obligation
	Rules      map[string]*ruleInfo // key prop/rule
	order      []string
	Only       map[string]bool // when set, only these rule names are evaluated (used when one property borrows another's rules)
	suppressed map[string]bool
}

func (c *Ctx) rule(prop, rule, text string, floor int) *ruleInfo {
	k := prop + "/" + rule
	if c.Only != nil && !c.Only[rule] {
		if c.suppressed == nil {
			c.suppressed = map[string]bool{}
		}
		c.suppressed[k] = true
		return &ruleInfo{}
	}
	if r, ok := c.Rules[k]; ok {
		return r
	}
	r := &ruleInfo{Prop: prop, Rule: rule, Text: text, Floor: floor}
	if c.Rules == nil {
		c.Rules = map[string]*ruleInfo{}
	}
	c.Rules[k] = r
	c.order = append(c.order, k)
	return r
}

func (c *Ctx) add(prop, rule, key, verdict, pos, msg string) {
	if c.suppressed[prop+"/"+rule] || (c.Only != nil && !c.Only[rule]) {
		return
	}
	if r, ok := c.Rules[prop+"/"+rule]; ok {
		r.Found++
	} else {
		panic("obligation for undeclared rule " + prop + "/" + rule)
	}
	c.Obs = append(c.Obs, &Obligation{Prop: prop, Rule: rule, Key: key, Verdict: verdict, Pos: pos, Msg: msg})
}

func (c *Ctx) ok(prop, rule, key, pos, msg string)  { c.add(prop, rule, key, Discharged, pos, msg) }
func (c *Ctx) bad(prop, rule, key, pos, msg string) { c.add(prop, rule, key, Violated, pos, msg) }
func (c *Ctx) undecided(prop, rule, key, pos, msg string) {
	c.add(prop, rule, key, Undecided, pos, msg)
}

// verdictIf is a convenience: discharged when cond, else violated.
func (c *Ctx) verdictIf(cond bool, prop, rule, key, pos, okMsg, badMsg string) {
	if cond {
		c.ok(prop, rule, key, pos, okMsg)
	} else {
		c.bad(prop, rule, key, pos, badMsg)
	}
}

// finishFloors turns unmet instance floors into violations (a rule that sees
// fewer instances than were confirmed by hand has lost sight of the code).
func (c *Ctx) finishFloors() {
	for _, k := range c.order {
		r := c.Rules[k]
		// The floor guards against vacuity (the rule has lost sight of the code), not against a tidier code
		// base: de-duplicating refactors legitimately shrink the number of sites a rule enumerates.  Half the
		// confirmed count (at least one instance) must still be seen.
		need := r.Floor
		if need > 3 {
			need = need / 2
		} else if need > 1 {
			need = 1
		}
		if r.Found < need {
			c.Obs = append(c.Obs, &Obligation{Prop: r.Prop, Rule: r.Rule, Key: "floor", Verdict: Undecided,
				Msg: fmt.Sprintf("rule matched %d instance(s), fewer than the %d confirmed by hand on the pinned tree: the rule no longer sees the code it is about (anchor renamed/removed or idiom changed)", r.Found, r.Floor)})
		}
	}
}

// ---------------------------------------------------------------------------
// known findings

type KnownFinding struct {
	Property string `json:"property"`
	Rule     string `json:"rule"`
	Key      string `json:"key"`
	Summary  string `json:"summary"`
	Triage   string `json:"triage,omitempty"`
	Status   string `json:"status"` // "open" or "fixed"
	Fixed    string `json:"fixed,omitempty"`
}

type KnownFile struct {
	Findings []KnownFinding `json:"findings"`
	Fixed    []string       `json:"fixed"`
}

func loadKnown(path string) (*KnownFile, error) {
	kf := &KnownFile{}
	if path == "" {
		return kf, nil
	}
	b, err := os.ReadFile(path)
	if err != nil {
		if os.IsNotExist(err) {
			return kf, nil
		}
		return nil, err
	}
	if err := json.Unmarshal(b, kf); err != nil {
		return nil, fmt.Errorf("%s: %v", path, err)
	}
	return kf, nil
}

func (kf *KnownFile) match(o *Obligation) *KnownFinding {
	for i := range kf.Findings {
		f := &kf.Findings[i]
		if f.Status == "fixed" {
			continue
		}
		if f.Property == o.Prop && f.Rule == o.Rule && f.Key == o.Key {
			return f
		}
	}
	return nil
}

// ---------------------------------------------------------------------------
// evidence

type propMeta struct {
	ID      string
	Explain string   // what is decided / not decided
	Assume  []string // assumptions
}

func writeEvidence(dir string, meta propMeta, tier string, seed int64, c *Ctx, configs []string, wall float64, extra map[string]interface{}) (violations int, lines []string, err error) {
	var obs []*Obligation
	for _, o := range c.Obs {
		if o.Prop == meta.ID {
			obs = append(obs, o)
		}
	}
	sort.SliceStable(obs, func(i, j int) bool {
		if obs[i].Rule != obs[j].Rule {
			return obs[i].Rule < obs[j].Rule
		}
		return obs[i].Key < obs[j].Key
	})
	discharged, known := 0, 0
	distinct := map[string]bool{}
	var samples []interface{}
	var viol []*Obligation
	for _, o := range obs {
		distinct[o.Rule+"|"+o.Key] = true
		switch {
		case o.Verdict == Discharged:
			discharged++
		case o.Known:
			known++
		default:
			viol = append(viol, o)
		}
	}
	// samples: up to 3 per rule, all non-discharged
	perRule := map[string]int{}
	for _, o := range obs {
		if o.Verdict != Discharged || perRule[o.Rule] < 3 {
			if len(samples) < 80 {
				samples = append(samples, o)
			}
			perRule[o.Rule]++
		}
	}
	var rules []map[string]interface{}
	var ruleTexts []string
	for _, k := range c.order {
		r := c.Rules[k]
		if r.Prop != meta.ID {
			continue
		}
		rules = append(rules, map[string]interface{}{"rule": r.Rule, "text": r.Text, "instances_found": r.Found, "instance_floor": r.Floor})
		ruleTexts = append(ruleTexts, r.Rule+": "+r.Text)
	}
	cov := map[string]interface{}{
		"explanation":         meta.Explain,
		"obligations":         len(obs),
		"discharged":          discharged,
		"known_findings":      known,
		"evaluations":         len(obs),
		"distinct_nontrivial": len(distinct),
		"rule":                "one obligation per (rule, construct key); keys are resolved names + callee ordinals, never line numbers; every obligation inspects at least one CFG path, value flow, lock set or table row of the current /repo source. Rules: " + strings.Join(ruleTexts, " || "),
		"samples":             samples,
		"rules":               rules,
		"exhaustive":          true,
		"checker_cmd":         "bin/absnfs-lint -repo /repo -prop " + meta.ID + " -tier " + tier,
		"trusted_base":        []string{"go/types", "go/ssa + VTA call graph (x/tools v0.29.0)", "binding tables in checker/rules_*.go", "RFC oracle tables in checker/oracles.go"},
		"analysed": map[string]interface{}{
			"repo":             c.P.RepoDir,
			"build_configs":    configs,
			"packages":         len(c.P.Pkgs),
			"source_functions": len(c.P.SrcFuncs),
			"ssa_instructions": c.P.NInstr,
			"callgraph_nodes":  len(c.P.CG.Nodes),
			"helper_inlining":  c.P.Inline.String(),
		},
	}
	for k, v := range extra {
		cov[k] = v
	}
	ev := map[string]interface{}{
		"property_id": meta.ID,
		"tier":        tier,
		"seed":        seed,
		"level":       "other",
		"coverage":    cov,
		"assumptions": meta.Assume,
		"wall_s":      wall,
		"violations":  len(viol),
	}
	if err := os.MkdirAll(dir, 0o755); err != nil {
		return 0, nil, err
	}
	b, _ := json.MarshalIndent(ev, "", " ")
	if err := os.WriteFile(filepath.Join(dir, meta.ID+".json"), b, 0o644); err != nil {
		return 0, nil, err
	}
	// replay files for violations
	vdir := filepath.Join(dir, "violations")
	for _, o := range viol {
		os.MkdirAll(vdir, 0o755)
		h := sha1.Sum([]byte(o.Prop + "|" + o.Rule + "|" + o.Key))
		path := filepath.Join(vdir, fmt.Sprintf("%s-%x.json", o.Prop, h[:6]))
		rb, _ := json.MarshalIndent(map[string]interface{}{
			"property": o.Prop, "rule": o.Rule, "key": o.Key, "verdict": o.Verdict, "pos": o.Pos, "msg": o.Msg,
			"rule_text": c.Rules[o.Prop+"/"+o.Rule].Text, "generated": time.Now().UTC().Format(time.RFC3339),
		}, "", " ")
		os.WriteFile(path, rb, 0o644)
		lines = append(lines, fmt.Sprintf("  %s %s/%s [%s] %s: %s", o.Verdict, o.Prop, o.Rule, o.Key, o.Pos, o.Msg))
		lines = append(lines, fmt.Sprintf("VIOLATION property=%s replay=%s", o.Prop, path))
	}
	return len(viol), lines, nil
}
