package main

import (
	"go/token"

	"golang.org/x/tools/go/ssa"
)

// retVal returns the i-th result of a return, looking through the spill cell
// go/ssa introduces for functions with defer (store t0; rundefers; load t0).
func retVal(r *ssa.Return, i int) ssa.Value {
	if i >= len(r.Results) {
		return nil
	}
	v := r.Results[i]
	u, ok := v.(*ssa.UnOp)
	if !ok || u.Op != token.MUL {
		return v
	}
	a, ok := u.X.(*ssa.Alloc)
	if !ok {
		return v
	}
	b := r.Block()
	var last ssa.Value
	for _, in := range b.Instrs {
		if in == ssa.Instruction(u) {
			break
		}
		if st, ok := in.(*ssa.Store); ok && st.Addr == ssa.Value(a) {
			last = st.Val
		}
	}
	if last != nil {
		return last
	}
	return v
}
