package main

// rules_c05b.go: two obligations on FileHandleMap.Allocate that the dedup rule
// did not state.
//  C05/hit-rebinds (also reported under C02): when the path already has a
//    handle, the table entry is re-bound to the node just looked up.  The node
//    behind a handle caches the object's type; handles survive REMOVE, so after
//    CREATE x, REMOVE x, MKDIR x the handle MKDIR returns must name the
//    directory, not the old file.
//  C05/dedup-atomic: the path lookup whose miss leads to the insertion runs
//    under the WRITE lock and dominates the insertion.  A lookup under the
//    read lock followed by an insertion under a later write lock lets two
//    first-time requests for one path obtain two different handles.

import (
	"golang.org/x/tools/go/ssa"
)

func runC05Atomic(c *Ctx, P string) {
	p := c.P
	wantRebind := P == "C05" || P == "C02" || P == "C04"
	wantAtomic := P == "C05" || P == "C29"
	if wantRebind {
		c.rule(P, "hit-rebinds", "Allocate: on a path hit the handle's table entry is re-bound to the new node", 1)
	}
	if wantAtomic {
		c.rule(P, "dedup-atomic", "Allocate: the path lookup guarding the insertion holds the write lock, precedes the insertion and the lock is not dropped in between", 1)
	}
	alloc := p.Fn("(*FileHandleMap).Allocate")
	if alloc == nil || len(alloc.Params) < 2 {
		if wantRebind {
			c.undecided(P, "hit-rebinds", "fn=Allocate", "", "not found")
		}
		if wantAtomic {
			c.undecided(P, "dedup-atomic", "fn=Allocate lookup-insert", "", "not found")
		}
		return
	}
	li := p.lockInfo()
	fromParamOf := func(g *ssa.Function) func(ssa.Value) bool {
		return func(v ssa.Value) bool {
			for d := 0; d < 6 && v != nil; d++ {
				if prm, ok := v.(*ssa.Parameter); ok && prm.Parent() == g {
					return true
				}
				switch x := v.(type) {
				case *ssa.MakeInterface:
					v = x.X
				case *ssa.ChangeInterface:
					v = x.X
				case *ssa.TypeAssert:
					v = x.X
				case *ssa.Extract:
					v = x.Tuple
				default:
					return false
				}
			}
			return false
		}
	}
	isField := func(v ssa.Value, name string) bool {
		_, f, ok := fieldLoad(v)
		return ok && f != nil && f.Name() == name
	}
	type lk struct {
		fn    *ssa.Function
		in    *ssa.Lookup
		found ssa.Value
		id    ssa.Value
		site  ssa.CallInstruction // call site in Allocate when fn is a helper
	}
	collect := func(g *ssa.Function, site ssa.CallInstruction) []lk {
		var out []lk
		for _, b := range g.Blocks {
			for _, in := range b.Instrs {
				l, ok := in.(*ssa.Lookup)
				if !ok || !l.CommaOk || !isField(l.X, "pathHandles") {
					continue
				}
				e := lk{fn: g, in: l, site: site}
				if l.Referrers() != nil {
					for _, r := range *l.Referrers() {
						if ex, ok := r.(*ssa.Extract); ok {
							if ex.Index == 1 {
								e.found = ex
							} else {
								e.id = ex
							}
						}
					}
				}
				out = append(out, e)
			}
		}
		return out
	}
	lookups := collect(alloc, nil)
	for _, call := range calls(alloc) {
		if _, isDefer := call.(*ssa.Defer); isDefer {
			continue
		}
		if g := staticCallee(call); g != nil && g.Pkg == p.Pkg && g != alloc && len(g.Blocks) > 0 {
			lookups = append(lookups, collect(g, call)...)
		}
	}
	var insertPath *ssa.MapUpdate
	for _, b := range alloc.Blocks {
		for _, in := range b.Instrs {
			if mu, ok := in.(*ssa.MapUpdate); ok && isField(mu.Map, "pathHandles") {
				insertPath = mu
			}
		}
	}
	if wantRebind {
		if len(lookups) == 0 {
			c.undecided(P, "hit-rebinds", "fn=Allocate path-hit", p.pos(alloc.Pos()), "no lookup of pathHandles in Allocate or its helpers")
		} else {
			rebinds := false
			for _, l := range lookups {
				l := l
				if l.id == nil || l.found == nil || l.found.Referrers() == nil {
					continue
				}
				fromParam := fromParamOf(l.fn)
				for _, r := range *l.found.Referrers() {
					ifi, ok := r.(*ssa.If)
					if !ok {
						continue
					}
					res := follow(followSpec{Fn: l.fn, Start: []*ssa.BasicBlock{ifi.Block().Succs[0]}, Closes: func(in ssa.Instruction) bool {
						mu, ok := in.(*ssa.MapUpdate)
						return ok && isField(mu.Map, "handles") && mu.Key == l.id && fromParam(mu.Value)
					}})
					if res.OK {
						rebinds = true
					}
				}
			}
			c.verdictIf(rebinds, P, "hit-rebinds", "fn=Allocate path-hit", p.instrPos(lookups[0].in), "handles[existing] = new node on the hit edge",
				"when the path already has a handle Allocate returns it without re-binding the table entry to the node just looked up: after a name is removed and re-created as an object of another type, the handle keeps behaving as the old object (LOOKUP/READDIR answer NOTDIR, READLINK INVAL)")
		}
	}
	if !wantAtomic {
		return
	}
	holdsW := func(in ssa.Instruction) bool {
		for id, m := range li.stateAt(in) {
			if id.Class == "FileHandleMap.RWMutex" && m == 'W' {
				return true
			}
		}
		return false
	}
	good := false
	why := "no insertion into pathHandles found in Allocate"
	if insertPath != nil {
		why = "the lookup of pathHandles that decides whether a new handle is issued does not share one write-locked section with the insertion (it runs under the read lock, under a lock of its own that is released before the insertion, or after it): two concurrent first requests for one path both miss and are given two different handles; the earlier one stays in the table as an orphan"
		for _, l := range lookups {
			var anchor ssa.Instruction = l.in
			if l.fn != alloc {
				anchor = l.site // the helper runs where it is called; it must not take the lock itself
				if !holdsW(l.site) {
					continue
				}
			} else if !holdsW(l.in) {
				continue
			}
			before := anchor.Block() == insertPath.Block() && instrIndex(anchor) < instrIndex(insertPath) || anchor.Block() != insertPath.Block() && reachAvoiding([]*ssa.BasicBlock{anchor.Block()}, nil, nil)[insertPath.Block()]
			if before && holdsW(insertPath) && !unlockBetween(alloc, anchor, insertPath) {
				good = true
			}
		}
	}
	pos := p.pos(alloc.Pos())
	if insertPath != nil {
		pos = p.instrPos(insertPath)
	}
	c.verdictIf(good, P, "dedup-atomic", "fn=Allocate lookup-insert", pos, "lookup and insertion in one write-locked section", why)
}

// unlockBetween: some path from a to b passes an Unlock/RUnlock call.
func unlockBetween(fn *ssa.Function, a, b ssa.Instruction) bool {
	isUnlock := func(in ssa.Instruction) bool {
		ci, ok := in.(ssa.CallInstruction)
		if !ok {
			return false
		}
		if _, isDefer := in.(*ssa.Defer); isDefer {
			return false
		}
		f := staticCallee(ci)
		if f == nil {
			return false
		}
		q := qualFn(f)
		return q == "(*sync.RWMutex).Unlock" || q == "(*sync.RWMutex).RUnlock" || q == "(*sync.Mutex).Unlock"
	}
	// blocks reachable from a that can reach b
	fromA := reachAvoiding([]*ssa.BasicBlock{a.Block()}, nil, nil)
	for blk := range fromA {
		if blk != b.Block() && !reachAvoiding([]*ssa.BasicBlock{blk}, nil, nil)[b.Block()] {
			continue
		}
		for i, in := range blk.Instrs {
			if !isUnlock(in) {
				continue
			}
			if blk == a.Block() && i <= instrIndex(a) && blk != b.Block() {
				continue
			}
			if blk == a.Block() && blk == b.Block() && (i <= instrIndex(a) || i >= instrIndex(b)) {
				continue
			}
			if blk == b.Block() && blk != a.Block() && i >= instrIndex(b) {
				continue
			}
			return true
		}
	}
	return false
}
