package main

// rules_c05b.go: two obligations on FileHandleMap.Allocate that the dedup rule
// did not state.
//  C05/hit-rebinds (also reported under C02): when the path already has a
//    handle, the table entry is re-bound to the node just looked up.  The node
//    behind a handle caches the object's type; handles survive REMOVE, so after
//    CREATE x, REMOVE x, MKDIR x the handle MKDIR returns must name the
//    directory, not the old file.
//  C05/dedup-atomic: the path lookup whose miss leads to the insertion runs
//    under the WRITE lock and dominates the insertion.  A lookup under the
//    read lock followed by an insertion under a later write lock lets two
//    first-time requests for one path obtain two different handles.

import (
	"golang.org/x/tools/go/ssa"
)

func runC05Atomic(c *Ctx, P string) {
	p := c.P
	c.rule(P, "hit-rebinds", "Allocate: on a path hit the handle's table entry is re-bound to the new node", 1)
	alloc := p.Fn("(*FileHandleMap).Allocate")
	if alloc == nil || len(alloc.Params) < 2 {
		c.undecided(P, "hit-rebinds", "fn=Allocate", "", "not found")
		return
	}
	li := p.lockInfo()
	fParam := alloc.Params[1]
	fromParam := func(v ssa.Value) bool {
		for d := 0; d < 6 && v != nil; d++ {
			if v == ssa.Value(fParam) {
				return true
			}
			switch x := v.(type) {
			case *ssa.MakeInterface:
				v = x.X
			case *ssa.ChangeInterface:
				v = x.X
			case *ssa.TypeAssert:
				v = x.X
			case *ssa.Extract:
				v = x.Tuple
			default:
				return false
			}
		}
		return false
	}
	isField := func(v ssa.Value, name string) bool {
		_, f, ok := fieldLoad(v)
		return ok && f != nil && f.Name() == name
	}
	// path lookups (commaOk) and their found-values
	type lk struct {
		in    *ssa.Lookup
		found ssa.Value // the ok flag
		id    ssa.Value
	}
	var lookups []lk
	for _, b := range alloc.Blocks {
		for _, in := range b.Instrs {
			l, ok := in.(*ssa.Lookup)
			if !ok || !l.CommaOk || !isField(l.X, "pathHandles") {
				continue
			}
			e := lk{in: l}
			if l.Referrers() != nil {
				for _, r := range *l.Referrers() {
					if ex, ok := r.(*ssa.Extract); ok {
						if ex.Index == 1 {
							e.found = ex
						} else {
							e.id = ex
						}
					}
				}
			}
			lookups = append(lookups, e)
		}
	}
	if len(lookups) == 0 {
		c.undecided(P, "hit-rebinds", "fn=Allocate", p.pos(alloc.Pos()), "no path lookup found in Allocate")
		return
	}
	// hit-rebinds
	rebinds := false
	var insertPath *ssa.MapUpdate
	for _, b := range alloc.Blocks {
		for _, in := range b.Instrs {
			mu, ok := in.(*ssa.MapUpdate)
			if !ok {
				continue
			}
			if isField(mu.Map, "pathHandles") {
				insertPath = mu
			}
			if !isField(mu.Map, "handles") || !fromParam(mu.Value) {
				continue
			}
		}
	}
	// on every path from the hit edge to the return the entry is re-bound
	for _, l := range lookups {
		if l.id == nil || l.found == nil || l.found.Referrers() == nil {
			continue
		}
		for _, r := range *l.found.Referrers() {
			ifi, ok := r.(*ssa.If)
			if !ok {
				continue
			}
			hit := ifi.Block().Succs[0]
			res := follow(followSpec{Fn: alloc, Start: []*ssa.BasicBlock{hit}, Closes: func(in ssa.Instruction) bool {
				mu, ok := in.(*ssa.MapUpdate)
				return ok && isField(mu.Map, "handles") && mu.Key == l.id && fromParam(mu.Value)
			}})
			if res.OK {
				rebinds = true
			}
		}
	}
	c.verdictIf(rebinds, P, "hit-rebinds", "fn=Allocate path-hit", p.instrPos(lookups[0].in), "handles[existing] = new node on the hit edge",
		"when the path already has a handle Allocate returns it without re-binding the table entry to the node just looked up: after a name is removed and re-created as an object of another type, the handle keeps behaving as the old object (LOOKUP/READDIR answer NOTDIR, READLINK INVAL)")
	if P != "C05" {
		return
	}
	c.rule(P, "dedup-atomic", "Allocate: the path lookup guarding the insertion holds the write lock and dominates the insertion", 1)
	good := false
	why := "no insertion into pathHandles found"
	if insertPath != nil {
		why = "the only lookups of pathHandles before the insertion run without the write lock (or do not dominate the insertion): two concurrent first requests for one path both miss and are given two different handles; the earlier one stays in the table as an orphan"
		for _, l := range lookups {
			w := false
			for id, m := range li.stateAt(l.in) {
				if id.Class == "FileHandleMap.RWMutex" && m == 'W' {
					w = true
				}
			}
			// (the lookup and the insertion sit under two separate `f is an NFSNode with a path` tests, so
			// dominance is too strong: the lookup must precede the insertion on some path)
			dom := l.in.Block() == insertPath.Block() && instrIndex(l.in) < instrIndex(insertPath) || l.in.Block() != insertPath.Block() && reachAvoiding([]*ssa.BasicBlock{l.in.Block()}, nil, nil)[insertPath.Block()]
			wIns := false
			for id, m := range li.stateAt(insertPath) {
				if id.Class == "FileHandleMap.RWMutex" && m == 'W' {
					wIns = true
				}
			}
			// the lock must not be dropped in between: no Unlock/RUnlock call on a path from the lookup to the insertion
			if w && dom && wIns && !unlockBetween(alloc, l.in, insertPath) {
				good = true
			}
		}
	}
	pos := p.pos(alloc.Pos())
	if insertPath != nil {
		pos = p.instrPos(insertPath)
	}
	c.verdictIf(good, P, "dedup-atomic", "fn=Allocate lookup-insert", pos, "lookup and insertion in one write-locked section", why)
}

// unlockBetween: some path from a to b passes an Unlock/RUnlock call.
func unlockBetween(fn *ssa.Function, a, b ssa.Instruction) bool {
	isUnlock := func(in ssa.Instruction) bool {
		ci, ok := in.(ssa.CallInstruction)
		if !ok {
			return false
		}
		if _, isDefer := in.(*ssa.Defer); isDefer {
			return false
		}
		f := staticCallee(ci)
		if f == nil {
			return false
		}
		q := qualFn(f)
		return q == "(*sync.RWMutex).Unlock" || q == "(*sync.RWMutex).RUnlock" || q == "(*sync.Mutex).Unlock"
	}
	// blocks reachable from a that can reach b
	fromA := reachAvoiding([]*ssa.BasicBlock{a.Block()}, nil, nil)
	for blk := range fromA {
		if blk != b.Block() && !reachAvoiding([]*ssa.BasicBlock{blk}, nil, nil)[b.Block()] {
			continue
		}
		for i, in := range blk.Instrs {
			if !isUnlock(in) {
				continue
			}
			if blk == a.Block() && i <= instrIndex(a) && blk != b.Block() {
				continue
			}
			if blk == a.Block() && blk == b.Block() && (i <= instrIndex(a) || i >= instrIndex(b)) {
				continue
			}
			if blk == b.Block() && blk != a.Block() && i >= instrIndex(b) {
				continue
			}
			return true
		}
	}
	return false
}
