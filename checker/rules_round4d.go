package main

// rules_round4d.go: C23/count-raw (seed C23-c).

import (
	"fmt"
	"go/token"
	"strings"

	"golang.org/x/tools/go/ssa"
)

// nonIncreasingFrom: v is computed from a base value (base(x) == true) only by operations that cannot make it
// larger than the base: conversion, selection, division / remainder / shift right / subtraction / masking by a
// constant.  Anything else (addition, rounding up, scaling) returns false with the offending value.
func nonIncreasingFrom(v ssa.Value, base func(ssa.Value) bool, d int) (bool, ssa.Value) {
	if d > 12 {
		return false, v
	}
	if base(v) {
		return true, nil
	}
	switch x := v.(type) {
	case *ssa.Const:
		return true, nil
	case *ssa.Convert:
		return nonIncreasingFrom(x.X, base, d+1)
	case *ssa.ChangeType:
		return nonIncreasingFrom(x.X, base, d+1)
	case *ssa.Phi:
		for _, e := range x.Edges {
			if e == ssa.Value(x) {
				continue
			}
			if ok, at := nonIncreasingFrom(e, base, d+1); !ok {
				return false, at
			}
		}
		return true, nil
	case *ssa.BinOp:
		switch x.Op {
		case token.QUO, token.REM, token.SHR, token.SUB, token.AND, token.AND_NOT:
			if _, isC := x.Y.(*ssa.Const); isC {
				return nonIncreasingFrom(x.X, base, d+1)
			}
		}
		return false, v
	}
	return false, v
}

// runC23CountRaw: every test in handleWrite that refuses a request because of its count compares the count
// itself (or something that cannot exceed it) with the bound.  If the tested quantity can exceed the count
// (a padded or rounded-up length), counts up to the advertised maximum are refused.
func runC23CountRaw(c *Ctx, hw *ssa.Function) {
	const P = "C23"
	p := c.P
	c.rule(P, "count-raw", "WRITE: a refusing comparison on the request's count tests the count itself or a value that cannot exceed it (no padded / rounded-up length)", 1)
	fl := newFlow(p)
	// the count cell: the decoded word that sizes the data buffer
	var countCell ssa.Value
	for _, b := range hw.Blocks {
		for _, in := range b.Instrs {
			ms, ok := in.(*ssa.MakeSlice)
			if !ok {
				continue
			}
			for _, o := range fl.Origins(ms.Len) {
				if o.Kind == "outparam" && strings.Contains(o.Desc, "binary.Read") && o.Base != nil {
					countCell = o.Base
				}
			}
		}
	}
	if countCell == nil {
		c.undecided(P, "count-raw", "fn=handleWrite count", p.pos(hw.Pos()), "the decoded count (the word sizing the data buffer) was not identified")
		return
	}
	isCountLoad := func(v ssa.Value) bool {
		u, ok := v.(*ssa.UnOp)
		return ok && u.Op == token.MUL && u.X == countCell
	}
	onlyCount := func(v ssa.Value) bool {
		n := 0
		for _, o := range fl.Origins(v) {
			switch {
			case o.Kind == "const" || o.Kind == "zero":
			case o.Kind == "outparam" && o.Base == countCell:
				n++
			default:
				return false
			}
		}
		return n > 0
	}
	n := 0
	for _, b := range hw.Blocks {
		ifi := blockIf(b)
		if ifi == nil {
			continue
		}
		bo, ok := ifi.Cond.(*ssa.BinOp)
		if !ok {
			continue
		}
		var cnt ssa.Value
		var refuse *ssa.BasicBlock
		switch bo.Op {
		case token.GTR, token.GEQ: // cnt > bound : true edge refuses
			if onlyCount(bo.X) && !onlyCount(bo.Y) {
				cnt, refuse = bo.X, b.Succs[0]
			} else if onlyCount(bo.Y) && !onlyCount(bo.X) { // bound >= cnt : false edge refuses
				cnt, refuse = bo.Y, b.Succs[1]
			}
		case token.LSS, token.LEQ:
			if onlyCount(bo.Y) && !onlyCount(bo.X) { // bound < cnt : true edge refuses
				cnt, refuse = bo.Y, b.Succs[0]
			} else if onlyCount(bo.X) && !onlyCount(bo.Y) { // cnt <= bound : false edge refuses
				cnt, refuse = bo.X, b.Succs[1]
			}
		}
		if cnt == nil || !rejectEdgeFrom(p, b, refuse, false) {
			continue
		}
		n++
		key := fmt.Sprintf("fn=handleWrite refusal#%d", n)
		if ok, at := nonIncreasingFrom(cnt, isCountLoad, 0); ok {
			c.ok(P, "count-raw", key, p.instrPos(ifi), "the count itself is tested")
		} else {
			pos := p.instrPos(ifi)
			if in, isIn := at.(ssa.Instruction); isIn {
				pos = p.instrPos(in)
			}
			c.bad(P, "count-raw", key, pos, fmt.Sprintf("WRITE refuses on a quantity computed from the count by an operation that can enlarge it (padding, rounding up, adding; test at %s): counts the bound admits — up to the maximum FSINFO advertises — are refused as invalid", p.instrPos(ifi)))
		}
	}
	if n == 0 {
		c.ok(P, "count-raw", "fn=handleWrite no-refusal", p.pos(hw.Pos()), "WRITE refuses no count")
	}
}
