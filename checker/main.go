package main

// absnfs-lint: repository-specific static decision procedures for the
// properties in /verif/properties.jsonl.  See /verif/DESIGN.md.

import (
	"encoding/json"
	"flag"
	"fmt"
	"os"
	"path/filepath"
	"runtime/debug"
	"sort"
	"strconv"
	"strings"
	"time"
)

type property struct {
	Meta propMeta
	Run  func(c *Ctx)
}

var registry = map[string]*property{}

func register(id, explain string, assume []string, run func(c *Ctx)) {
	registry[id] = &property{Meta: propMeta{ID: id, Explain: explain, Assume: assume}, Run: run}
}

var commonAssume = []string{
	"go/types, go/ssa and the VTA call graph of golang.org/x/tools v0.29.0 model the program faithfully (no reflection/unsafe/cgo in package absnfs; checked by rule META/no-unsafe)",
	"backend implementations honour the absfs interface contracts; the analysis stops at absfs interface calls",
	"the binding tables (which repository identifiers fill which rule slots) and the RFC oracle tables in the checker are correct",
}

func main() {
	repo := flag.String("repo", "/repo", "repository root")
	prop := flag.String("prop", "", "property id (C01..C30) or 'all'")
	tier := flag.String("tier", "quick", "quick|thorough")
	out := flag.String("out", "/verif/evidence", "evidence directory")
	known := flag.String("known", "/verif/known_findings.json", "known findings file")
	only := flag.String("only", "", "replay file: re-evaluate only that obligation")
	list := flag.Bool("list", false, "print every obligation")
	controls := flag.String("controls", "/verif/seeded", "directory of kept seeded changes used as positive controls (thorough tier, -selftest)")
	doSelftest := flag.Bool("selftest", false, "apply every kept seeded change to a scratch copy and require the checker to fire; exit 2 if one stays silent")
	describe := flag.Bool("describe", false, "print the registered properties (id, what is decided, assumptions) as JSON and exit")
	flag.BoolVar(&noInline, "no-inline", false, "do not inline functions outside the baseline list before the rules run (debugging aid)")
	flag.StringVar(&dumpInlinedDir, "dump-inlined", "", "write the helper-inlined sources of package absnfs to this directory (debugging aid)")
	genBase := flag.String("gen-baseline", "", "write the baseline table (functions with signatures, struct fields) of -repo to this Go file and exit")
	flag.Parse()
	if *genBase != "" {
		if err := genBaseline(*repo, *genBase); err != nil {
			fmt.Println("gen-baseline:", err)
			os.Exit(2)
		}
		return
	}
	if *describe {
		out := map[string]interface{}{}
		for id, pr := range registry {
			out[id] = map[string]interface{}{"explain": pr.Meta.Explain, "assume": pr.Meta.Assume}
		}
		b, _ := json.MarshalIndent(out, "", " ")
		fmt.Println(string(b))
		return
	}

	if *doSelftest {
		var only []string
		if *prop != "" && *prop != "all" {
			only = strings.Split(*prop, ",")
		}
		os.Exit(selftest(*repo, *controls, *known, only))
	}

	exit := 0
	defer func() {
		if r := recover(); r != nil {
			fmt.Printf("checker panic: %v\n%s\n", r, debug.Stack())
			if *prop != "" && *prop != "all" {
				fmt.Printf("VIOLATION property=%s replay=%s\n", *prop, "checker-panic")
			}
			os.Exit(1)
		}
		os.Exit(exit)
	}()

	seed := int64(0)
	if s := os.Getenv("VERIF_SEED"); s != "" {
		seed, _ = strconv.ParseInt(s, 10, 64)
	}
	tierSet := false
	flag.Visit(func(f *flag.Flag) {
		if f.Name == "tier" {
			tierSet = true
		}
	})
	if t := os.Getenv("VERIF_TIER"); !tierSet && (t == "quick" || t == "thorough") {
		*tier = t // only when the command line does not name the tier
	}
	start := time.Now()

	var ids []string
	if *prop == "all" || *prop == "" {
		for id := range registry {
			ids = append(ids, id)
		}
	} else {
		for _, id := range strings.Split(*prop, ",") {
			if registry[id] == nil {
				fmt.Printf("unknown property %s\n", id)
				exit = 2
				return
			}
			ids = append(ids, id)
		}
	}
	sort.Strings(ids)

	kf, err := loadKnown(*known)
	if err != nil {
		fmt.Printf("cannot read known findings: %v\n", err)
		exit = 2
		return
	}

	type cfgT struct{ goos, goarch string }
	configs := []cfgT{{"", ""}}
	if *tier == "thorough" {
		configs = []cfgT{{"linux", "amd64"}, {"linux", "386"}, {"darwin", "arm64"}, {"windows", "amd64"}}
	}

	// One Ctx per build configuration; obligations are merged by (prop, rule, key):
	// the worst verdict wins and the configuration is named in the message.
	merged := map[string]*Obligation{}
	var mergedOrder []string
	var first *Ctx
	var cfgNames []string
	for _, cf := range configs {
		name := "default"
		if cf.goos != "" {
			name = cf.goos + "/" + cf.goarch
		}
		cfgNames = append(cfgNames, name)
		p, err := loadProg(*repo, cf.goos, cf.goarch, false)
		if err != nil {
			fmt.Printf("LOAD FAILURE (%s): %v\n", name, err)
			for _, id := range ids {
				fmt.Printf("VIOLATION property=%s replay=%s\n", id, "load-failure")
			}
			exit = 1
			return
		}
		setOSFlags(p)
		c := &Ctx{P: p}
		for _, id := range ids {
			registry[id].Run(c)
		}
		c.finishFloors()
		if first == nil {
			first = c
		} else {
			// merge rule instance counts conservatively (min)
			for k, r := range c.Rules {
				if fr, ok := first.Rules[k]; ok {
					if r.Found < fr.Found {
						fr.Found = r.Found
					}
				} else {
					first.Rules[k] = r
					first.order = append(first.order, k)
				}
			}
		}
		rank := map[string]int{Discharged: 0, Undecided: 1, Violated: 2}
		for _, o := range c.Obs {
			k := o.Prop + "|" + o.Rule + "|" + o.Key
			if len(configs) > 1 && o.Verdict != Discharged {
				o.Msg = "[" + name + "] " + o.Msg
			}
			if prev, ok := merged[k]; ok {
				if rank[o.Verdict] > rank[prev.Verdict] {
					*prev = *o
				}
			} else {
				cp := *o
				merged[k] = &cp
				mergedOrder = append(mergedOrder, k)
			}
		}
	}
	first.Obs = nil
	for _, k := range mergedOrder {
		first.Obs = append(first.Obs, merged[k])
	}

	// known findings
	for _, o := range first.Obs {
		if o.Verdict == Discharged {
			continue
		}
		if f := kf.match(o); f != nil {
			o.Known = true
		}
	}
	if *only != "" {
		filterOnly(first, *only)
	}

	wall := time.Since(start).Seconds()
	for _, id := range ids {
		extra := map[string]interface{}{}
		if *tier == "thorough" && *only == "" {
			if cr := runControls(*repo, *controls, *known, []string{id}); cr != nil {
				extra["positive_controls"] = cr
				extra["positive_controls_rule"] = "each kept seeded change of this property (/verif/seeded/*, a realistic breaking patch confirmed by a failing demonstration) is applied to a scratch copy of the current tree and the same static rules are run on the copy; 'fired' lists the obligations violated on the copy and not on the tree itself. Informational: it shows the rules are not vacuous; it never changes this check's verdict."
			}
			// the source files in which this property has obligations
			relevant := map[string]bool{}
			for _, o := range first.Obs {
				if o.Prop != id || o.Pos == "" {
					continue
				}
				if i := strings.Index(o.Pos, ":"); i > 0 {
					relevant[filepath.Base(o.Pos[:i])] = true
				}
			}
			totalNeg, _ := filepath.Glob(filepath.Join(filepath.Dir(*controls), "benign", "*.diff"))
			if nr := runNegControls(*repo, filepath.Join(filepath.Dir(*controls), "benign"), *known, id, relevant); nr != nil {
				noisy := 0
				for _, r := range nr {
					if !r.Silent {
						noisy++
					}
				}
				extra["negative_controls"] = nr
				extra["negative_controls_rule"] = fmt.Sprintf("each behaviour-preserving refactoring in /verif/benign (written by independent agents; compiles, full suite passes) is applied to a scratch copy and this property's rules are run on the copy; a rule that fires there is an alarm on code where the property holds. Analysed for this property: the %d of %d refactorings that touch a source file in which the property has obligations (the others leave every function its rules read unchanged); %d of them silent. Informational; never changes this check's verdict.", len(nr), len(totalNeg), len(nr)-noisy)
			}
		}
		nviol, lines, err := writeEvidence(*out, registry[id].Meta, *tier, seed, first, cfgNames, wall, extra)
		if err != nil {
			fmt.Printf("cannot write evidence for %s: %v\n", id, err)
			exit = 2
			return
		}
		nob, ndis, nknown := 0, 0, 0
		for _, o := range first.Obs {
			if o.Prop != id {
				continue
			}
			nob++
			if o.Verdict == Discharged {
				ndis++
			} else if o.Known {
				nknown++
				f := kf.match(o)
				fmt.Printf("KNOWN-FINDING: property=%s %s [%s] %s: %s\n", id, o.Rule, o.Key, o.Pos, f.Summary)
			}
			if *list {
				fmt.Printf("  %-10s %s/%s [%s] %s %s\n", o.Verdict, o.Prop, o.Rule, o.Key, o.Pos, o.Msg)
			}
		}
		for _, l := range lines {
			fmt.Println(l)
		}
		fmt.Printf("%s: %d obligations, %d discharged, %d known findings, %d violations (%s, %.1fs, configs=%v)\n", id, nob, ndis, nknown, nviol, *tier, wall, cfgNames)
		if nviol > 0 {
			exit = 1
		}
	}
}

func filterOnly(c *Ctx, replay string) {
	b, err := os.ReadFile(replay)
	if err != nil {
		return
	}
	s := string(b)
	var keep []*Obligation
	for _, o := range c.Obs {
		if strings.Contains(s, `"key": "`+strings.ReplaceAll(o.Key, `"`, `\"`)+`"`) && strings.Contains(s, `"rule": "`+o.Rule+`"`) {
			keep = append(keep, o)
		}
	}
	c.Obs = keep
}
