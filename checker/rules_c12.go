package main

import (
	"fmt"
	"go/token"
	"sort"
	"strings"

	"golang.org/x/tools/go/ssa"
)

func init() {
	register("C12",
		"Decided for the whole finite decision space, by reading the decision table off the SSA of the ACCESS handler: (class) the permission-class value is selected, in this priority order, as (mode>>6)&7 when euid == owner, (mode>>3)&7 when egid == group, (mode>>3)&7 when some auxiliary gid of the request's credential equals the group, mode&7 otherwise, and 7 when euid == 0 — shift amounts, masks, comparison operands and precedence are compared with the oracle; (bits) every `granted |= K` has exactly the oracle's conditions: READ{req&1, class&4}, LOOKUP{req&2, dir, class&1}, EXECUTE{req&0x20, class&1}, MODIFY{req&4, class&2, not read-only}, EXTEND{req&8, class&2, not read-only}, DELETE{req&0x10, dir, class&2, not read-only}; since every row contains req&K, granted ⊆ requested; (encode) the word encoded after the attributes in ACCESS3resok is that accumulator and `dir` is ModeDir of the attributes being returned. Any grant or class alternative the extractor cannot place in a row fails the check. Not decided: nothing of the decision function; the run-time attributes fed to it are C04's concern.",
		commonAssume, runC12)
}

type c12render struct {
	p  *Prog
	fn *ssa.Function
}

func (r *c12render) val(v ssa.Value) string {
	v = unwrap(v)
	switch x := v.(type) {
	case *ssa.Const:
		if x.Value == nil {
			return "nil"
		}
		if k, ok := constInt(x); ok {
			return fmt.Sprint(k)
		}
		return x.Value.ExactString()
	case *ssa.Parameter:
		if strings.HasSuffix(x.Type().String(), "AuthContext") {
			return "ctx"
		}
		return x.Name()
	case *ssa.BinOp:
		return "(" + r.val(x.X) + x.Op.String() + r.val(x.Y) + ")"
	case *ssa.UnOp:
		if x.Op == token.MUL {
			if fa, ok := x.X.(*ssa.FieldAddr); ok {
				f := fieldOf(fa.X.Type(), fa.Field)
				owner := recvTypeName(fa.X.Type())
				switch owner + "." + f.Name() {
				case "NFSAttrs.Mode":
					return "mode"
				case "NFSAttrs.Uid":
					return "owner"
				case "NFSAttrs.Gid":
					return "group"
				case "AuthContext.EffectiveUID":
					return "euid"
				case "AuthContext.EffectiveGID":
					return "egid"
				case "PolicyOptions.ReadOnly":
					return "readonly"
				case "AuthContext.AuthSys":
					return "cred"
				case "AuthSysCredential.AuxGIDs":
					return "auxgids"
				}
				return r.val(fa.X) + "." + f.Name()
			}
			if ia, ok := x.X.(*ssa.IndexAddr); ok {
				return r.val(ia.X) + "[i]"
			}
			if al, ok := x.X.(*ssa.Alloc); ok {
				// local filled by a decoder
				wire := false
				forEachUseOfCell(al, func(in ssa.Instruction, how string, c ssa.CallInstruction, argIdx int) {
					if how == "arg" && isCallTo(c, "encoding/binary.Read") {
						wire = true
					}
				})
				if wire {
					return "req"
				}
				if sv := singleStore(al); sv != nil {
					return r.val(sv)
				}
			}
		}
		if x.Op == token.NOT {
			return "!" + r.val(x.X)
		}
	case *ssa.Phi:
		return "phi:" + x.Name()
	case *ssa.Call:
		if b, ok := x.Call.Value.(*ssa.Builtin); ok && b.Name() == "len" {
			return "len(" + r.val(x.Call.Args[0]) + ")"
		}
		// slices.Contains(cred.AuxGIDs, attrs.Gid): the library's membership test
		if strings.HasPrefix(shortCallee(x), "slices.Contains") && len(x.Call.Args) == 2 {
			a0, a1 := r.val(x.Call.Args[0]), r.val(x.Call.Args[1])
			if strings.HasSuffix(a0, "auxgids") && a1 == "group" {
				return "memberof"
			}
			return "contains(" + a0 + "," + a1 + ")"
		}
	}
	return "?" + v.Name()
}

func (r *c12render) cond(f condFact) string {
	op, l, rr, ok := normCmp(f)
	if !ok {
		s := r.val(f.V)
		if !f.Val {
			return "!" + s
		}
		return s
	}
	ls, rs := r.val(l), r.val(rr)
	if (op == "==" || op == "!=") && isLiteral(ls) && !isLiteral(rs) {
		ls, rs = rs, ls
	}
	return ls + op + rs
}

// flattenPhi lists the alternatives of a (nested) phi with their conditions.
type alt struct {
	Val   string
	Conds []string
	V     ssa.Value
}

func (r *c12render) flatten(v ssa.Value, conds []string, seen map[*ssa.Phi]bool, keep func(string) bool) []alt {
	phi, ok := v.(*ssa.Phi)
	if !ok {
		return []alt{{Val: r.val(v), Conds: conds, V: v}}
	}
	if seen[phi] {
		return nil
	}
	seen[phi] = true
	var out []alt
	for i, e := range phi.Edges {
		pred := phi.Block().Preds[i]
		// every fact contributes one or more alternative condition sets (a boolean that merges several tests,
		// `t := a == b; if !t { t = member }`, is split into the tests it merges); the edge's sets are the product
		sets := [][]string{append([]string{}, conds...)}
		for _, f := range append(append([]condFact{}, r.p.facts(pred)...), edgeFacts(pred, phi.Block())...) {
			alts := r.factAlts(f, keep, 0)
			var next [][]string
			for _, base := range sets {
				for _, a := range alts {
					cs := append(append([]string{}, base...), a...)
					if !contradictory(cs) {
						next = append(next, cs)
					}
				}
			}
			sets = next
		}
		// "not a member" can be established on several edges (no credential at all, or the library's
		// membership test failed): a disjunction no single fact carries.  It holds here if every path to this
		// edge crosses one of those edges.
		if notMember := guardedBy(r.fn, pred, func(f condFact) bool {
			s := r.cond(f)
			return s == "!memberof" || strings.HasSuffix(s, "cred==nil")
		}); notMember {
			for i, cs := range sets {
				has := false
				for _, s := range cs {
					if strings.HasSuffix(s, "memberof") {
						has = true
					}
				}
				if !has && keep("!memberof") {
					sets[i] = append(cs, "!memberof")
				}
			}
		}
		for _, cs := range sets {
			out = append(out, r.flatten(e, cs, seen, keep)...)
		}
	}
	delete(seen, phi)
	return out
}

// factAlts: the alternative sets of (kept) condition strings under which fact f holds.  A boolean phi with an
// edge value that is not a constant is split per incoming edge; a phi of constants stays atomic ("phi:tN": the
// membership flag set in a loop).
func (r *c12render) factAlts(f condFact, keep func(string) bool, depth int) [][]string {
	one := func() [][]string {
		s := r.cond(f)
		if keep(s) {
			return [][]string{{s}}
		}
		return [][]string{{}}
	}
	phi, ok := f.V.(*ssa.Phi)
	if !ok || depth > 3 {
		return one()
	}
	allConst := true
	for _, e := range phi.Edges {
		if _, isC := e.(*ssa.Const); !isC {
			allConst = false
		}
	}
	if allConst {
		return one()
	}
	var out [][]string
	for i, e := range phi.Edges {
		pred := phi.Block().Preds[i]
		var edgeConds []string
		for _, g := range append(append([]condFact{}, r.p.facts(pred)...), edgeFacts(pred, phi.Block())...) {
			if _, isPhi := g.V.(*ssa.Phi); isPhi {
				continue // nested merged flags on the way to this edge are not expanded further
			}
			if s := r.cond(g); keep(s) {
				edgeConds = append(edgeConds, s)
			}
		}
		if k, isC := e.(*ssa.Const); isC {
			if k.Value != nil && (k.Value.String() == "true") == f.Val {
				out = append(out, edgeConds)
			}
			continue
		}
		for _, a := range r.factAlts(condFact{V: e, Val: f.Val}, keep, depth+1) {
			cs := append(append([]string{}, edgeConds...), a...)
			if !contradictory(cs) {
				out = append(out, cs)
			}
		}
	}
	if len(out) == 0 {
		return one()
	}
	return out
}

// contradictory: the set contains a test and its negation ("a==b" with "a!=b", "x" with "!x").
func contradictory(cs []string) bool {
	m := map[string]bool{}
	for _, c := range cs {
		m[c] = true
	}
	for _, c := range cs {
		if strings.HasPrefix(c, "!") && m[c[1:]] {
			return true
		}
		if i := strings.Index(c, "=="); i > 0 && m[c[:i]+"!="+c[i+2:]] {
			return true
		}
	}
	return false
}

func normConds(cs []string) []string {
	m := map[string]bool{}
	var out []string
	for _, c := range cs {
		if !m[c] {
			m[c] = true
			out = append(out, c)
		}
	}
	sort.Strings(out)
	return out
}

func runC12(c *Ctx) {
	p := c.P
	const P = "C12"
	c.rule(P, "bits", "each `granted |= K` has exactly the oracle conditions (ORACLES.md A5)", 6)
	c.rule(P, "class", "permission class alternatives, masks, shifts and priority equal the oracle", 5)
	c.rule(P, "member", "auxiliary-group membership is true only when an element of the request credential's AuxGIDs equals the object's group", 1)
	c.rule(P, "encode", "ACCESS3resok access word is the accumulator; dir = ModeDir of the returned attributes", 2)

	// "LOOKUP and DELETE only on directories" is decided on the type the attributes report; the request path must
	// not be able to make the backend record another type for the object (borrowed from C04)
	runC04ChmodType(c, P)
	runShortIsError(c, P)

	ent, err := p.entrySet()
	if err != nil {
		c.undecided(P, "bits", "entries", "", err.Error())
		return
	}
	h := ent.Handlers[4]
	if h == nil {
		c.undecided(P, "bits", "proc=ACCESS", "", "no handler")
		return
	}
	r := &c12render{p: p, fn: h}
	// --- grants
	type grant struct {
		k     int64
		in    *ssa.BinOp
		conds []condFact
	}
	var grants []grant
	for _, b := range h.Blocks {
		for _, in := range b.Instrs {
			bo, ok := in.(*ssa.BinOp)
			if !ok || bo.Op != token.OR {
				continue
			}
			k, isC := constInt(bo.Y)
			if !isC {
				continue
			}
			grants = append(grants, grant{k, bo, p.facts(b)})
		}
	}
	// find class value V: operand of (V & n) != 0 facts that is not `req`
	var classV ssa.Value
	var dirV string
	names := map[int64]string{1: "READ", 2: "LOOKUP", 4: "MODIFY", 8: "EXTEND", 16: "DELETE", 32: "EXECUTE"}
	oracle := map[int64][]string{
		1:  {"(class&4)!=0", "(req&1)!=0"},
		2:  {"(class&1)!=0", "(req&2)!=0", "dir"},
		32: {"(class&1)!=0", "(req&32)!=0"},
		4:  {"!readonly", "(class&2)!=0", "(req&4)!=0"},
		8:  {"!readonly", "(class&2)!=0", "(req&8)!=0"},
		16: {"!readonly", "(class&2)!=0", "(req&16)!=0", "dir"},
	}
	// conditions that hold for the whole success reply (decode/lookup/getattr succeeded) are not grant conditions
	prologue := map[condFact]bool{}
	for _, rs := range okShapes(p, h) {
		if rs.At != nil {
			for _, f := range p.facts(rs.At.Block()) {
				prologue[f] = true
			}
		}
	}
	seenK := map[int64]int{}
	for _, g := range grants {
		seenK[g.k]++
		var cs []string
		for _, f := range g.conds {
			if prologue[f] {
				continue
			}
			s := r.cond(f)
			// identify class operand
			if bo, ok := factBinOp(f); ok {
				if and, ok := unwrap(bo.X).(*ssa.BinOp); ok && and.Op == token.AND {
					if r.val(and.X) != "req" {
						if _, isC := constInt(and.Y); isC {
							if rv := r.val(and.X); rv != "mode" && !strings.Contains(rv, "mode") {
								classV = and.X
							}
						}
					}
				}
			}
			cs = append(cs, s)
		}
		// rewrite class and dir
		var out []string
		for _, s := range cs {
			if classV != nil {
				s = strings.ReplaceAll(s, r.val(classV), "class")
			}
			if s == "(mode&2147483648)!=0" {
				s = "dir"
				dirV = "mode"
			}
			out = append(out, s)
		}
		out = normConds(out)
		key := fmt.Sprintf("grant=%s#%d", names[g.k], seenK[g.k])
		exp, known := oracle[g.k]
		if !known {
			c.bad(P, "bits", fmt.Sprintf("grant=%#x#%d", g.k, seenK[g.k]), p.instrPos(g.in), fmt.Sprintf("ORs an unknown ACCESS bit %#x into the result", g.k))
			continue
		}
		sort.Strings(exp)
		if strings.Join(out, ", ") == strings.Join(exp, ", ") {
			c.ok(P, "bits", key, p.instrPos(g.in), "{"+strings.Join(out, ", ")+"}")
		} else {
			c.bad(P, "bits", key, p.instrPos(g.in), fmt.Sprintf("%s is granted under {%s}; the UNIX rule requires exactly {%s}", names[g.k], strings.Join(out, ", "), strings.Join(exp, ", ")))
		}
	}
	for _, k := range []int64{1, 2, 4, 8, 16, 32} {
		if seenK[k] == 0 {
			c.bad(P, "bits", "grant="+names[k]+"#0", p.pos(h.Pos()), names[k]+" is never granted (or is granted through a construct the table extractor cannot read)")
		}
	}
	if classV == nil {
		c.undecided(P, "class", "value", p.pos(h.Pos()), "no permission-class value identified in the grant conditions")
		return
	}
	// --- class alternatives
	keep := func(s string) bool {
		return strings.Contains(s, "euid") || strings.Contains(s, "egid") || strings.HasPrefix(s, "phi:") || strings.HasPrefix(s, "!phi:") || strings.HasSuffix(s, "memberof")
	}
	alts := r.flatten(classV, nil, map[*ssa.Phi]bool{}, keep)
	// membership phi: the phi used as boolean condition
	var memberPhi string
	memberByLibrary := false
	for _, a := range alts {
		for _, s := range a.Conds {
			if strings.HasPrefix(s, "phi:") {
				memberPhi = s
			}
			if strings.HasSuffix(s, "memberof") {
				memberByLibrary = true
			}
		}
	}
	if memberPhi == "" && memberByLibrary {
		memberPhi = "memberof"
	}
	var got []string
	gotPos := map[string]bool{}
	for _, a := range alts {
		var cs []string
		for _, s := range a.Conds {
			if memberPhi != "" {
				s = strings.ReplaceAll(s, memberPhi, "member")
			}
			cs = append(cs, s)
		}
		row := a.Val + " if {" + strings.Join(normConds(cs), ", ") + "}"
		if !gotPos[row] {
			gotPos[row] = true
			got = append(got, row)
		}
	}
	sort.Strings(got)
	expect := []string{
		"((mode>>6)&7) if {euid!=0, euid==owner}",
		"((mode>>3)&7) if {egid==group, euid!=0, euid!=owner}",
		"((mode>>3)&7) if {egid!=group, euid!=0, euid!=owner, member}",
		"(mode&7) if {!member, egid!=group, euid!=0, euid!=owner}",
		"7 if {euid==0}",
	}
	em := map[string]bool{}
	for _, e := range expect {
		em[e] = true
		c.verdictIf(gotPos[e], P, "class", "alt="+e, p.pos(h.Pos()), "present", "the permission class lacks the alternative: "+e+"; found alternatives: "+strings.Join(got, " | "))
	}
	for _, g := range got {
		if !em[g] {
			c.bad(P, "class", "extra="+g, p.pos(h.Pos()), "the permission class has an alternative the UNIX rule does not allow: "+g)
		}
	}
	// --- member
	if memberPhi == "memberof" {
		c.ok(P, "member", "value", p.pos(h.Pos()), "membership is slices.Contains(credential's AuxGIDs, object's group)")
	} else if memberPhi == "" {
		c.bad(P, "member", "value", p.pos(h.Pos()), "no auxiliary-group membership value feeds the class selection")
	} else {
		var mphi *ssa.Phi
		for _, b := range h.Blocks {
			for _, in := range b.Instrs {
				if ph, ok := in.(*ssa.Phi); ok && "phi:"+ph.Name() == memberPhi {
					mphi = ph
				}
			}
		}
		good, why := true, ""
		var malts []alt
		if mphi != nil {
			malts = r.flatten(mphi, nil, map[*ssa.Phi]bool{}, func(s string) bool { return strings.Contains(s, "[i]") || strings.Contains(s, "cred") })
		}
		nTrue := 0
		for _, a := range malts {
			if a.Val == "true" {
				nTrue++
				okc := false
				for _, s := range a.Conds {
					if s == "ctx.cred.auxgids[i]==group" || s == "cred.auxgids[i]==group" || s == "auxgids[i]==group" {
						okc = true
					}
				}
				if !okc {
					good, why = false, "membership becomes true under {"+strings.Join(a.Conds, ", ")+"}, not under auxgid==group"
				}
			} else if a.Val != "false" {
				good, why = false, "membership takes a non-boolean-constant value "+a.Val
			}
		}
		if nTrue == 0 {
			good, why = false, "membership is never true"
		}
		if mphi == nil {
			// the class selection tests a merged value that is not a boolean flag of this function (a membership
			// list built elsewhere and compared element by element, say): it cannot be traced to auxgid==group
			good, why = false, "the class selection depends on "+memberPhi+", which is not a membership flag set under auxgid==group: group class can be granted on a comparison with something other than the effective gid or an auxiliary gid"
		}
		c.verdictIf(good, P, "member", "value", p.pos(h.Pos()), "true only when an auxiliary gid equals the object's group", why)
	}
	// --- encode
	oks := okShapes(p, h)
	if len(oks) == 0 {
		c.undecided(P, "encode", "slot=ACCESS.access", p.pos(h.Pos()), "no ACCESS3resok-shaped reply")
		return
	}
	for _, rs := range oks {
		if len(rs.Toks) != 4 {
			c.bad(P, "encode", "shape", p.instrPos(rs.At), "ACCESS3resok is not status, post_op_attr, access")
			continue
		}
		acc := rs.Toks[3].Val
		// leaves of the accumulator: const 0 and the recognised OR nodes only
		okAcc := true
		seen := map[ssa.Value]bool{}
		var walk func(v ssa.Value)
		walk = func(v ssa.Value) {
			if seen[v] {
				return
			}
			seen[v] = true
			switch x := v.(type) {
			case *ssa.Phi:
				for _, e := range x.Edges {
					walk(e)
				}
			case *ssa.BinOp:
				if x.Op != token.OR {
					okAcc = false
					return
				}
				found := false
				for _, g := range grants {
					if g.in == x {
						found = true
					}
				}
				if !found {
					okAcc = false
				}
				walk(x.X)
			case *ssa.Const:
				if k, ok := constInt(x); !ok || k != 0 {
					okAcc = false
				}
			default:
				okAcc = false
			}
		}
		walk(acc)
		c.verdictIf(okAcc, P, "encode", "slot=ACCESS.access", p.instrPos(rs.Toks[3].Instr), "the encoded word is the grant accumulator", "the word encoded as ACCESS3resok.access is not (only) the accumulator of the checked grants")
		// dir derives from the attrs encoded
		fattr := rs.Toks[2].Val
		okDir := dirV != ""
		if okDir {
			// the `mode` rendering came from a load of NFSAttrs.Mode: make sure its base is the encoded attrs
			okDir = false
			for _, b := range h.Blocks {
				for _, in := range b.Instrs {
					if u, ok := in.(*ssa.UnOp); ok {
						if base, f, isLoad := fieldLoad(u); isLoad && f != nil && f.Name() == "Mode" && base == fattr {
							okDir = true
						}
					}
				}
			}
		}
		c.verdictIf(okDir, P, "encode", "value=dir", p.pos(h.Pos()), "dir is ModeDir of the attributes returned in the reply", "the directory test does not use the attributes that are returned")
		break
	}
}

func factBinOp(f condFact) (*ssa.BinOp, bool) {
	bo, ok := f.V.(*ssa.BinOp)
	return bo, ok
}
