package main

// rules_round5b.go: C21/neg-scan (seeds C21-c, C21-d: the same defect written independently by two agents).

import (
	"fmt"
	"go/token"
	"go/types"

	"golang.org/x/tools/go/ssa"
)

// runC21NegScan: InvalidateNegativeInDir examines every entry of the map unless negative caching is switched
// off.  If it can return without the scan on the strength of summary state (a counter of negative entries),
// that state must be exact; the part of exactness decided here: every insertion of an entry that may be
// negative is accompanied, on every path through it, by an increment of the counter — or the path has
// established that the key already held a negative entry.  (A negative entry that replaces a positive one and
// is not counted makes the scan skip it: the entry survives the invalidation of its directory.)
func runC21NegScan(c *Ctx) {
	const P = "C21"
	p := c.P
	c.rule(P, "neg-scan", "InvalidateNegativeInDir scans the map on every path on which negative caching is enabled, or skips the scan only on a count that every insertion of a negative entry increments", 1)
	ind := p.Fn("(*AttrCache).InvalidateNegativeInDir")
	cacheFld := p.field("AttrCache", "cache")
	enFld := p.field("AttrCache", "enableNegative")
	if ind == nil || cacheFld == nil {
		c.undecided(P, "neg-scan", "fn=InvalidateNegativeInDir", "", "function or AttrCache.cache not found")
		return
	}
	// the scan: blocks in a cycle whose header ranges over the cache map
	scan := map[*ssa.BasicBlock]bool{}
	for _, b := range ind.Blocks {
		for _, in := range b.Instrs {
			if r, ok := in.(*ssa.Range); ok {
				if _, f, ok := fieldLoad(r.X); ok && f == cacheFld {
					scan[b] = true
				}
			}
		}
	}
	if len(scan) == 0 {
		c.bad(P, "neg-scan", "fn=InvalidateNegativeInDir scan", p.pos(ind.Pos()), "InvalidateNegativeInDir does not range over the cache map at all")
		return
	}
	// edges on which negative caching is known to be off
	cut := map[edge]bool{}
	for _, b := range ind.Blocks {
		for _, s := range b.Succs {
			for _, f := range edgeFacts(b, s) {
				if _, fl, ok := fieldLoad(f.V); ok && enFld != nil && fl == enFld && !f.Val {
					cut[edge{b, s}] = true
				}
			}
		}
	}
	reach := reachAvoiding([]*ssa.BasicBlock{ind.Blocks[0]}, cut, scan)
	// early exits: returns reachable without the scan
	var early []*ssa.BasicBlock
	for b := range reach {
		for _, in := range b.Instrs {
			if _, ok := in.(*ssa.Return); ok {
				early = append(early, b)
			}
		}
	}
	if len(early) == 0 {
		c.ok(P, "neg-scan", "fn=InvalidateNegativeInDir scan", p.pos(ind.Pos()), "every enabled path scans the map")
		return
	}
	// summary fields the early exits depend on
	fl := newFlow(p)
	summaries := map[*types.Var]bool{}
	for _, b := range ind.Blocks {
		ifi := blockIf(b)
		if ifi == nil || !reach[b] {
			continue
		}
		for _, o := range fl.Origins(ifi.Cond) {
			if o.Kind == "field" && o.Fld != nil && o.Fld != enFld && cacheOwnerOfField(p, o.Fld) == "AttrCache" {
				summaries[o.Fld] = true
			}
		}
	}
	if len(summaries) == 0 {
		c.bad(P, "neg-scan", "fn=InvalidateNegativeInDir scan", p.pos(early[0].Instrs[0].Pos()), "InvalidateNegativeInDir can return without scanning the map although negative caching is enabled")
		return
	}
	negFld := p.field("CachedAttrs", "isNegative")
	for sf := range summaries {
		nIns := 0
		for _, fn := range p.SrcFuncs {
			if recv := fn.Signature.Recv(); recv == nil || recvTypeName(recv.Type()) != "AttrCache" {
				continue
			}
			for _, b := range fn.Blocks {
				for _, in := range b.Instrs {
					mu, ok := in.(*ssa.MapUpdate)
					if !ok {
						continue
					}
					if _, f, ok := fieldLoad(mu.Map); !ok || f != cacheFld {
						continue
					}
					if !mayBeNegative(mu.Value, negFld) {
						continue
					}
					nIns++
					key := fmt.Sprintf("count=AttrCache.%s insert=%s#%d", sf.Name(), fnKey(fn), nIns)
					// blocks that increment the summary; edges on which the old entry is known to be negative
					inc := map[*ssa.BasicBlock]bool{}
					for _, b2 := range fn.Blocks {
						for _, in2 := range b2.Instrs {
							if st, ok := in2.(*ssa.Store); ok {
								if _, f, ok := fieldAddrOf(st.Addr); ok && f == sf {
									if bo, ok := st.Val.(*ssa.BinOp); ok && bo.Op == token.ADD {
										inc[b2] = true
									}
								}
							}
						}
					}
					wasNeg := map[edge]bool{}
					for _, b2 := range fn.Blocks {
						for _, s := range b2.Succs {
							for _, f := range edgeFacts(b2, s) {
								if _, fld, ok := fieldLoad(f.V); ok && negFld != nil && fld == negFld && f.Val {
									wasNeg[edge{b2, s}] = true
								}
							}
						}
					}
					ok1 := true
					if !inc[b] {
						before := reachAvoiding([]*ssa.BasicBlock{fn.Blocks[0]}, wasNeg, inc)
						if before[b] {
							// reached the insertion uncounted: is there an increment on every way out?
							after := reachAvoiding([]*ssa.BasicBlock{b}, wasNeg, inc)
							for x := range after {
								for _, in3 := range x.Instrs {
									if _, isRet := in3.(*ssa.Return); isRet {
										ok1 = false
									}
								}
							}
						}
					}
					c.verdictIf(ok1, P, "neg-scan", key, p.instrPos(mu), "every path through the insertion counts the entry or has found the old entry negative",
						fmt.Sprintf("InvalidateNegativeInDir skips its scan on AttrCache.%s, but %s can store a negative entry without incrementing it on a path that has not established that the key already held a negative entry (e.g. the key held a positive entry): the uncounted negative entry is not removed when its directory is invalidated and keeps answering 'not found'", sf.Name(), fnKey(fn)))
				}
			}
		}
		if nIns == 0 {
			c.undecided(P, "neg-scan", "count=AttrCache."+sf.Name(), p.pos(ind.Pos()), "no insertion of a possibly negative entry found")
		}
	}
}

func cacheOwnerOfField(p *Prog, f *types.Var) string {
	for _, name := range []string{"AttrCache", "DirCache"} {
		if t := p.namedType(name); t != nil {
			if st, ok := t.Underlying().(*types.Struct); ok {
				for i := 0; i < st.NumFields(); i++ {
					if st.Field(i) == f {
						return name
					}
				}
			}
		}
	}
	return ""
}

// mayBeNegative: the stored entry is a record whose isNegative field is set to true, or not a record built here.
func mayBeNegative(v ssa.Value, negFld *types.Var) bool {
	al, ok := unwrap(v).(*ssa.Alloc)
	if !ok {
		return true
	}
	if negFld == nil {
		return true
	}
	for _, sv := range fieldStores(al, negFld) {
		if k, isC := sv.(*ssa.Const); isC && k.Value != nil && k.Value.String() == "false" {
			continue
		}
		return true
	}
	return false
}
