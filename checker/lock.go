package main

// lock.go: T-LOCK — must-hold lock sets on the SSA CFG, with entry states for
// helpers inherited from their call sites, protected-field access checks and a
// lock-order graph.

import (
	"fmt"
	"go/token"
	"go/types"
	"sort"
	"strings"

	"golang.org/x/tools/go/ssa"
)

// lockID identifies a mutex by the expression of its owner and the field path.
type lockID struct {
	Root  string // canonical expression of the owning object within the function ("p0" for param 0, "v:t12" ...)
	Field string // field name of the mutex in the owner ("mu", "RWMutex", "connMutex")
	Class string // OwnerType.Field, e.g. "AttrCache.mu"
}

type lockState map[lockID]byte // 'R' or 'W'

func (s lockState) clone() lockState {
	n := lockState{}
	for k, v := range s {
		n[k] = v
	}
	return n
}

func meet(a, b lockState) lockState {
	if a == nil {
		return b.clone()
	}
	n := lockState{}
	for k, v := range a {
		if w, ok := b[k]; ok {
			if v == 'R' || w == 'R' {
				n[k] = 'R'
			} else {
				n[k] = 'W'
			}
		}
	}
	return n
}

func (s lockState) equal(o lockState) bool {
	if len(s) != len(o) {
		return false
	}
	for k, v := range s {
		if o[k] != v {
			return false
		}
	}
	return true
}

func (s lockState) String() string {
	var parts []string
	for k, v := range s {
		parts = append(parts, fmt.Sprintf("%s(%s)%c", k.Class, k.Root, v))
	}
	sort.Strings(parts)
	return "{" + strings.Join(parts, ",") + "}"
}

// rootExpr gives a canonical name for an owner value inside a function:
// parameters by index, loads of a single-store cell by the stored value,
// field chains by path.
func rootExpr(v ssa.Value) string {
	switch x := v.(type) {
	case *ssa.Parameter:
		return fmt.Sprintf("p%d", paramIndex(x.Parent(), x))
	case *ssa.FreeVar:
		if b := freeVarBinding(x); b != nil {
			return "fv:" + x.Name()
		}
		return "fv:" + x.Name()
	case *ssa.UnOp:
		if x.Op == token.MUL {
			if fa, ok := x.X.(*ssa.FieldAddr); ok {
				f := fieldOf(fa.X.Type(), fa.Field)
				return rootExpr(fa.X) + "." + f.Name()
			}
			if sv := singleStore(x.X); sv != nil {
				return rootExpr(sv)
			}
			if fv, ok := x.X.(*ssa.FreeVar); ok {
				return "fv:" + fv.Name()
			}
		}
	case *ssa.FieldAddr:
		f := fieldOf(x.X.Type(), x.Field)
		return rootExpr(x.X) + ".&" + f.Name()
	case *ssa.Alloc:
		return "alloc:" + x.Name()
	}
	return "v:" + v.Name()
}

// mutexOf decodes the receiver of a sync.(RW)Mutex method call: &owner.field
func mutexOf(recv ssa.Value) (lockID, bool) {
	fa, ok := recv.(*ssa.FieldAddr)
	if !ok {
		return lockID{}, false
	}
	f := fieldOf(fa.X.Type(), fa.Field)
	if f == nil {
		return lockID{}, false
	}
	owner := recvTypeName(fa.X.Type())
	return lockID{Root: rootExpr(fa.X), Field: f.Name(), Class: owner + "." + f.Name()}, true
}

type lockOp struct {
	ID   lockID
	Kind string // Lock RLock Unlock RUnlock TryLock TryRLock
}

func asLockOp(in ssa.Instruction) (lockOp, bool) {
	c, ok := in.(ssa.CallInstruction)
	if !ok {
		return lockOp{}, false
	}
	f := staticCallee(c)
	if f == nil {
		return lockOp{}, false
	}
	q := qualFn(f)
	if !strings.HasPrefix(q, "(*sync.RWMutex).") && !strings.HasPrefix(q, "(*sync.Mutex).") {
		return lockOp{}, false
	}
	args := c.Common().Args
	if len(args) == 0 {
		return lockOp{}, false
	}
	id, ok := mutexOf(args[0])
	if !ok {
		return lockOp{}, false
	}
	return lockOp{ID: id, Kind: f.Name()}, true
}

// LockInfo holds per-function lock states.
type LockInfo struct {
	P     *Prog
	entry map[*ssa.Function]lockState
	in    map[*ssa.BasicBlock]lockState
	done  map[*ssa.Function]bool
}

func newLockInfo(p *Prog) *LockInfo {
	return &LockInfo{P: p, entry: map[*ssa.Function]lockState{}, in: map[*ssa.BasicBlock]lockState{}, done: map[*ssa.Function]bool{}}
}

// transfer applies instruction in to state s (in place).
func transfer(s lockState, in ssa.Instruction) {
	if _, isDefer := in.(*ssa.Defer); isDefer {
		return
	}
	if _, isGo := in.(*ssa.Go); isGo {
		return
	}
	op, ok := asLockOp(in)
	if !ok {
		return
	}
	switch op.Kind {
	case "Lock":
		s[op.ID] = 'W'
	case "RLock":
		if s[op.ID] != 'W' {
			s[op.ID] = 'R'
		}
	case "Unlock", "RUnlock":
		delete(s, op.ID)
	}
}

// analyze computes block-entry states for fn given its entry state.
func (li *LockInfo) analyze(fn *ssa.Function, entry lockState) {
	if len(fn.Blocks) == 0 {
		return
	}
	out := map[*ssa.BasicBlock]lockState{}
	li.in[fn.Blocks[0]] = entry.clone()
	changed := true
	for iter := 0; changed && iter < 50; iter++ {
		changed = false
		for _, b := range fn.Blocks {
			var st lockState
			if b == fn.Blocks[0] {
				st = entry.clone()
			} else {
				first := true
				for _, pr := range b.Preds {
					po, ok := out[pr]
					if !ok {
						continue
					}
					es := po.clone()
					// edge-sensitive Try*Lock
					if ifi := blockIf(pr); ifi != nil {
						v, neg := stripNot(ifi.Cond)
						if call, ok := v.(*ssa.Call); ok {
							if op, ok := asLockOp(call); ok && (op.Kind == "TryRLock" || op.Kind == "TryLock") {
								onTrue := pr.Succs[0] == b
								if neg {
									onTrue = !onTrue
								}
								if pr.Succs[0] == pr.Succs[1] {
									onTrue = false
								}
								if onTrue {
									if op.Kind == "TryLock" {
										es[op.ID] = 'W'
									} else {
										es[op.ID] = 'R'
									}
								}
							}
						}
					}
					if first {
						st = es
						first = false
					} else {
						st = meet(st, es)
					}
				}
				if first {
					continue // unreachable so far
				}
			}
			if prev, ok := li.in[b]; !ok || !prev.equal(st) {
				li.in[b] = st.clone()
				changed = true
			}
			cur := st.clone()
			for _, in := range b.Instrs {
				transfer(cur, in)
			}
			if prev, ok := out[b]; !ok || !prev.equal(cur) {
				out[b] = cur
				changed = true
			}
		}
	}
}

// stateAt returns the must-hold state just before instruction in.
func (li *LockInfo) stateAt(in ssa.Instruction) lockState {
	b := in.Block()
	st, ok := li.in[b]
	if !ok {
		return lockState{}
	}
	cur := st.clone()
	for _, x := range b.Instrs {
		if x == in {
			break
		}
		transfer(cur, x)
	}
	return cur
}

// run analyses every source function.  Entry states: exported functions and
// functions with no in-package caller start empty; unexported helpers start
// with the meet over their call sites (lock roots re-expressed through the
// call's arguments).  Closures inherit the state at their MakeClosure site
// only when invoked synchronously in the parent (not go/defer) — conservatively empty.
func (li *LockInfo) run() {
	p := li.P
	// iterate a few rounds so that helper entry states stabilise
	for round := 0; round < 4; round++ {
		for _, fn := range p.SrcFuncs {
			entry := lockState{}
			if round > 0 {
				entry = li.entryFromCallers(fn)
			}
			li.entry[fn] = entry
			li.analyze(fn, entry)
		}
	}
}

func isExportedFn(fn *ssa.Function) bool {
	if fn.Parent() != nil {
		return false
	}
	return fn.Object() != nil && fn.Object().Exported()
}

func (li *LockInfo) entryFromCallers(fn *ssa.Function) lockState {
	p := li.P
	if isExportedFn(fn) {
		return lockState{}
	}
	if fn.Parent() != nil {
		// a function literal invoked synchronously (plain call, not go/defer) from its parent
		// runs inside the parent's critical section
		sites := p.callers[fn]
		if len(sites) == 0 {
			return lockState{}
		}
		var acc lockState
		for _, cs := range sites {
			if _, isCall := cs.Instr.(*ssa.Call); !isCall || cs.Caller != fn.Parent() {
				return lockState{}
			}
			st := li.stateAt(cs.Instr)
			mapped := lockState{}
			for id, mode := range st {
				mapped[id] = mode // captured single-store cells resolve to the parent's roots
				for _, fv := range fn.FreeVars {
					if b := freeVarBinding(fv); b != nil && rootExpr(b) == id.Root {
						mapped[lockID{Root: "fv:" + fv.Name(), Field: id.Field, Class: id.Class}] = mode
					}
				}
			}
			if acc == nil {
				acc = mapped
			} else {
				acc = meet(acc, mapped)
			}
		}
		return acc
	}
	sites := p.callers[fn]
	if len(sites) == 0 {
		return lockState{}
	}
	var acc lockState
	for _, cs := range sites {
		if _, isGo := cs.Instr.(*ssa.Go); isGo {
			return lockState{}
		}
		if _, isDefer := cs.Instr.(*ssa.Defer); isDefer {
			return lockState{}
		}
		st := li.stateAt(cs.Instr)
		mapped := lockState{}
		args := cs.Instr.Common().Args
		if len(args) > 0 && fn.Signature.Recv() != nil && isFresh(args[0]) {
			continue // constructor: the receiver is not shared yet
		}
		for id, mode := range st {
			for i, a := range args {
				if i < len(fn.Params) && rootExpr(a) == id.Root {
					mapped[lockID{Root: fmt.Sprintf("p%d", i), Field: id.Field, Class: id.Class}] = mode
				}
			}
		}
		if acc == nil {
			acc = mapped
		} else {
			acc = meet(acc, mapped)
		}
	}
	if acc == nil {
		return lockState{}
	}
	return acc
}

// ---------------------------------------------------------------------------
// protected field accesses

type protSpec struct {
	Owner  string   // struct type name
	Fields []string // protected fields
	Lock   string   // mutex field name in the same struct
}

type access struct {
	Fn    *ssa.Function
	Instr ssa.Instruction
	Field string
	Write bool
	Base  ssa.Value
}

var listWriters = map[string]bool{"PushFront": true, "PushBack": true, "MoveToFront": true, "MoveToBack": true, "Remove": true, "Init": true, "InsertBefore": true, "InsertAfter": true}

// fieldAccesses enumerates reads/writes of owner.field across source functions.
func (p *Prog) fieldAccesses(owner string, fields map[string]bool) []access {
	var out []access
	for _, fn := range p.SrcFuncs {
		for _, b := range fn.Blocks {
			for _, in := range b.Instrs {
				fa, ok := in.(*ssa.FieldAddr)
				if !ok || recvTypeName(fa.X.Type()) != owner {
					continue
				}
				f := fieldOf(fa.X.Type(), fa.Field)
				if f == nil || !fields[f.Name()] {
					continue
				}
				if fa.Referrers() == nil {
					continue
				}
				for _, r := range *fa.Referrers() {
					switch x := r.(type) {
					case *ssa.Store:
						if x.Addr == ssa.Value(fa) {
							out = append(out, access{fn, x, f.Name(), true, fa.X})
						}
					case *ssa.UnOp:
						if x.Op != token.MUL {
							continue
						}
						// classify by the uses of the loaded value
						w := false
						if x.Referrers() != nil {
							for _, u := range *x.Referrers() {
								switch y := u.(type) {
								case *ssa.MapUpdate:
									if y.Map == ssa.Value(x) {
										w = true
									}
								case ssa.CallInstruction:
									if bi, ok := y.Common().Value.(*ssa.Builtin); ok && bi.Name() == "delete" && len(y.Common().Args) > 0 && y.Common().Args[0] == ssa.Value(x) {
										w = true
									}
									if callee := staticCallee(y); callee != nil && len(y.Common().Args) > 0 && y.Common().Args[0] == ssa.Value(x) {
										if strings.HasPrefix(qualFn(callee), "(*container/list.List).") && listWriters[callee.Name()] {
											w = true
										}
										if strings.HasSuffix(qualFn(callee), "uint64MinHeap).PushValue") || strings.HasSuffix(qualFn(callee), "uint64MinHeap).PopMin") {
											w = true
										}
									}
								}
							}
						}
						out = append(out, access{fn, x, f.Name(), w, fa.X})
					case ssa.CallInstruction:
						// address passed to a call (atomic ops etc.): treat as write
						out = append(out, access{fn, r, f.Name(), true, fa.X})
					}
				}
			}
		}
	}
	return out
}

// isFresh: the owner object was allocated in this function (constructor idiom)
// and the access happens before it can be shared.
func isFresh(v ssa.Value) bool { return isFreshD(v, 0) }

func isFreshD(v ssa.Value, d int) bool {
	if d > 4 {
		return false
	}
	switch x := v.(type) {
	case *ssa.Alloc:
		return true
	case *ssa.UnOp:
		if sv := singleStore(x.X); sv != nil {
			return isFreshD(sv, d+1)
		}
		// a component of an object that is itself still private to this function
		if fa, ok := x.X.(*ssa.FieldAddr); ok && isFreshD(fa.X, d+1) {
			return true
		}
	case *ssa.Extract:
		if call, ok := x.Tuple.(*ssa.Call); ok {
			return returnsFresh(call, x.Index, d)
		}
	case *ssa.Call:
		return returnsFresh(x, 0, d)
	case *ssa.Phi:
		for _, e := range x.Edges {
			if !isFreshD(e, d+1) {
				return false
			}
		}
		return len(x.Edges) > 0
	}
	return false
}

// returnsFresh: the callee's idx-th result is, on every return, nil or an object
// allocated inside the callee (a constructor): the caller holds the only reference.
func returnsFresh(call *ssa.Call, idx, d int) bool {
	callee := call.Call.StaticCallee()
	if callee == nil || len(callee.Blocks) == 0 || callee.Pkg == nil || callee.Pkg.Pkg.Path() != absnfsPath {
		return false
	}
	n := 0
	for _, b := range callee.Blocks {
		if b == callee.Recover {
			continue
		}
		for _, in := range b.Instrs {
			r, ok := in.(*ssa.Return)
			if !ok || idx >= len(r.Results) {
				continue
			}
			v := retVal(r, idx)
			if isNilConst(v) {
				continue
			}
			n++
			if !isFreshD(v, d+1) {
				return false
			}
		}
	}
	return n > 0
}

// checkProtected reports accesses of spec fields without the lock.
func (li *LockInfo) checkProtected(spec protSpec) (ok []access, bad []access, why map[ssa.Instruction]string) {
	p := li.P
	fs := map[string]bool{}
	for _, f := range spec.Fields {
		fs[f] = true
	}
	why = map[ssa.Instruction]string{}
	for _, a := range p.fieldAccesses(spec.Owner, fs) {
		if isFresh(a.Base) {
			continue
		}
		st := li.stateAt(a.Instr)
		want := lockID{Root: rootExpr(a.Base), Field: spec.Lock, Class: spec.Owner + "." + spec.Lock}
		mode, held := st[want]
		switch {
		case !held:
			bad = append(bad, a)
			why[a.Instr] = "no " + want.Class + " held (held: " + st.String() + ")"
		case a.Write && mode != 'W':
			bad = append(bad, a)
			why[a.Instr] = "write under read lock only"
		default:
			ok = append(ok, a)
		}
	}
	return
}

// ---------------------------------------------------------------------------
// lock order

type orderEdge struct {
	From, To string
	Pos      string
	Fn       string
}

// acquiresTransitive: lock classes a function may acquire, directly or through in-package callees.
func (li *LockInfo) acquiresTransitive() map[*ssa.Function]map[string]bool {
	p := li.P
	acq := map[*ssa.Function]map[string]bool{}
	for _, fn := range p.SrcFuncs {
		acq[fn] = map[string]bool{}
		for _, b := range fn.Blocks {
			for _, in := range b.Instrs {
				if op, ok := asLockOp(in); ok && (op.Kind == "Lock" || op.Kind == "RLock") {
					if _, isDefer := in.(*ssa.Defer); !isDefer {
						acq[fn][op.ID.Class] = true
					}
				}
			}
		}
	}
	changed := true
	for changed {
		changed = false
		for _, fn := range p.SrcFuncs {
			for _, call := range calls(fn) {
				if _, isGo := call.(*ssa.Go); isGo {
					continue
				}
				for _, callee := range p.calleesAt(fn, call) {
					for c := range acq[callee] {
						if !acq[fn][c] {
							acq[fn][c] = true
							changed = true
						}
					}
				}
			}
		}
	}
	return acq
}

// paramLocks: for each function, the mutexes it acquires (directly or through
// callees) that are rooted at one of its own parameters: "pN|field".
func (li *LockInfo) paramLocks() map[*ssa.Function]map[string]bool {
	p := li.P
	pl := map[*ssa.Function]map[string]bool{}
	for _, fn := range p.SrcFuncs {
		pl[fn] = map[string]bool{}
		for _, b := range fn.Blocks {
			for _, in := range b.Instrs {
				if _, isDefer := in.(*ssa.Defer); isDefer {
					continue
				}
				if op, ok := asLockOp(in); ok && (op.Kind == "Lock" || op.Kind == "RLock") && strings.HasPrefix(op.ID.Root, "p") && !strings.Contains(op.ID.Root, ".") {
					pl[fn][op.ID.Root+"|"+op.ID.Field] = true
				}
			}
		}
	}
	changed := true
	for changed {
		changed = false
		for _, fn := range p.SrcFuncs {
			for _, call := range calls(fn) {
				if _, isGo := call.(*ssa.Go); isGo {
					continue
				}
				args := call.Common().Args
				for _, callee := range p.calleesAt(fn, call) {
					for k := range pl[callee] {
						parts := strings.SplitN(k, "|", 2)
						var idx int
						fmt.Sscanf(parts[0], "p%d", &idx)
						if idx >= len(args) {
							continue
						}
						r := rootExpr(args[idx])
						if strings.HasPrefix(r, "p") && !strings.Contains(r, ".") && !strings.Contains(r, ":") {
							nk := r + "|" + parts[1]
							if !pl[fn][nk] {
								pl[fn][nk] = true
								changed = true
							}
						}
					}
				}
			}
		}
	}
	return pl
}

// reacquisitions: a call made while holding mutex M of object X passes X to a
// callee that (transitively) acquires the same mutex of that parameter.
func (li *LockInfo) reacquisitions() []orderEdge {
	p := li.P
	pl := li.paramLocks()
	var out []orderEdge
	for _, fn := range p.SrcFuncs {
		for _, b := range fn.Blocks {
			for _, in := range b.Instrs {
				call, ok := in.(ssa.CallInstruction)
				if !ok {
					continue
				}
				if _, isGo := in.(*ssa.Go); isGo {
					continue
				}
				if _, isDefer := in.(*ssa.Defer); isDefer {
					continue
				}
				st := li.stateAt(in)
				if len(st) == 0 {
					continue
				}
				args := call.Common().Args
				for _, callee := range p.calleesAt(fn, call) {
					for h := range st {
						for i, a := range args {
							if rootExpr(a) == h.Root && pl[callee][fmt.Sprintf("p%d|%s", i, h.Field)] {
								out = append(out, orderEdge{From: h.Class, To: h.Class + "(same instance via " + fnKey(callee) + ")", Pos: p.instrPos(in), Fn: fnKey(fn)})
							}
						}
					}
				}
			}
		}
	}
	return out
}

func (li *LockInfo) orderEdges() []orderEdge {
	p := li.P
	acq := li.acquiresTransitive()
	var edges []orderEdge
	seen := map[string]bool{}
	add := func(from, to, pos, fn string) {
		k := from + "->" + to
		if seen[k] {
			return
		}
		seen[k] = true
		edges = append(edges, orderEdge{from, to, pos, fn})
	}
	for _, fn := range p.SrcFuncs {
		for _, b := range fn.Blocks {
			for _, in := range b.Instrs {
				if _, isDefer := in.(*ssa.Defer); isDefer {
					continue
				}
				if _, isGo := in.(*ssa.Go); isGo {
					continue
				}
				st := li.stateAt(in)
				if len(st) == 0 {
					continue
				}
				if op, ok := asLockOp(in); ok && (op.Kind == "Lock" || op.Kind == "RLock") {
					for h := range st {
						if h == op.ID {
							add(h.Class, op.ID.Class+"(same instance)", p.instrPos(in), fnKey(fn))
						} else {
							add(h.Class, op.ID.Class, p.instrPos(in), fnKey(fn))
						}
					}
					continue
				}
				if call, ok := in.(ssa.CallInstruction); ok {
					for _, callee := range p.calleesAt(fn, call) {
						for c := range acq[callee] {
							for h := range st {
								add(h.Class, c, p.instrPos(in), fnKey(fn))
							}
						}
					}
				}
			}
		}
	}
	sort.Slice(edges, func(i, j int) bool { return edges[i].From+edges[i].To < edges[j].From+edges[j].To })
	return edges
}

// findCycle returns a cycle in the order graph, if any.
func findCycle(edges []orderEdge) []string {
	adj := map[string][]string{}
	for _, e := range edges {
		to := strings.TrimSuffix(e.To, "(same instance)")
		if to != e.To {
			return []string{e.From, e.To}
		}
		if e.From == to {
			continue // two instances of one class, handled by the same-instance rule
		}
		adj[e.From] = append(adj[e.From], to)
	}
	color := map[string]int{}
	var stack []string
	var cyc []string
	var dfs func(n string) bool
	dfs = func(n string) bool {
		color[n] = 1
		stack = append(stack, n)
		for _, m := range adj[n] {
			if color[m] == 1 {
				for i, s := range stack {
					if s == m {
						cyc = append(append([]string{}, stack[i:]...), m)
						return true
					}
				}
			}
			if color[m] == 0 && dfs(m) {
				return true
			}
		}
		stack = stack[:len(stack)-1]
		color[n] = 2
		return false
	}
	var nodes []string
	for n := range adj {
		nodes = append(nodes, n)
	}
	sort.Strings(nodes)
	for _, n := range nodes {
		if color[n] == 0 && dfs(n) {
			return cyc
		}
	}
	return nil
}

var _ = types.Typ
