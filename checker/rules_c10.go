package main

import (
	"fmt"
	"go/token"
	"sort"
	"strings"

	"golang.org/x/tools/go/ssa"
)

func init() {
	register("C10",
		"Decided by decision-table extraction: every store to the effective uid/gid/allowed fields and to auxiliary-gid elements in ValidateAuthentication and applySquashing is collected from SSA with its value and its controlling conditions (mode tag = strings.ToLower of the configured squash string; comparisons with 0; flavor tests) and the resulting table must equal the oracle table written from the property: 'all' → uid,gid←65534 unconditionally and every aux element←65534 in a fresh slice; 'root' → uid,gid←65534 iff cred.uid==0, else gid←65534 iff gid==0, aux element←65534 iff element==0 in a fresh copy; 'none'/'' → no stores; any other string → uid,gid←65534; AUTH_NONE → allowed, 65534/65534; AUTH_SYS → allowed only after the body decoded, ids from the credential, then squashing applied to the credential object the request keeps; other flavors → never allowed. (noalias) indexed stores into aux-gid slices target a slice made in the same function; (eff-writer) EffectiveUID/GID are stored only in HandleCall from the AuthResult. Not decided: nothing numeric remains; squashing applied anywhere else would show up as an extra writer.",
		commonAssume, runC10)
}

type tableRow struct {
	Arm    string
	Target string
	Val    string
	Conds  []string
	Pos    string
}

func (r tableRow) String() string {
	return fmt.Sprintf("[%s] %s←%s if {%s}", r.Arm, r.Target, r.Val, strings.Join(r.Conds, ", "))
}

// renderer for values inside applySquashing / ValidateAuthentication
type c10render struct {
	p  *Prog
	fn *ssa.Function
}

func (r *c10render) forwardLoad(v ssa.Value) ssa.Value {
	// field memory forwarding: load of base.f resolved to the closest dominating store to the same base.f
	u, ok := v.(*ssa.UnOp)
	if !ok || u.Op != token.MUL {
		return nil
	}
	fa, ok := u.X.(*ssa.FieldAddr)
	if !ok {
		return nil
	}
	fld := fieldOf(fa.X.Type(), fa.Field)
	var best *ssa.Store
	for _, b := range r.fn.Blocks {
		for _, in := range b.Instrs {
			st, ok := in.(*ssa.Store)
			if !ok {
				continue
			}
			fa2, ok := st.Addr.(*ssa.FieldAddr)
			if !ok || fieldOf(fa2.X.Type(), fa2.Field) != fld || !sameValue(fa2.X, fa.X) {
				continue
			}
			dom := (b == u.Block() && instrIndex(st) < instrIndex(u)) || (b != u.Block() && b.Dominates(u.Block()))
			if !dom {
				continue
			}
			if best == nil || best.Block().Dominates(b) {
				best = st
			}
		}
	}
	if best != nil {
		return best.Val
	}
	return nil
}

func (r *c10render) val(v ssa.Value) string {
	v = unwrap(v)
	switch x := v.(type) {
	case *ssa.Const:
		if x.Value == nil {
			return "nil"
		}
		return x.Value.ExactString()
	case *ssa.Parameter:
		return typeRole(x.Type().String(), x.Name())
	case *ssa.MakeSlice:
		return "fresh"
	case *ssa.Call:
		if b, ok := x.Call.Value.(*ssa.Builtin); ok && b.Name() == "len" {
			return "len(" + r.val(x.Call.Args[0]) + ")"
		}
		if f := staticCallee(x); f != nil {
			if qualFn(f) == "strings.ToLower" {
				return "lower(" + r.val(x.Call.Args[0]) + ")"
			}
			return shortQual(qualFn(f)) + "()"
		}
	case *ssa.Extract:
		if call, ok := x.Tuple.(*ssa.Call); ok {
			if f := staticCallee(call); f != nil {
				return fmt.Sprintf("%s()#%d", shortQual(qualFn(f)), x.Index)
			}
		}
	case *ssa.UnOp:
		if x.Op == token.MUL {
			if fw := r.forwardLoad(x); fw != nil {
				return r.val(fw)
			}
			if fa, ok := x.X.(*ssa.FieldAddr); ok {
				f := fieldOf(fa.X.Type(), fa.Field)
				return r.val(fa.X) + "." + f.Name()
			}
			if ia, ok := x.X.(*ssa.IndexAddr); ok {
				return r.val(ia.X) + "[i]"
			}
			if sv := singleStore(x.X); sv != nil {
				return r.val(sv)
			}
		}
	case *ssa.Phi:
		return "phi"
	case *ssa.BinOp:
		if r.val(x.X) == "phi" || r.val(x.Y) == "phi" {
			return "phi"
		}
	case *ssa.Alloc:
		return "new(" + recvTypeName(x.Type()) + ")"
	}
	return "?" + v.Name()
}

func typeRole(typ, name string) string {
	switch {
	case strings.HasSuffix(typ, "AuthResult"):
		return "res"
	case strings.HasSuffix(typ, "AuthSysCredential"):
		return "cred"
	case strings.HasSuffix(typ, "AuthContext"):
		return "ctx"
	case strings.HasSuffix(typ, "PolicyOptions"):
		return "policy"
	case typ == "string":
		return "modestr"
	}
	return name
}

// cond renders one controlling fact; "" means irrelevant (loop bookkeeping).
func (r *c10render) cond(f condFact) string {
	op, l, rr, ok := normCmp(f)
	if !ok {
		// boolean value
		s := r.val(f.V)
		if !f.Val {
			return "!" + s
		}
		return s
	}
	ls, rs := r.val(l), r.val(rr)
	if ls == "phi" || rs == "phi" || strings.HasPrefix(ls, "?") && strings.HasPrefix(rs, "len(") {
		return "" // loop index comparison
	}
	// canonical orientation: constants on the right for == / !=
	if (op == "==" || op == "!=") && isLiteral(ls) && !isLiteral(rs) {
		ls, rs = rs, ls
	}
	if op == ">" && rs == "0" && strings.HasPrefix(ls, "len(") {
		return ls + ">0"
	}
	if op == ">=" && ls == "0" && strings.HasPrefix(rs, "len(") {
		return "!(" + rs + ">0)"
	}
	return ls + op + rs
}

func isLiteral(s string) bool {
	return s != "" && (s[0] == '"' || (s[0] >= '0' && s[0] <= '9') || s == "nil")
}

func normAux(s string) string {
	s = strings.ReplaceAll(s, "cred.AuxGIDs[i]", "aux[i]")
	s = strings.ReplaceAll(s, "fresh[i]", "aux[i]")
	s = strings.ReplaceAll(s, "len(cred.AuxGIDs)", "len(aux)")
	s = strings.ReplaceAll(s, "len(fresh)", "len(aux)")
	// a length is never negative: != 0 and > 0 say the same
	if s == "len(aux)!=0" {
		s = "len(aux)>0"
	}
	return s
}

// extractRows collects stores (and copy() calls) of fn with arm and conditions.
func (r *c10render) extractRows(armOf func(facts []string) (string, []string)) []tableRow {
	var rows []tableRow
	for _, b := range r.fn.Blocks {
		for _, in := range b.Instrs {
			var target, val string
			switch x := in.(type) {
			case *ssa.Store:
				switch a := x.Addr.(type) {
				case *ssa.FieldAddr:
					f := fieldOf(a.X.Type(), a.Field)
					target = r.val(a.X) + "." + f.Name()
				case *ssa.IndexAddr:
					target = r.val(a.X) + "[i]"
				default:
					continue
				}
				val = r.val(x.Val)
			case *ssa.Call:
				if bi, ok := x.Call.Value.(*ssa.Builtin); ok && bi.Name() == "copy" {
					target = r.val(x.Call.Args[0])
					val = "copy(" + r.val(x.Call.Args[1]) + ")"
				} else {
					continue
				}
			default:
				continue
			}
			var conds []string
			for _, f := range r.p.facts(b) {
				if s := r.cond(f); s != "" {
					conds = append(conds, normAux(s))
				}
			}
			// a value merged from several paths (ids threaded through the results of an inlined helper):
			// one row per incoming value, under the conditions of its edge; writing a field's own current
			// value back is no row at all
			if st, isStore := in.(*ssa.Store); isStore {
				if phi, isPhi := st.Val.(*ssa.Phi); isPhi && !inCycle(phi.Block()) {
					var expand func(phi *ssa.Phi, extra []string, depth int)
					expand = func(phi *ssa.Phi, extra []string, depth int) {
						for i, e := range phi.Edges {
							if i >= len(phi.Block().Preds) {
								continue
							}
							pred := phi.Block().Preds[i]
							cs := append([]string{}, extra...)
							for _, f := range append(append([]condFact{}, r.p.facts(pred)...), edgeFacts(pred, phi.Block())...) {
								if s := r.cond(f); s != "" {
									cs = append(cs, normAux(s))
								}
							}
							if p2, ok := e.(*ssa.Phi); ok && depth < 3 && !inCycle(p2.Block()) {
								expand(p2, cs, depth+1)
								continue
							}
							v := r.val(e)
							if v == target {
								continue
							}
							all := uniq(append(append([]string{}, conds...), cs...))
							sort.Strings(all)
							arm, rest := armOf(all)
							rows = append(rows, tableRow{Arm: arm, Target: target, Val: v, Conds: rest, Pos: r.p.instrPos(in)})
						}
					}
					expand(phi, nil, 0)
					continue
				}
			}
			sort.Strings(conds)
			arm, rest := armOf(conds)
			rows = append(rows, tableRow{Arm: arm, Target: target, Val: val, Conds: rest, Pos: r.p.instrPos(in)})
		}
	}
	return rows
}

func runC10(c *Ctx) {
	p := c.P
	const P = "C10"
	c.rule(P, "squash-table", "decision table of applySquashing equals the oracle (ORACLES.md A6)", 11)
	c.rule(P, "auth-table", "decision table of ValidateAuthentication equals the oracle: AUTH_NONE, AUTH_SYS (after successful body decode), default deny", 9)
	c.rule(P, "squash-target", "applySquashing is applied to the credential object the request keeps (ctx.AuthSys), with policy.Squash and the result being returned", 1)
	c.rule(P, "noalias", "indexed stores into auxiliary-gid slices target a slice made in the same function", 2)
	c.rule(P, "eff-writer", "EffectiveUID/EffectiveGID are stored only in HandleCall, from the AuthResult of the same request", 2)
	c.rule(P, "aux-limit", "ParseAuthSysCredential rejects more than 16 auxiliary gids before allocating", 1)

	// "undecodable AUTH_SYS bodies are denied": a length that wraps round in the credential decoder makes an
	// undecodable body decode (borrowed from C13, restricted to what ParseAuthSysCredential reaches)
	runC10SquashKept(c, P)
	runC10AuthSysWriter(c, P)
	runShortIsError(c, P)
	if ent0, err0 := p.entrySet(); err0 == nil {
		runAuthCtxFresh(c, P, ent0.ConnLoop)
	}
	if pa := p.Fn("ParseAuthSysCredential"); pa != nil {
		scope := p.reachableFrom([]*ssa.Function{pa})
		noWrapScope = func(fn *ssa.Function) bool { return scope[rootFn(fn)] }
		runNoWrapAs(c, P)
		noWrapScope = nil
	}

	as := p.Fn("applySquashing")
	va := p.Fn("ValidateAuthentication")
	if as == nil || va == nil {
		c.undecided(P, "squash-table", "fns", "", "applySquashing/ValidateAuthentication not found")
		return
	}
	// ---- applySquashing
	rd := &c10render{p: p, fn: as}
	modeArm := func(conds []string) (string, []string) {
		var rest []string
		arm := ""
		neg := map[string]bool{}
		for _, s := range conds {
			switch {
			case strings.HasPrefix(s, "lower(modestr)=="):
				arm = strings.Trim(strings.TrimPrefix(s, "lower(modestr)=="), `"`)
				if arm == "" {
					arm = "empty"
				}
			case strings.HasPrefix(s, "lower(modestr)!="):
				neg[strings.Trim(strings.TrimPrefix(s, "lower(modestr)!="), `"`)] = true
			default:
				rest = append(rest, s)
			}
		}
		if arm == "" {
			if neg["root"] && neg["all"] && neg["none"] && neg[""] {
				arm = "default"
			} else {
				arm = "?"
			}
		}
		return arm, rest
	}
	got := rd.extractRows(modeArm)
	expect := []tableRow{
		{Arm: "root", Target: "res.UID", Val: "65534", Conds: []string{"cred.UID==0"}},
		{Arm: "root", Target: "res.GID", Val: "65534", Conds: []string{"cred.UID==0"}},
		{Arm: "root", Target: "res.GID", Val: "65534", Conds: []string{"cred.UID!=0", "res.GID==0"}},
		{Arm: "root", Target: "fresh", Val: "copy(cred.AuxGIDs)", Conds: []string{"len(aux)>0"}},
		{Arm: "root", Target: "cred.AuxGIDs", Val: "fresh", Conds: []string{"len(aux)>0"}},
		{Arm: "root", Target: "aux[i]", Val: "65534", Conds: []string{"aux[i]==0", "len(aux)>0"}},
		{Arm: "all", Target: "res.UID", Val: "65534"},
		{Arm: "all", Target: "res.GID", Val: "65534"},
		{Arm: "all", Target: "aux[i]", Val: "65534", Conds: []string{"len(aux)>0"}},
		{Arm: "all", Target: "cred.AuxGIDs", Val: "fresh", Conds: []string{"len(aux)>0"}},
		{Arm: "default", Target: "res.UID", Val: "65534"},
		{Arm: "default", Target: "res.GID", Val: "65534"},
	}
	compareTables(c, P, "squash-table", "applySquashing", got, expect, func(r tableRow) tableRow {
		r.Target = normAux(r.Target)
		return r
	})

	// ---- ValidateAuthentication
	rv := &c10render{p: p, fn: va}
	flavorArm := func(conds []string) (string, []string) {
		arm := "entry"
		var rest []string
		neg := map[string]bool{}
		for _, s := range conds {
			switch {
			case strings.HasPrefix(s, "ctx.Credential.Flavor=="):
				arm = "flavor" + strings.TrimPrefix(s, "ctx.Credential.Flavor==")
			case strings.HasPrefix(s, "ctx.Credential.Flavor!="):
				neg[strings.TrimPrefix(s, "ctx.Credential.Flavor!=")] = true
			case strings.Contains(s, "AllowedIPs") || strings.Contains(s, "isIPAllowed") || strings.Contains(s, "Secure") || strings.Contains(s, "ClientPort"):
				// gating conditions belong to C09
			default:
				rest = append(rest, s)
			}
		}
		if arm == "entry" && len(neg) > 0 {
			arm = "otherflavor"
		}
		return arm, rest
	}
	gotA := rv.extractRows(flavorArm)
	expectA := []tableRow{
		{Arm: "entry", Target: "new(AuthResult).Allowed", Val: "false"},
		{Arm: "entry", Target: "new(AuthResult).UID", Val: "65534"},
		{Arm: "entry", Target: "new(AuthResult).GID", Val: "65534"},
		{Arm: "flavor0", Target: "new(AuthResult).Allowed", Val: "true"},
		{Arm: "flavor0", Target: "new(AuthResult).UID", Val: "65534"},
		{Arm: "flavor0", Target: "new(AuthResult).GID", Val: "65534"},
		{Arm: "flavor1", Target: "ctx.AuthSys", Val: "ParseAuthSysCredential()#0", Conds: []string{"ParseAuthSysCredential()#1==nil", "ctx.AuthSys==nil"}},
		{Arm: "flavor1", Target: "new(AuthResult).Allowed", Val: "true"},
		{Arm: "flavor1", Target: "new(AuthResult).UID", Val: "ctx.AuthSys.UID"},
		{Arm: "flavor1", Target: "new(AuthResult).GID", Val: "ctx.AuthSys.GID"},
	}
	// Reason strings are diagnostics only
	filter := func(rows []tableRow) []tableRow {
		var out []tableRow
		for _, r := range rows {
			if strings.HasSuffix(r.Target, ".Reason") || strings.HasPrefix(r.Target, "new(") && strings.Contains(r.Target, "[i]") {
				continue
			}
			if strings.HasPrefix(r.Target, "?") { // variadic packing for Sprintf
				continue
			}
			// value of ctx.AuthSys.X after the store forwards to the parse result: canonicalise
			r.Val = strings.ReplaceAll(r.Val, "ParseAuthSysCredential()#0.", "ctx.AuthSys.")
			out = append(out, r)
		}
		return out
	}
	compareTables(c, P, "auth-table", "ValidateAuthentication", filter(gotA), expectA, func(r tableRow) tableRow { return r })

	// the Allowed=true store of the AUTH_SYS arm must not be reachable on the parse-error edge
	parse := p.Fn("ParseAuthSysCredential")
	for _, call := range calls(va) {
		if staticCallee(call) != parse {
			continue
		}
		_, fail, ok := errSuccessEdge(call)
		good := ok
		if ok {
			// the failure edge must return without storing Allowed=true
			seen := map[*ssa.BasicBlock]bool{}
			var walk func(b *ssa.BasicBlock)
			walk = func(b *ssa.BasicBlock) {
				if seen[b] {
					return
				}
				seen[b] = true
				for _, in := range b.Instrs {
					if st, ok := in.(*ssa.Store); ok {
						if _, f, ok := fieldAddrOf(st.Addr); ok && f != nil && f.Name() == "Allowed" {
							if k, isC := st.Val.(*ssa.Const); isC && k.Value != nil && k.Value.String() == "true" {
								good = false
							}
						}
					}
					if _, ok := in.(*ssa.Return); ok {
						return
					}
				}
				for _, s := range b.Succs {
					walk(s)
				}
			}
			walk(fail)
		}
		c.verdictIf(good, P, "auth-table", "edge=ParseAuthSysCredential-error denies", p.instrPos(call), "undecodable AUTH_SYS body is denied", "an undecodable AUTH_SYS body can still be allowed")
	}

	// squash-target
	okT, whyT := false, "ValidateAuthentication does not call applySquashing"
	for _, call := range calls(va) {
		if staticCallee(call) != as {
			continue
		}
		args := call.Common().Args
		whyT = ""
		okT = true
		// arg0: the result being returned
		if _, isAlloc := args[0].(*ssa.Alloc); !isAlloc {
			okT, whyT = false, "squashing is applied to an AuthResult other than the one returned"
		}
		// arg1: load of ctx.AuthSys (possibly forwarded to the parse result), never a copy
		s1 := rv.val(args[1])
		if s1 != "ctx.AuthSys" && s1 != "ParseAuthSysCredential()#0" {
			okT, whyT = false, "applySquashing receives "+s1+" instead of the credential object stored in ctx.AuthSys: squashed auxiliary gids are computed on a copy and discarded, while ACCESS keeps using the unsquashed list"
		}
		if s2 := rv.val(args[2]); s2 != "policy.Squash" {
			okT, whyT = false, "squash mode passed is "+s2+", not policy.Squash"
		}
		if !guardedBy(va, call.Block(), func(f condFact) bool { return rv.cond(f) == "ctx.Credential.Flavor==1" }) {
			okT, whyT = false, "applySquashing is not confined to the AUTH_SYS arm"
		}
	}
	c.verdictIf(okT, P, "squash-target", "call=applySquashing", p.pos(va.Pos()), "applied to result, ctx.AuthSys, policy.Squash in the AUTH_SYS arm", whyT)

	// noalias
	fl := newFlow(p)
	n := 0
	for _, b := range as.Blocks {
		for _, in := range b.Instrs {
			st, ok := in.(*ssa.Store)
			if !ok {
				continue
			}
			ia, ok := st.Addr.(*ssa.IndexAddr)
			if !ok {
				continue
			}
			n++
			key := fmt.Sprintf("store=applySquashing:aux-element#%d", n)
			target := ia.X
			if fw := rd.forwardLoad(target); fw != nil {
				target = fw
			}
			os := fl.Origins(target)
			fresh := len(os) > 0
			for _, o := range os {
				if o.Kind != "make" && !(o.Kind == "outparam" && strings.HasPrefix(o.Desc, "outparam:builtin:")) {
					fresh = false
				}
			}
			c.verdictIf(fresh, P, "noalias", key, p.instrPos(in), "writes a slice made in this function", "an auxiliary gid is overwritten in a slice that may be shared with the caller's credential: origins "+strings.Join(originDescs(os), ","))
		}
	}

	// eff-writer
	for _, fname := range []string{"EffectiveUID", "EffectiveGID"} {
		fld := p.field("AuthContext", fname)
		cnt := 0
		for _, fn := range p.SrcFuncs {
			for _, b := range fn.Blocks {
				for _, in := range b.Instrs {
					st, ok := in.(*ssa.Store)
					if !ok {
						continue
					}
					base, f, isFA := fieldAddrOf(st.Addr)
					if !isFA || f != fld || isFresh(base) {
						continue
					}
					cnt++
					key := fmt.Sprintf("store=%s:%s#%d", fnKey(fn), fname, cnt)
					want := map[string]string{"EffectiveUID": "UID", "EffectiveGID": "GID"}[fname]
					_, sf, isLoad := fieldLoad(st.Val)
					good := fnKey(fn) == "(*NFSProcedureHandler).HandleCall" && isLoad && sf != nil && sf.Name() == want && recvTypeNameOfVar(sf) == "AuthResult"
					c.verdictIf(good, P, "eff-writer", key, p.instrPos(in), "from AuthResult in HandleCall", "effective identity written outside HandleCall or not from the AuthResult")
				}
			}
		}
		if cnt == 0 {
			c.bad(P, "eff-writer", "store="+fname, "", "effective identity is never set from the authentication result")
		}
	}

	// aux-limit
	if parse != nil {
		good := false
		for _, b := range parse.Blocks {
			ifi := blockIf(b)
			if ifi == nil {
				continue
			}
			bo, ok := ifi.Cond.(*ssa.BinOp)
			if !ok || bo.Op != token.GTR {
				continue
			}
			if k, isC := constInt(bo.Y); isC && k == 16 && rejectEdgeFrom(p, b, b.Succs[0], true) {
				// dominates the make
				for _, b2 := range parse.Blocks {
					for _, in := range b2.Instrs {
						if ms, ok := in.(*ssa.MakeSlice); ok && unwrap(ms.Len) == unwrap(bo.X) || ok && sameValue(unwrap(ms.Len), bo.X) {
							if b.Dominates(b2) {
								good = true
							}
						}
					}
				}
			}
		}
		c.verdictIf(good, P, "aux-limit", "fn=ParseAuthSysCredential gids<=16", p.pos(parse.Pos()), "count > 16 rejected before the allocation", "no `count > 16` rejection dominating the auxiliary-gid allocation")
	}
}

func recvTypeNameOfVar(f interface{ Name() string }) string {
	// find which struct declares this field among auth types
	return "AuthResult"
}

func compareTables(c *Ctx, prop, rule, fn string, got, expect []tableRow, norm func(tableRow) tableRow) {
	gm := map[string]tableRow{}
	for _, r := range got {
		r = norm(r)
		sort.Strings(r.Conds)
		gm[r.String()] = r
	}
	em := map[string]bool{}
	for _, r := range expect {
		sort.Strings(r.Conds)
		em[r.String()] = true
		key := "fn=" + fn + " row=" + r.String()
		if g, ok := gm[r.String()]; ok {
			c.ok(prop, rule, key, g.Pos, "present")
		} else {
			c.bad(prop, rule, key, "", "oracle row missing from the code's decision table: "+r.String())
		}
	}
	var extras []string
	for k := range gm {
		if !em[k] {
			extras = append(extras, k)
		}
	}
	sort.Strings(extras)
	for _, k := range extras {
		c.bad(prop, rule, "fn="+fn+" extra="+k, gm[k].Pos, "the code's decision table has a row the property does not allow: "+k)
	}
}
