package main

// pair.go: T-PAIR — must-follow on the SSA control-flow graph, with lifting
// of undischarged obligations to call sites.

import (
	"golang.org/x/tools/go/ssa"
)

type followSpec struct {
	Fn       *ssa.Function
	From     ssa.Instruction   // start right after this instruction ...
	Start    []*ssa.BasicBlock // ... or at the top of these blocks
	Closes   func(ssa.Instruction) bool
	Bad      func(ssa.Instruction) bool          // an instruction that must not occur before the closer
	StopEdge func(from, to *ssa.BasicBlock) bool // edges that count as closed (e.g. optional component is nil)
	ExitOK   func(r *ssa.Return) bool            // returns that need no closer (e.g. error returns)
}

type followOutcome struct {
	OK      bool
	Why     string // "exit" | "bad"
	At      ssa.Instruction
	Witness []*ssa.BasicBlock
}

func follow(sp followSpec) followOutcome {
	fn := sp.Fn
	type st struct {
		b   *ssa.BasicBlock
		idx int
	}
	var starts []st
	if sp.From != nil {
		// a deferred closer registered before From on every path counts
		for _, b := range fn.Blocks {
			for _, in := range b.Instrs {
				if d, ok := in.(*ssa.Defer); ok && sp.Closes(d) {
					fb := sp.From.Block()
					if (b == fb && instrIndex(in) < instrIndex(sp.From)) || (b != fb && b.Dominates(fb)) {
						return followOutcome{OK: true}
					}
				}
			}
		}
		starts = append(starts, st{sp.From.Block(), instrIndex(sp.From) + 1})
	}
	for _, b := range sp.Start {
		starts = append(starts, st{b, 0})
	}
	parent := map[*ssa.BasicBlock]*ssa.BasicBlock{}
	seen := map[*ssa.BasicBlock]bool{}
	// scan: 0 = falls through, 1 = closed, 2 = exit without closer, 3 = bad
	scan := func(b *ssa.BasicBlock, idx int) (int, ssa.Instruction) {
		for i := idx; i < len(b.Instrs); i++ {
			in := b.Instrs[i]
			if sp.Closes(in) {
				return 1, in
			}
			if sp.Bad != nil && sp.Bad(in) {
				return 3, in
			}
			if r, ok := in.(*ssa.Return); ok {
				if sp.ExitOK != nil && sp.ExitOK(r) {
					return 1, in
				}
				return 2, in
			}
		}
		return 0, nil
	}
	mkPath := func(end *ssa.BasicBlock) []*ssa.BasicBlock {
		var path []*ssa.BasicBlock
		onPath := map[*ssa.BasicBlock]bool{}
		for b := end; b != nil; b = parent[b] {
			if onPath[b] {
				break // the start block was re-entered through a back edge
			}
			onPath[b] = true
			path = append([]*ssa.BasicBlock{b}, path...)
			if len(path) > 64 {
				break
			}
		}
		return path
	}
	var queue []*ssa.BasicBlock
	push := func(from *ssa.BasicBlock) {
		for _, nx := range from.Succs {
			if sp.StopEdge != nil && sp.StopEdge(from, nx) {
				continue
			}
			if !seen[nx] {
				seen[nx] = true
				parent[nx] = from
				queue = append(queue, nx)
			}
		}
	}
	for _, s := range starts {
		code, at := scan(s.b, s.idx)
		switch code {
		case 1:
			continue
		case 2:
			return followOutcome{OK: false, Why: "exit", At: at, Witness: []*ssa.BasicBlock{s.b}}
		case 3:
			return followOutcome{OK: false, Why: "bad", At: at, Witness: []*ssa.BasicBlock{s.b}}
		}
		push(s.b)
	}
	for len(queue) > 0 {
		b := queue[0]
		queue = queue[1:]
		code, at := scan(b, 0)
		switch code {
		case 1:
			continue
		case 2:
			return followOutcome{OK: false, Why: "exit", At: at, Witness: mkPath(b)}
		case 3:
			return followOutcome{OK: false, Why: "bad", At: at, Witness: mkPath(b)}
		}
		push(b)
	}
	return followOutcome{OK: true}
}

// nilFieldStop builds a StopEdge predicate: the edge on which a load of the
// given struct field compared to nil is known to be nil (optional component absent).
func nilFieldStop(isField func(ssa.Value) bool) func(from, to *ssa.BasicBlock) bool {
	return func(from, to *ssa.BasicBlock) bool {
		for _, f := range edgeFacts(from, to) {
			bo, ok := f.V.(*ssa.BinOp)
			if !ok {
				continue
			}
			var other ssa.Value
			if isNilConst(bo.X) {
				other = bo.Y
			} else if isNilConst(bo.Y) {
				other = bo.X
			} else {
				continue
			}
			if !isField(other) {
				continue
			}
			// x != nil false  or  x == nil true  => nil
			if (bo.Op.String() == "!=" && !f.Val) || (bo.Op.String() == "==" && f.Val) {
				return true
			}
		}
		return false
	}
}

// transitiveCallers computes the set of in-package functions that
// (transitively) call any function in `targets`.
func (p *Prog) transitiveCallers(targets map[*ssa.Function]bool) map[*ssa.Function]bool {
	res := map[*ssa.Function]bool{}
	var stack []*ssa.Function
	for t := range targets {
		res[t] = true
		stack = append(stack, t)
	}
	for len(stack) > 0 {
		f := stack[len(stack)-1]
		stack = stack[:len(stack)-1]
		for _, cs := range p.callers[f] {
			if !res[cs.Caller] {
				res[cs.Caller] = true
				stack = append(stack, cs.Caller)
			}
		}
	}
	return res
}

// callsInto reports whether call c may enter a function in set.
func (p *Prog) callsInto(fn *ssa.Function, c ssa.CallInstruction, set map[*ssa.Function]bool) bool {
	for _, callee := range p.calleesAt(fn, c) {
		if set[callee] {
			return true
		}
	}
	return false
}
