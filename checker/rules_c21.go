package main

import (
	"fmt"
	"go/token"
	"strings"

	"golang.org/x/tools/go/ssa"
)

func init() {
	register("C21",
		"Decided (representation invariants of both caches): (lock) map, recency list, capacity, TTLs and the negative-caching switch are touched only under the cache mutex, writes under the exclusive lock, including the RLock→Lock upgrade in Get with its re-check; (sync) every deletion from the map is accompanied by removal of that key's list element — by the map-dependent helper strictly before the delete, or by a direct list.Remove of the element — and every insertion ends with a move/push to the front before the lock is released, so map and list describe the same key set; (cap) every insertion is preceded in the same critical section by the capacity test `len(map) >= max && !exists` whose true edge evicts list.Back(), recency updates use the front, and Resize loops until len <= max; (copy) AttrCache.Get returns and Put stores a record allocated inside the call, DirCache.Get/Put copy the slice; (ttl) every hit return is on the not-expired edge of a comparison of that entry's expiry with time.Now() and entries are stamped now+ttl (negative entries now+negativeTTL); (neg) negative entries are created only on the enableNegative edge, InvalidateNegativeInDir deletes only entries with isNegative && isChildOf(path, dir), and a negative hit is served only while negative caching is enabled — or disabling it purges the negative entries. Not decided: agreement with a reference LRU model over histories, the string predicate computed by isChildOf, clock behaviour.",
		commonAssume, runC21)
}

type cacheSpec struct {
	Type, Map, List, Max, Remove, Update string
	Expiry                               string // field of the entry type holding the expiry
	TTL                                  string
}

func runC21(c *Ctx) {
	p := c.P
	const P = "C21"
	runC21NegSwitch(c, P)
	runC21PutStores(c, P)
	runInvalRemoves(c, P, "AttrCache", "cache")
	c.rule(P, "lock", "cache state only under the cache mutex (writes exclusive)", 80)
	c.rule(P, "sync", "delete(map,k) is paired with removal of k's list element in a sound order; insertions end with a move-to-front", 10)
	c.rule(P, "cap", "insertion preceded by `len(map) >= max && !exists` ⇒ evict list.Back(); Resize loops until len <= max", 5)
	c.rule(P, "copy", "Get/Put hand out and keep private copies", 4)
	c.rule(P, "ttl", "hit returns only on the not-expired edge; entries stamped now + ttl", 5)
	c.rule(P, "neg", "negative entries only while enabled; InvalidateNegativeInDir deletes only isNegative && isChildOf; negative hits stop when negative caching is disabled", 3)

	lockRule(c, P, "lock", specAttrCache)
	lockRule(c, P, "lock", specDirCache)

	specs := []cacheSpec{
		{"AttrCache", "cache", "accessList", "maxSize", "removeFromAccessLog", "updateAccessLog", "expireAt", "ttl"},
		{"DirCache", "entries", "accessList", "maxEntries", "removeFromAccessList", "updateAccessLog", "validUntil", "timeout"},
	}
	for _, s := range specs {
		rm := p.Fn("(*" + s.Type + ")." + s.Remove)
		up := p.Fn("(*" + s.Type + ")." + s.Update)
		if rm == nil || up == nil {
			c.undecided(P, "sync", "type="+s.Type, "", "list helpers not found")
			continue
		}
		for _, fn := range p.SrcFuncs {
			if !strings.HasPrefix(fnKey(fn), "(*"+s.Type+").") {
				continue
			}
			nDel, nIns := 0, 0
			for _, b := range fn.Blocks {
				for _, in := range b.Instrs {
					// deletions
					if key, ok := isDeleteOn(in, s.Type, s.Map); ok {
						nDel++
						k := fmt.Sprintf("delete=%s:%s#%d", fnKey(fn), s.Map, nDel)
						good, why := false, "the map entry is deleted but its recency-list element is not removed (or only through the helper that looks the entry up in the map, called after the delete, where it finds nothing): a stale list element remains; when it reaches the back, eviction removes nothing and the cache grows past its capacity, or the live re-inserted entry is evicted instead of the LRU one"
						for _, b2 := range fn.Blocks {
							for _, in2 := range b2.Instrs {
								ci, ok := in2.(ssa.CallInstruction)
								if !ok {
									continue
								}
								before := (b2 == b && instrIndex(in2) < instrIndex(in)) || (b2 != b && b2.Dominates(b))
								if staticCallee(ci) == rm && before && sameValue(ci.Common().Args[1], key) {
									good = true
								}
								if callsMethod(in2, "(*container/list.List).Remove") {
									// direct removal of an element: accept when in the same block or dominating/dominated
									near := b2 == b || b2.Dominates(b) || b.Dominates(b2)
									if !near {
										// removal on every path after the delete
										r := follow(followSpec{Fn: fn, From: in, Closes: func(x ssa.Instruction) bool { return x == in2 }})
										near = r.OK
									}
									if near && listElemBelongsTo(p, ci.Common().Args[1], key) {
										good = true
									}
								}
							}
						}
						c.verdictIf(good, P, "sync", k, p.instrPos(in), "list element removed with the map entry", why)
					}
					// insertions
					if mu, ok := in.(*ssa.MapUpdate); ok {
						if _, ok := isLoadOfField(mu.Map, s.Type, s.Map); ok {
							nIns++
							k := fmt.Sprintf("insert=%s:%s#%d", fnKey(fn), s.Map, nIns)
							res := follow(followSpec{Fn: fn, From: in, Closes: func(x ssa.Instruction) bool {
								ci, ok := x.(ssa.CallInstruction)
								if !ok {
									return false
								}
								if staticCallee(ci) == up && sameValue(ci.Common().Args[1], mu.Key) {
									return true
								}
								// the helper's body written out: the element is moved or pushed to the front directly
								if f := staticCallee(ci); f != nil {
									q := qualFn(f)
									return q == "(*container/list.List).PushFront" || q == "(*container/list.List).MoveToFront"
								}
								return false
							}})
							c.verdictIf(res.OK, P, "sync", k, p.instrPos(in), "followed by updateAccessLog(key)", "an entry is inserted without being put at the front of the recency list: it can never be evicted and the capacity bound is lost")
							// cap
							good := false
							for _, b2 := range fn.Blocks {
								ifi := blockIf(b2)
								if ifi == nil || !(b2 == b || b2.Dominates(b)) {
									continue
								}
								bo, ok := ifi.Cond.(*ssa.BinOp)
								if !ok || bo.Op != token.GEQ {
									continue
								}
								if call, ok := bo.X.(*ssa.Call); ok {
									if bi, ok := call.Call.Value.(*ssa.Builtin); ok && bi.Name() == "len" {
										if _, ok := isLoadOfField(call.Call.Args[0], s.Type, s.Map); ok {
											if _, f, ok := fieldLoad(bo.Y); ok && f != nil && f.Name() == s.Max {
												// true edge (with !exists) reaches a delete of Back()'s key
												if evictsBack(p, fn, b2.Succs[0], s) {
													good = true
												}
											}
										}
									}
								}
							}
							c.verdictIf(good, P, "cap", k, p.instrPos(in), "capacity test and LRU eviction precede the insertion", "insertion is not preceded by `len(map) >= max` ⇒ evict accessList.Back(): the cache can exceed its capacity or evict the wrong end")
						}
					}
				}
			}
		}
		// updateAccessLog uses the front
		front := false
		for _, call := range calls(up) {
			if callsMethod(call, "(*container/list.List).MoveToFront") || callsMethod(call, "(*container/list.List).PushFront") {
				front = true
			}
			if callsMethod(call, "(*container/list.List).MoveToBack") || callsMethod(call, "(*container/list.List).PushBack") {
				front = false
				break
			}
		}
		c.verdictIf(front, P, "cap", "fn=(*"+s.Type+")."+s.Update+" front", p.pos(up.Pos()), "recency updates go to the front, eviction takes the back", "recency updates and eviction use the same end of the list: the most recently used entry is evicted")
		// Resize loop
		rz := p.Fn("(*" + s.Type + ").Resize")
		if rz != nil {
			loopOK := false
			for _, b := range rz.Blocks {
				ifi := blockIf(b)
				if ifi == nil || !inCycle(b) {
					continue
				}
				if bo, ok := ifi.Cond.(*ssa.BinOp); ok && bo.Op == token.GTR {
					if call, ok := bo.X.(*ssa.Call); ok {
						if bi, ok := call.Call.Value.(*ssa.Builtin); ok && bi.Name() == "len" {
							if _, f, ok := fieldLoad(bo.Y); ok && f != nil && f.Name() == s.Max {
								loopOK = true
							}
						}
					}
				}
			}
			c.verdictIf(loopOK, P, "cap", "fn=(*"+s.Type+").Resize loop", p.pos(rz.Pos()), "evicts while len > max", "Resize does not evict until len(map) <= max")
		}
		// ttl: hit returns on the not-expired edge
		get := p.Fn("(*" + s.Type + ").Get")
		if get != nil {
			good, why := checkTTLHit(p, get, s)
			c.verdictIf(good, P, "ttl", "fn=(*"+s.Type+").Get hit-not-expired", p.pos(get.Pos()), "hits are returned only before the entry's expiry", why)
		}
		// stamp
		for _, name := range []string{"Put", "PutNegative"} {
			fn := p.Fn("(*" + s.Type + ")." + name)
			if fn == nil {
				continue
			}
			want := s.TTL
			if name == "PutNegative" {
				want = "negativeTTL"
			}
			fl := newFlow(p)
			good := false
			for _, b := range fn.Blocks {
				for _, in := range b.Instrs {
					st, ok := in.(*ssa.Store)
					if !ok {
						continue
					}
					_, f, ok := fieldAddrOf(st.Addr)
					if !ok || f == nil || f.Name() != s.Expiry {
						continue
					}
					call, ok := st.Val.(*ssa.Call)
					if !ok || !callsMethod(call, "(time.Time).Add") {
						continue
					}
					isNow := hasOrigin(fl.Origins(call.Call.Args[0]), func(o Origin) bool { return o.Kind == "call" && strings.Contains(o.Desc, "time.Now") })
					isTTL := hasOrigin(fl.Origins(call.Call.Args[1]), func(o Origin) bool { return o.Kind == "field" && o.Fld != nil && o.Fld.Name() == want })
					if isNow && isTTL {
						good = true
					}
				}
			}
			c.verdictIf(good, P, "ttl", "fn=(*"+s.Type+")."+name+" stamp", p.pos(fn.Pos()), "expiry = now + "+want, "entries are not stamped time.Now().Add("+want+")")
		}
	}

	// copy
	fl := newFlow(p)
	if get := p.Fn("(*AttrCache).Get"); get != nil {
		good := true
		for _, b := range get.Blocks {
			if b == get.Recover {
				continue
			}
			for _, in := range b.Instrs {
				if r, ok := in.(*ssa.Return); ok {
					v := retVal(r, 0)
					if isNilConst(v) {
						continue
					}
					// a record allocated in Get, nil, or a merge of the two (negative hit vs positive hit)
					var fresh func(v ssa.Value, d int) bool
					fresh = func(v ssa.Value, d int) bool {
						if isNilConst(v) {
							return true
						}
						if al, ok := v.(*ssa.Alloc); ok && al.Heap {
							return true
						}
						if phi, ok := v.(*ssa.Phi); ok && d < 4 {
							for _, e := range phi.Edges {
								if !fresh(e, d+1) {
									return false
								}
							}
							return true
						}
						return false
					}
					if !fresh(v, 0) {
						good = false
					}
				}
			}
		}
		c.verdictIf(good, P, "copy", "fn=(*AttrCache).Get returns-fresh", p.pos(get.Pos()), "returns a record allocated in Get", "Get hands out the cached record itself: a caller can modify what later lookups return")
	}
	if put := p.Fn("(*AttrCache).Put"); put != nil {
		good := false
		attrsFld := p.field("CachedAttrs", "attrs")
		for _, b := range put.Blocks {
			for _, in := range b.Instrs {
				if st, ok := in.(*ssa.Store); ok {
					if _, f, ok := fieldAddrOf(st.Addr); ok && f == attrsFld {
						if al, ok := st.Val.(*ssa.Alloc); ok && al.Heap {
							good = true
						}
					}
				}
			}
		}
		c.verdictIf(good, P, "copy", "fn=(*AttrCache).Put stores-fresh", p.pos(put.Pos()), "stores a private copy", "Put keeps the caller's record: later changes by the caller alter the cache")
	}
	for _, name := range []string{"Get", "Put"} {
		fn := p.Fn("(*DirCache)." + name)
		if fn == nil {
			continue
		}
		hasCopy := false
		for _, call := range calls(fn) {
			if bi, ok := call.Common().Value.(*ssa.Builtin); ok && bi.Name() == "copy" {
				if _, ok := call.Common().Args[0].(*ssa.MakeSlice); ok {
					hasCopy = true
				}
			}
		}
		good := hasCopy
		if good && name == "Get" {
			for _, b := range fn.Blocks {
				for _, in := range b.Instrs {
					if r, ok := in.(*ssa.Return); ok {
						v := retVal(r, 0)
						if isNilConst(v) {
							continue
						}
						if _, ok := v.(*ssa.MakeSlice); !ok {
							good = false
						}
					}
				}
			}
		}
		if good && name == "Put" {
			ef := p.field("CachedDirEntry", "entries")
			good = false
			for _, b := range fn.Blocks {
				for _, in := range b.Instrs {
					if st, ok := in.(*ssa.Store); ok {
						if _, f, ok := fieldAddrOf(st.Addr); ok && f == ef {
							if _, ok := st.Val.(*ssa.MakeSlice); ok {
								good = true
							}
						}
					}
				}
			}
		}
		c.verdictIf(good, P, "copy", "fn=(*DirCache)."+name+" copies-slice", p.pos(fn.Pos()), "slice is copied", "DirCache."+name+" shares the entries slice with its caller")
	}
	_ = fl

	// neg
	if pn := p.Fn("(*AttrCache).PutNegative"); pn != nil {
		en := p.field("AttrCache", "enableNegative")
		good := false
		for _, b := range pn.Blocks {
			for _, in := range b.Instrs {
				if mu, ok := in.(*ssa.MapUpdate); ok {
					if _, ok := isLoadOfField(mu.Map, "AttrCache", "cache"); ok {
						good = guardedBy(pn, b, func(f condFact) bool {
							// enabled (a copy read under RLock) true
							os := newFlow(p).Origins(f.V)
							return f.Val && allOrigins(os, func(o Origin) bool { return o.Kind == "field" && o.Fld == en })
						})
					}
				}
			}
		}
		c.verdictIf(good, P, "neg", "fn=(*AttrCache).PutNegative enabled-edge", p.pos(pn.Pos()), "stores only when negative caching is enabled", "negative entries can be created while negative caching is disabled")
	}
	if ind := p.Fn("(*AttrCache).InvalidateNegativeInDir"); ind != nil {
		good, unguarded := false, false
		isChild := p.Fn("isChildOf")
		for _, b := range ind.Blocks {
			for _, in := range b.Instrs {
				call, ok := in.(*ssa.Call)
				if !ok {
					continue
				}
				bi, isB := call.Call.Value.(*ssa.Builtin)
				if !isB {
					continue
				}
				// the selecting step: the append that collects a key, or a delete keyed directly by the map
				// iteration (single-pass form)
				selecting := bi.Name() == "append"
				if bi.Name() == "delete" && len(call.Call.Args) == 2 {
					if ex, isEx := unwrap(call.Call.Args[1]).(*ssa.Extract); isEx {
						if _, isNext := ex.Tuple.(*ssa.Next); isNext {
							selecting = true
						}
					}
				}
				if selecting {
					negOK, childOK := false, false
					for _, f := range p.facts(b) {
						if _, fld, ok := fieldLoad(f.V); ok && fld != nil && fld.Name() == "isNegative" && f.Val {
							negOK = true
						}
						if c2, ok := f.V.(*ssa.Call); ok && f.Val && staticCallee(c2) == isChild {
							if prm, ok := c2.Call.Args[1].(*ssa.Parameter); ok && paramIndex(ind, prm) == 1 {
								childOK = true
							}
						}
					}
					if negOK && childOK {
						good = true
					} else {
						unguarded = true
					}
				}
			}
		}
		good = good && !unguarded
		c.verdictIf(good, P, "neg", "fn=(*AttrCache).InvalidateNegativeInDir selection", p.pos(ind.Pos()), "selects isNegative && isChildOf(path, dir)", "InvalidateNegativeInDir does not select exactly the negative entries that are direct children of the directory")
	}
	runC21NegScan(c)
	// neg-off
	get := p.Fn("(*AttrCache).Get")
	cfg := p.Fn("(*AttrCache).ConfigureNegativeCaching")
	if get != nil && cfg != nil {
		en := p.field("AttrCache", "enableNegative")
		hitGuarded := false
		for _, b := range get.Blocks {
			for _, in := range b.Instrs {
				r, ok := in.(*ssa.Return)
				if !ok || len(r.Results) != 2 {
					continue
				}
				v0, v1 := retVal(r, 0), retVal(r, 1)
				k, isC := v1.(*ssa.Const)
				if isNilConst(v0) && isC && k.Value != nil && k.Value.String() == "true" {
					// negative hit return
					hitGuarded = guardedBy(get, b, func(f condFact) bool { _, fl, ok := fieldLoad(f.V); return ok && fl == en && f.Val })
				}
			}
		}
		purges := false
		for _, b := range cfg.Blocks {
			for _, in := range b.Instrs {
				if _, ok := isDeleteOn(in, "AttrCache", "cache"); ok {
					purges = true
				}
				if st, ok := in.(*ssa.Store); ok {
					if _, f, ok := fieldAddrOf(st.Addr); ok && f != nil && f.Name() == "cache" {
						purges = true
					}
				}
			}
		}
		c.verdictIf(hitGuarded || purges, P, "neg", "neg-off", p.pos(cfg.Pos()), "negative hits stop when negative caching is switched off",
			"switching negative caching off neither purges the negative entries nor stops Get from serving them: lookups keep answering 'not found' from entries that should no longer exist, until they expire")
	}
}

// listElemBelongsTo: the list element removed is the LRU element whose Value is the deleted key, or the entry's own listElement.
func listElemBelongsTo(p *Prog, elem ssa.Value, key ssa.Value) bool {
	fl := newFlow(p)
	// key derives from elem.Value (lruPath := lruElement.Value.(string))
	for _, o := range fl.Origins(key) {
		if o.Kind == "field" && o.Fld != nil && o.Fld.Name() == "Value" && o.Base != nil && sameValue(o.Base, elem) {
			return true
		}
	}
	return false
}

func evictsBack(p *Prog, fn *ssa.Function, start *ssa.BasicBlock, s cacheSpec) bool {
	seen := map[*ssa.BasicBlock]bool{}
	found := false
	var walk func(b *ssa.BasicBlock, d int)
	walk = func(b *ssa.BasicBlock, d int) {
		if seen[b] || d > 12 {
			return
		}
		seen[b] = true
		for _, in := range b.Instrs {
			if key, ok := isDeleteOn(in, s.Type, s.Map); ok {
				fl := newFlow(p)
				for _, o := range fl.Origins(key) {
					if o.Kind == "field" && o.Fld != nil && o.Fld.Name() == "Value" && o.Base != nil {
						if call, ok := o.Base.(*ssa.Call); ok && callsMethod(call, "(*container/list.List).Back") {
							found = true
						}
					}
				}
			}
		}
		for _, s2 := range b.Succs {
			walk(s2, d+1)
		}
	}
	walk(start, 0)
	return found
}

func checkTTLHit(p *Prog, get *ssa.Function, s cacheSpec) (bool, string) {
	// hit return: second result is constant true. Must be guarded by Now().Before(expiry)==true or Now().After(expiry)==false
	fl := newFlow(p)
	notExpired := func(f condFact) bool {
		call, ok := f.V.(*ssa.Call)
		if !ok {
			return false
		}
		callee := staticCallee(call)
		if callee == nil {
			return false
		}
		q := qualFn(callee)
		if q != "(time.Time).Before" && q != "(time.Time).After" {
			return false
		}
		isNow := hasOrigin(fl.Origins(call.Call.Args[0]), func(o Origin) bool { return o.Kind == "call" && strings.Contains(o.Desc, "time.Now") })
		isExp := hasOrigin(fl.Origins(call.Call.Args[1]), func(o Origin) bool { return o.Kind == "field" && o.Fld != nil && o.Fld.Name() == s.Expiry })
		if !isNow || !isExp {
			return false
		}
		return (q == "(time.Time).Before" && f.Val) || (q == "(time.Time).After" && !f.Val)
	}
	n := 0
	for _, b := range get.Blocks {
		if b == get.Recover {
			continue
		}
		for _, in := range b.Instrs {
			r, ok := in.(*ssa.Return)
			if !ok || len(r.Results) != 2 {
				continue
			}
			k, isC := retVal(r, 1).(*ssa.Const)
			if !isC || k.Value == nil || k.Value.String() != "true" {
				continue
			}
			n++
			if !guardedBy(get, b, notExpired) {
				return false, "a cache hit is returned at " + p.instrPos(in) + " without passing the not-expired edge of a comparison of the entry's " + s.Expiry + " with time.Now()"
			}
		}
	}
	if n == 0 {
		return false, "no hit return found"
	}
	return true, ""
}
