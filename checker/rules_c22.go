package main

import (
	"fmt"
	"go/token"
	"strings"

	"golang.org/x/tools/go/ssa"
)

func init() {
	register("C22",
		"Decided (the crash-point quantifier collapses to a path property at the server boundary): (sync) if any WRITE3resok path can put DATA_SYNC or FILE_SYNC in the committed word, then in the WRITE call tree every path from the success edge of the backend write to the function's normal return passes a durability point on the same file — File.Sync() whose error is propagated, or the file was opened with O_SYNC; if only UNSTABLE can be replied, the COMMIT call tree must pass a durability point before NFS3_OK; NFSNode.Sync (a stat) is not a durability point; (verf) Server.writeVerf is written only in NewServer from a non-constant source and the verifier words of WRITE3resok and COMMIT3resok are that field. Not decided: what a particular backend's Sync guarantees; uniqueness of the clock value between instances.",
		commonAssume, runC22)
	register("C23",
		"Decided by comparing what FSINFO says with what the handlers enforce: (wt) every comparison in the WRITE tree that refuses a request because its count exceeds X is collected; when X derives from the run-time-configurable TransferSize, the wtmax and wtpref words of FSINFO3resok must derive from the same field (a constant can never be <= every configured transfer size); when X is a constant, wtmax <= X; (record) every constant (or constant upper clamp) advertised as wtmax plus the largest WRITE call overhead the decoders admit (RPC header, two 400-byte auth bodies, 64-byte handle, offset/count/stable/length words = 928 bytes) fits in the 1 MiB record limit of ReadRecord, and a TransferSize-derived wtmax carries such a clamp. Not decided: that a READ before EOF returns at least one byte (needs TransferSize > 0, C24's clause); behaviour over a live connection.",
		commonAssume, runC23)
	register("C25",
		"Decided: every backend size-increasing operation on the request path — File.Write/WriteAt in the WRITE tree, Truncate in the SETATTR tree — is reachable from its procedure handler only across an edge of a comparison one of whose operands derives from PolicyOptions.MaxFileSize (the test exists on every path, including through wrappers), and the handler has a reply whose status is the constant NFS3ERR_FBIG on an edge controlled by such a comparison. Not decided: the boundary arithmetic (> versus >=, offset+count overflow).",
		commonAssume, runC25)
}


func runC22(c *Ctx) {
	p := c.P
	const P = "C22"
	runBackendIdentity(c, P)
	c.rule(P, "sync", "committed >= DATA_SYNC ⇒ durability point between the backend write and the acknowledgement on every path (else COMMIT must sync)", 1)
	c.rule(P, "verf", "writeVerf written only in NewServer from a non-constant; WRITE and COMMIT reply it", 3)
	ent, err := p.entrySet()
	if err != nil {
		c.undecided(P, "sync", "entries", "", err.Error())
		return
	}
	hw, hcm := ent.Handlers[7], ent.Handlers[21]
	if hw == nil || hcm == nil {
		c.undecided(P, "sync", "handlers", "", "WRITE/COMMIT handler missing")
		return
	}
	runC22AckOnSuccess(c, hw)
	// committed set
	maxCommitted := int64(-1)
	var commTok tok
	for _, rs := range okShapes(p, hw) {
		if len(rs.Toks) != 8 {
			continue
		}
		t := rs.Toks[6]
		vals := []int64{}
		if t.Const != nil {
			vals = append(vals, *t.Const)
		} else if vs, ok := statusConsts(p, t.Val, 0); ok {
			vals = vs
		} else {
			c.undecided(P, "sync", "slot=WRITE.committed", p.instrPos(t.Instr), "committed word is not a resolvable constant set")
			return
		}
		for _, v := range vals {
			if v > maxCommitted {
				maxCommitted = v
				commTok = t
			}
		}
	}
	if maxCommitted < 0 {
		c.undecided(P, "sync", "slot=WRITE.committed", p.pos(hw.Pos()), "no WRITE3resok reply found")
		return
	}
	isSync := func(in ssa.Instruction) bool {
		ci, ok := in.(ssa.CallInstruction)
		if !ok {
			return false
		}
		bc := asBackendCall(ci)
		return bc != nil && bc.OnFile && bc.Method == "Sync"
	}
	durableTree := func(root *ssa.Function, needWrite bool) (bool, string) {
		reach := p.reachableFrom([]*ssa.Function{root})
		fl := newFlow(p)
		nSites := 0
		for _, fn := range p.SrcFuncs {
			if !reach[fn] {
				continue
			}
			for _, call := range calls(fn) {
				bc := asBackendCall(call)
				if bc == nil || !bc.OnFile {
					continue
				}
				if needWrite && !(bc.Method == "WriteAt" || bc.Method == "Write" || bc.Method == "WriteString") {
					continue
				}
				if !needWrite {
					continue
				}
				nSites++
				// O_SYNC open?
				osync := false
				for _, o := range fl.Origins(call.Common().Value) {
					if o.Kind == "call" && o.Call != nil {
						if b2 := asBackendCall(o.Call); b2 != nil && b2.Method == "OpenFile" {
							if flg, ok := openFlagConst(o.Call); ok && flg&oSYNC == oSYNC {
								osync = true
							}
						}
					}
				}
				if osync {
					continue
				}
				sp := followSpec{Fn: fn, Closes: func(in ssa.Instruction) bool {
					if !isSync(in) {
						return false
					}
					return sameValue(in.(ssa.CallInstruction).Common().Value, call.Common().Value)
				}, ExitOK: func(r *ssa.Return) bool {
					last := retVal(r, len(r.Results)-1)
					return !isNilConst(last) && knownNonNil(p, last, r.Block())
				}}
				if succ, _, ok := errSuccessEdge(call); ok {
					sp.Start = []*ssa.BasicBlock{succ}
				} else {
					sp.From = call
				}
				if res := follow(sp); !res.OK {
					return false, fmt.Sprintf("%s at %s is acknowledged without a durability point: no File.Sync() on that file (and no O_SYNC open) between the write and the reply — after a crash that discards unsynced data the acknowledged bytes are gone", shortCallee(call), p.instrPos(call))
				}
			}
		}
		if nSites == 0 {
			return false, "no backend write found in the tree"
		}
		return true, ""
	}
	if maxCommitted >= 1 {
		ok, why := durableTree(hw, true)
		c.verdictIf(ok, P, "sync", "tree=WRITE committed>=DATA_SYNC", p.instrPos(commTok.Instr), "every acknowledged write is synced first", fmt.Sprintf("WRITE3resok reports committed=%d (stable) but %s", maxCommitted, why))
	} else {
		// UNSTABLE only: COMMIT must sync
		reach := p.reachableFrom([]*ssa.Function{hcm})
		found := false
		for _, fn := range p.SrcFuncs {
			if reach[fn] {
				for _, call := range calls(fn) {
					if isSync(call) {
						found = true
					}
				}
			}
		}
		c.verdictIf(found, P, "sync", "tree=COMMIT syncs", p.pos(hcm.Pos()), "COMMIT reaches File.Sync", "WRITE replies UNSTABLE and COMMIT never reaches a File.Sync: data covered by a successful COMMIT can be lost")
	}

	// verf
	vf := p.field("Server", "writeVerf")
	n := 0
	for _, fn := range p.SrcFuncs {
		for _, b := range fn.Blocks {
			for _, in := range b.Instrs {
				// any use of &s.writeVerf that writes: stores, or calls receiving a slice of it (PutUint64, copy)
				fa, ok := in.(*ssa.FieldAddr)
				if !ok || fieldOf(fa.X.Type(), fa.Field) != vf {
					continue
				}
				for _, r := range *fa.Referrers() {
					sl, ok := r.(*ssa.Slice)
					if !ok {
						continue
					}
					for _, r2 := range *sl.Referrers() {
						ci, ok := r2.(ssa.CallInstruction)
						if !ok {
							continue
						}
						callee := staticCallee(ci)
						if callee == nil {
							continue
						}
						q := qualFn(callee)
						if q == "(*bytes.Buffer).Write" {
							continue // read
						}
						n++
						key := fmt.Sprintf("write=%s:writeVerf#%d", fnKey(fn), n)
						nonConst := false
						if len(ci.Common().Args) > 1 {
							for _, o := range newFlow(p).Origins(ci.Common().Args[len(ci.Common().Args)-1]) {
								if o.Kind == "call" && (strings.Contains(o.Desc, "time.Now") || strings.Contains(o.Desc, "UnixNano") || strings.Contains(o.Desc, "rand")) {
									nonConst = true
								}
							}
						}
						c.verdictIf(fnKey(fn) == "NewServer" && nonConst, P, "verf", key, p.instrPos(r2), "set once in NewServer from a per-instance source", "the write verifier is (re)written outside NewServer or from a constant: it changes during an instance's life or is the same across instances")
					}
				}
			}
		}
	}
	if n == 0 {
		c.bad(P, "verf", "write=none", "", "writeVerf is never initialised: every instance replies the same all-zero verifier")
	}
	for name, h := range map[string]*ssa.Function{"WRITE": hw, "COMMIT": hcm} {
		good := false
		for _, rs := range okShapes(p, h) {
			for _, t := range rs.Toks {
				if t.Kind == "V8" {
					if _, f, ok := fieldAddrOf(t.Val); ok && f == vf {
						good = true
					}
				}
			}
		}
		c.verdictIf(good, P, "verf", "slot="+name+".verf", p.pos(h.Pos()), "reply carries Server.writeVerf", name+"3resok does not carry the server's write verifier")
	}
}

func runC23(c *Ctx) {
	p := c.P
	const P = "C23"
	runTransferPositive(c, P)
	c.rule(P, "wt", "a WRITE refusal bound that derives from TransferSize ⇒ FSINFO wtmax/wtpref derive from TransferSize; constant bound ⇒ wtmax <= bound", 2)
	c.rule(P, "record", "advertised wtmax (constant or clamp) + 928 bytes of call overhead <= 1 MiB record limit", 1)
	runC23RecordLimit(c)
	ent, err := p.entrySet()
	if err != nil {
		c.undecided(P, "wt", "entries", "", err.Error())
		return
	}
	hw, hf := ent.Handlers[7], ent.Handlers[19]
	if hw == nil || hf == nil {
		c.undecided(P, "wt", "handlers", "", "WRITE/FSINFO handler missing")
		return
	}
	runC23CountRaw(c, hw)
	fl := newFlow(p)
	// refusing bounds on the wire count in handleWrite
	type bound struct {
		fromTS bool
		k      *int64
		at     ssa.Instruction
	}
	var bounds []bound
	for _, b := range hw.Blocks {
		ifi := blockIf(b)
		if ifi == nil {
			continue
		}
		bo, ok := ifi.Cond.(*ssa.BinOp)
		if !ok || bo.Op != token.GTR {
			continue
		}
		cntWire := hasOrigin(fl.Origins(bo.X), func(o Origin) bool { return o.Kind == "outparam" && strings.Contains(o.Desc, "binary.Read") })
		if !cntWire || !rejectEdgeFrom(p, b, b.Succs[0], false) {
			continue
		}
		// the rejected operand must be the count (32-bit), not the offset overflow test
		if bt := bo.X.Type().String(); bt != "uint32" {
			continue
		}
		os := fl.Origins(bo.Y)
		bd := bound{at: ifi}
		if hasOrigin(os, func(o Origin) bool { return o.Kind == "field" && o.Fld != nil && o.Fld.Name() == "TransferSize" }) {
			bd.fromTS = true
		} else if k, isC := constInt(bo.Y); isC {
			bd.k = &k
		} else if k, isC := constInt(unwrap(bo.Y)); isC {
			bd.k = &k
		} else {
			continue
		}
		bounds = append(bounds, bd)
	}
	// FSINFO slots
	var wtmax, wtpref tok
	found := false
	for _, rs := range okShapes(p, hf) {
		if len(rs.Toks) >= 10 {
			wtmax, wtpref = rs.Toks[6], rs.Toks[7]
			found = true
		}
	}
	if !found {
		c.undecided(P, "wt", "slot=FSINFO", p.pos(hf.Pos()), "no FSINFO3resok-shaped reply")
		return
	}
	slotFromTS := func(t tok) bool {
		return t.Val != nil && hasOrigin(fl.Origins(t.Val), func(o Origin) bool { return o.Kind == "field" && o.Fld != nil && o.Fld.Name() == "TransferSize" })
	}
	if len(bounds) == 0 {
		c.ok(P, "wt", "tree=WRITE no-refusing-bound", p.pos(hw.Pos()), "WRITE refuses no count")
	}
	for i, bd := range bounds {
		for _, sl := range []struct {
			name string
			t    tok
		}{{"wtmax", wtmax}, {"wtpref", wtpref}} {
			key := fmt.Sprintf("bound#%d slot=FSINFO.%s", i+1, sl.name)
			if bd.fromTS {
				if slotFromTS(sl.t) {
					if okMono, at := nonIncreasing(sl.t.Val, 0); !okMono {
						pos := p.instrPos(sl.t.Instr)
						if in, isIn := at.(ssa.Instruction); isIn {
							pos = p.instrPos(in)
						}
						c.bad(P, "wt", key, pos, fmt.Sprintf("FSINFO %s is computed from TransferSize by an operation that can enlarge it (rounding up, adding, scaling), while WRITE refuses count > TransferSize (at %s): for some configured sizes the advertised maximum is refused", sl.name, p.instrPos(bd.at)))
						continue
					}
				}
				c.verdictIf(slotFromTS(sl.t), P, "wt", key, p.instrPos(sl.t.Instr), "advertisement follows TransferSize and is never enlarged",
					fmt.Sprintf("WRITE refuses count > TransferSize (at %s) but FSINFO advertises %s as a value that does not depend on TransferSize: with the default 64 KiB transfer size a client that trusts the advertised maximum gets NFS3ERR_INVAL", p.instrPos(bd.at), sl.name))
			} else if bd.k != nil {
				okv := sl.t.Const != nil && *sl.t.Const <= *bd.k
				c.verdictIf(okv, P, "wt", key, p.instrPos(sl.t.Instr), "advertised value within the enforced bound", fmt.Sprintf("FSINFO %s exceeds the constant bound %d WRITE enforces", sl.name, *bd.k))
			}
		}
	}
	// record
	const overhead = 24 + 8 + 400 + 8 + 400 + 4 + 64 + 8 + 4 + 4 + 4
	limit := int64(1 << 20)
	if v, ok := p.constVal("DefaultMaxRecordSize"); ok {
		limit = v
	}
	maxAdv := int64(-1)
	if wtmax.Const != nil {
		maxAdv = *wtmax.Const
	} else if wtmax.Val != nil {
		// constant upper clamp among the origins
		for _, o := range fl.Origins(wtmax.Val) {
			if o.Kind == "const" {
				if k, ok := constInt(o.Val); ok && k > maxAdv {
					maxAdv = k
				}
			}
		}
		// a clamp must exist as a controlling comparison on the slot value
		if maxAdv < 0 {
			c.bad(P, "record", "slot=FSINFO.wtmax", p.instrPos(wtmax.Instr), "wtmax follows TransferSize without an upper clamp: a large configured transfer size advertises writes that cannot fit in one record")
			return
		}
	}
	c.verdictIf(maxAdv >= 0 && maxAdv+overhead <= limit, P, "record", "slot=FSINFO.wtmax", p.instrPos(wtmax.Instr), fmt.Sprintf("%d + %d <= %d", maxAdv, overhead, limit),
		fmt.Sprintf("advertised wtmax %d plus up to %d bytes of RPC/WRITE argument overhead exceeds the %d-byte record limit of ReadRecord: a maximal WRITE the server invited is rejected as an oversized record and the connection is dropped", maxAdv, overhead, limit))
}

func runC25(c *Ctx) {
	p := c.P
	const P = "C25"
	c.rule(P, "guard", "size-increasing backend operations are reachable only across a comparison involving PolicyOptions.MaxFileSize", 2)
	c.rule(P, "fbig", "WRITE and SETATTR have an NFS3ERR_FBIG reply on an edge controlled by a MaxFileSize comparison", 2)
	ent, err := p.entrySet()
	if err != nil {
		c.undecided(P, "guard", "entries", "", err.Error())
		return
	}
	mfs := p.field("PolicyOptions", "MaxFileSize")
	if mfs == nil {
		c.undecided(P, "guard", "binding:PolicyOptions.MaxFileSize", "", "field not found")
		return
	}
	fl := newFlow(p)
	involvesMax := func(f condFact) bool {
		bo, ok := f.V.(*ssa.BinOp)
		if !ok {
			return false
		}
		for _, v := range []ssa.Value{bo.X, bo.Y} {
			if hasOrigin(fl.Origins(v), func(o Origin) bool { return o.Kind == "field" && o.Fld == mfs }) {
				return true
			}
		}
		return false
	}
	// "set at construction or at runtime": the limit only binds if an accepted policy update is stored
	// (borrowed from C16: every successful return of UpdatePolicyOptions has stored the new policy)
	savedOnly := c.Only
	c.Only = map[string]bool{"swap": true}
	runC16As(c, P)
	c.Only = savedOnly
	runC25Edges(c, ent, mfs, func(v ssa.Value) bool {
		return hasOrigin(fl.Origins(v), func(o Origin) bool { return o.Kind == "field" && o.Fld == mfs })
	})
	for _, spec := range []struct {
		proc    uint32
		methods map[string]bool
		onFile  bool
	}{
		{7, map[string]bool{"WriteAt": true, "Write": true, "WriteString": true}, true},
		{2, map[string]bool{"Truncate": true}, false},
	} {
		h := ent.Handlers[spec.proc]
		if h == nil {
			c.undecided(P, "guard", "proc="+procNames[spec.proc], "", "no handler")
			continue
		}
		reach := p.reachableFrom([]*ssa.Function{h})
		isEntry := map[*ssa.Function]bool{h: true}
		n := 0
		for _, fn := range p.SrcFuncs {
			if !reach[fn] {
				continue
			}
			for _, call := range calls(fn) {
				bc := asBackendCall(call)
				if bc == nil || !spec.methods[bc.Method] {
					continue
				}
				n++
				key := fmt.Sprintf("sink=%s:%s#%d", fnKey(fn), shortCallee(call), ordinal(fn, call))
				r := p.liftGuard(fn, call, involvesMax, isEntry, reach)
				c.verdictIf(r.Guarded && !r.Unreached, P, "guard", key, p.instrPos(call), "behind a MaxFileSize comparison",
					procNames[spec.proc]+" can grow a file without the configured MaxFileSize ever being compared with the request: chain "+strings.Join(r.Chain, " -> "))
			}
		}
		if n == 0 {
			c.undecided(P, "guard", "proc="+procNames[spec.proc], p.pos(h.Pos()), "no size-increasing backend call found in the tree")
		}
		// FBIG reply controlled by the comparison
		shapes, _ := p.handlerReplies(h)
		fb := false
		for _, rs := range shapes {
			for _, v := range rs.StatusSet {
				if v == 27 && rs.At != nil && len(rs.StatusSet) == 1 {
					for _, f := range p.facts(rs.At.Block()) {
						if involvesMax(f) {
							fb = true
						}
					}
				}
			}
		}
		if !fb {
			// alternative: a callee returns syscall.EFBIG on the over-limit edge and the handler's error
			// mapping can turn it into status 27
			canMap := false
			for _, rs := range shapes {
				for _, v := range rs.StatusSet {
					if v == 27 {
						canMap = true
					}
				}
			}
			for _, fn := range p.SrcFuncs {
				if !reach[fn] || !canMap {
					continue
				}
				for _, b := range fn.Blocks {
					r, ok := b.Instrs[len(b.Instrs)-1].(*ssa.Return)
					if !ok || len(r.Results) == 0 {
						continue
					}
					mi, ok := retVal(r, len(r.Results)-1).(*ssa.MakeInterface)
					if !ok || !strings.HasSuffix(mi.X.Type().String(), "syscall.Errno") {
						continue
					}
					if k, isC := constInt(mi.X); !isC || k != eFBIG {
						continue
					}
					for _, f := range p.facts(b) {
						if involvesMax(f) {
							fb = true
						}
					}
				}
			}
		}
		c.verdictIf(fb, P, "fbig", "proc="+procNames[spec.proc], p.pos(h.Pos()), "NFS3ERR_FBIG on the over-limit edge", procNames[spec.proc]+" has no NFS3ERR_FBIG reply controlled by a MaxFileSize comparison")
	}
}
