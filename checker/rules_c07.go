package main

import (
	"fmt"
	"go/token"
	"strings"

	"golang.org/x/tools/go/ssa"
)

func init() {
	register("C07",
		"Decided: (path) for every backend call on the request path that takes a path, the argument is built only from a handle's stored path, or that path joined (path.Join / filepath.Join / sanitizePath) with one name that is either validated — the join is reachable only across the `validateFilename(name) == NFS3_OK` edge for that same value — or passed through sanitizePath; MNT's path is path.Clean of the wire string behind the absolute-path test; parameters are resolved over all request-path call sites; NFSNode.path is only ever written with such values; (validator) validateFilename and sanitizePath each contain, for every item of the property's list (empty, >255 bytes, '/', '\\', NUL, '.', '..'), a test whose true edge returns a non-OK status / an error; (symlink) the target handed to the backend Symlink is the raw wire string and reaches the call only across the false edge of HasPrefix(target, \"/\") and past a rejection of any \"..\" element of strings.Split(target, \"/\") (or strings.Contains(target, \"..\")) applied to that same raw value; READLINK returns a relative target only past the same test. Not decided: nothing of the statement except what a backend does with a clean path.",
		commonAssume, runC07)
}

type pathChecker struct {
	p     *Prog
	reach map[*ssa.Function]bool
	memo  map[ssa.Value]string // "" = ok
	vf    *ssa.Function        // validateFilename
	depth int
}

func (pc *pathChecker) isValidateOK(f condFact, name ssa.Value) bool {
	op, l, r, ok := normCmp(f)
	if !ok || op != "==" {
		return false
	}
	isVF := func(v ssa.Value) bool {
		call, ok := v.(*ssa.Call)
		if !ok {
			return false
		}
		callee := staticCallee(call)
		return callee != nil && callee == pc.vf && sameValue(call.Call.Args[0], name)
	}
	if isVF(l) {
		k, isC := constInt(r)
		return isC && k == 0
	}
	if isVF(r) {
		k, isC := constInt(l)
		return isC && k == 0
	}
	return false
}

func sameValue(a, b ssa.Value) bool {
	return a == b || mkExpr(a).equal(mkExpr(b))
}

// nameOK: the name component is validated at the point of use.
func (pc *pathChecker) nameOK(n ssa.Value, fn *ssa.Function, at *ssa.BasicBlock, viaSanitize bool, depth int) string {
	if viaSanitize {
		return "" // sanitizePath validates its own argument (checked by C07/validator)
	}
	if depth > 8 {
		return "depth limit"
	}
	if sv, ok := n.(*ssa.UnOp); ok && sv.Op == token.MUL {
		if s := singleStore(sv.X); s != nil {
			n = s
		}
	}
	switch x := n.(type) {
	case *ssa.Parameter:
		idx := paramIndex(x.Parent(), x)
		cnt := 0
		for _, cs := range pc.p.callers[x.Parent()] {
			if !pc.reach[cs.Caller] {
				continue
			}
			cnt++
			args := cs.Instr.Common().Args
			if idx >= len(args) {
				return "argument missing"
			}
			if why := pc.nameOK(args[idx], cs.Caller, cs.Instr.Block(), false, depth+1); why != "" {
				return why
			}
		}
		if cnt == 0 {
			return "name parameter of a function with no request-path caller"
		}
		return ""
	case *ssa.Extract, *ssa.Call:
		// wire string: must be validated on all paths to `at`
		if guardedBy(fn, at, func(f condFact) bool { return pc.isValidateOK(f, n) }) {
			return ""
		}
		return fmt.Sprintf("name %s (%s) reaches the path join without crossing a validateFilename(...)==NFS3_OK edge for that value", n.Name(), strings.Join(originDescs(newFlow(pc.p).Origins(n)), ","))
	case *ssa.Const:
		return ""
	}
	return "unrecognised name origin " + n.String()
}

func (pc *pathChecker) pathOK(v ssa.Value, fn *ssa.Function, at *ssa.BasicBlock, depth int) string {
	if depth > 10 {
		return "depth limit"
	}
	v = unwrapCT(v)
	if base, f, ok := fieldLoad(v); ok && f != nil && f.Name() == "path" && recvTypeName(base.Type()) == "NFSNode" {
		return ""
	}
	switch x := v.(type) {
	case *ssa.UnOp:
		if x.Op == token.MUL {
			if s := singleStore(x.X); s != nil {
				return pc.pathOK(s, fn, at, depth+1)
			}
		}
	case *ssa.Phi:
		for _, e := range x.Edges {
			if why := pc.pathOK(e, fn, at, depth+1); why != "" {
				return why
			}
		}
		return ""
	case *ssa.Parameter:
		idx := paramIndex(x.Parent(), x)
		cnt := 0
		for _, cs := range pc.p.callers[x.Parent()] {
			if !pc.reach[cs.Caller] {
				continue
			}
			cnt++
			args := cs.Instr.Common().Args
			if idx >= len(args) {
				return "argument missing at " + pc.p.instrPos(cs.Instr)
			}
			if why := pc.pathOK(args[idx], cs.Caller, cs.Instr.Block(), depth+1); why != "" {
				return why + " (via " + fnKey(cs.Caller) + ")"
			}
		}
		if cnt == 0 {
			return "path parameter of a function with no request-path caller"
		}
		return ""
	case *ssa.Extract:
		if call, ok := x.Tuple.(*ssa.Call); ok && x.Index == 0 {
			return pc.callPath(call, fn, at, depth)
		}
	case *ssa.Call:
		return pc.callPath(x, fn, at, depth)
	}
	return "path value " + v.Name() + " = " + v.String() + " is not derived from a handle path and validated names"
}

func unwrapCT(v ssa.Value) ssa.Value {
	for {
		if c, ok := v.(*ssa.ChangeType); ok {
			v = c.X
			continue
		}
		return v
	}
}

func (pc *pathChecker) callPath(call *ssa.Call, fn *ssa.Function, at *ssa.BasicBlock, depth int) string {
	callee := staticCallee(call)
	if callee == nil {
		return "dynamic call result used as path"
	}
	q := qualFn(callee)
	args := variadicArgs(call)
	switch q {
	case "path.Join", "path/filepath.Join", absnfsPath + ".sanitizePath":
		if len(args) != 2 {
			return "join with " + fmt.Sprint(len(args)) + " elements"
		}
		if why := pc.pathOK(args[0], fn, at, depth+1); why != "" {
			return why
		}
		return pc.nameOK(args[1], fn, at, q == absnfsPath+".sanitizePath", depth+1)
	case "path.Clean", "path/filepath.Clean", "path/filepath.ToSlash":
		if why := pc.pathOK(args[0], fn, at, depth+1); why == "" {
			return ""
		}
		// MNT: Clean(wire) behind the absolute-path test on the cleaned value
		okAbs := guardedBy(fn, at, func(f condFact) bool {
			if c2, ok := f.V.(*ssa.Call); ok && f.Val {
				if cc := staticCallee(c2); cc != nil && qualFn(cc) == "strings.HasPrefix" {
					if s, ok := constStr(argN(c2, 1)); ok && s == "/" && c2.Call.Args[0] == ssa.Value(call) {
						return true
					}
				}
			}
			op, l, r, ok := normCmp(f)
			if ok && op == "==" {
				if s, isS := constStr(r); isS && s == "/" && l == ssa.Value(call) {
					return true
				}
			}
			return false
		})
		if okAbs && fnKey(fn) == "(*NFSProcedureHandler).handleMountCall" {
			return ""
		}
		return "path.Clean of a value that is neither a handle path nor (in MNT) guarded by the absolute-path test"
	}
	return "result of " + shortQual(q) + " used as path"
}

func runC07(c *Ctx) {
	p := c.P
	const P = "C07"
	c.rule(P, "path", "T-FLOW taint: every path argument of a backend call on the request path is a handle path, or Join/sanitizePath(handle path, validated name), or MNT's cleaned absolute path", 20)
	c.rule(P, "node-path", "NFSNode.path is only written with values that satisfy the path rule", 1)
	c.rule(P, "validator", "validateFilename / sanitizePath reject each listed component form on an edge that returns non-OK", 12)
	c.rule(P, "symlink", "backend Symlink target = raw wire string behind !HasPrefix(target,\"/\") and a rejection of any \"..\" element of Split(target,\"/\"); READLINK likewise for relative targets", 2)

	ent, err := p.entrySet()
	if err != nil {
		c.undecided(P, "path", "entries", "", err.Error())
		return
	}
	reach := p.reachableFrom(ent.procEntries())
	pc := &pathChecker{p: p, reach: reach, vf: p.Fn("validateFilename")}
	if pc.vf == nil {
		c.undecided(P, "path", "binding:validateFilename", "", "not found")
		return
	}
	pathArgs := func(bc *backendCall) []int {
		if bc.OnFile {
			return nil
		}
		switch bc.Method {
		case "Rename":
			return []int{0, 1}
		case "Symlink":
			return []int{1}
		case "Getwd", "TempDir":
			return nil
		}
		return []int{0}
	}
	for _, fn := range p.SrcFuncs {
		if !reach[fn] {
			continue
		}
		for _, call := range calls(fn) {
			bc := asBackendCall(call)
			if bc == nil {
				continue
			}
			for _, i := range pathArgs(bc) {
				args := call.Common().Args
				if i >= len(args) {
					continue
				}
				key := fmt.Sprintf("sink=%s:%s#%d arg%d", fnKey(fn), shortCallee(call), ordinal(fn, call), i)
				why := pc.pathOK(args[i], fn, call.Block(), 0)
				c.verdictIf(why == "", P, "path", key, p.instrPos(call), "clean in-export path", "backend receives a path that is not provably handle-path + validated name: "+why)
			}
		}
	}
	// NFSNode.path writers
	pathFld := p.field("NFSNode", "path")
	n := 0
	for _, fn := range p.SrcFuncs {
		if !reach[fn] {
			continue
		}
		for _, b := range fn.Blocks {
			for _, in := range b.Instrs {
				st, ok := in.(*ssa.Store)
				if !ok {
					continue
				}
				_, f, isFA := fieldAddrOf(st.Addr)
				if !isFA || f != pathFld {
					continue
				}
				n++
				key := fmt.Sprintf("store=%s:NFSNode.path#%d", fnKey(fn), n)
				why := pc.pathOK(st.Val, fn, b, 0)
				c.verdictIf(why == "", P, "node-path", key, p.instrPos(in), "handle paths are built from clean paths", "a handle can be created for a path that is not clean/in-export: "+why)
			}
		}
	}

	runValidatorTable(c)
	runSymlinkRule(c, ent, reach)
}

// ---------------------------------------------------------------------------

// rejectEdgeOK: from block b every path returns a rejecting value (non-zero
// const status, or non-nil error as last result).
func rejectEdgeOK(p *Prog, b *ssa.BasicBlock, errStyle bool) bool {
	return rejectEdgeFrom(p, nil, b, errStyle)
}

// rejectEdgeFrom is rejectEdgeOK for the edge from→b: the walk knows the value every boolean phi took on
// the edges it came by (feasible.go), so a rejection that sets a flag and tests it after a join still counts.
func rejectEdgeFrom(p *Prog, from, b *ssa.BasicBlock, errStyle bool) bool {
	return allPathsFrom(from, b, func(b *ssa.BasicBlock) (bool, bool) {
		for _, in := range b.Instrs {
			if r, ok := in.(*ssa.Return); ok {
				if errStyle {
					last := retVal(r, len(r.Results)-1)
					return true, !isNilConst(last)
				}
				if call, ok := retVal(r, 0).(*ssa.Call); ok {
					if f := staticCallee(call); f != nil && strings.HasPrefix(f.Name(), "nfsError") {
						k, isC := constInt(argN(call, 1))
						return true, isC && k != 0
					}
				}
				k, isC := constInt(retVal(r, 0))
				return true, isC && k != 0
			}
		}
		return false, false
	})
}

type nameTest struct {
	Name  string
	Match func(p *Prog, cond ssa.Value, subject ssa.Value) bool
}

func isLenOf(v, subject ssa.Value) bool {
	call, ok := unwrap(v).(*ssa.Call)
	if !ok {
		return false
	}
	b, ok := call.Call.Value.(*ssa.Builtin)
	return ok && b.Name() == "len" && call.Call.Args[0] == subject
}

func stringsCallWith(cond ssa.Value, subject ssa.Value, fns []string, needle func(string) bool) bool {
	call, ok := cond.(*ssa.Call)
	if !ok {
		return false
	}
	f := staticCallee(call)
	if f == nil {
		return false
	}
	q := qualFn(f)
	found := false
	for _, n := range fns {
		if q == n {
			found = true
		}
	}
	if !found || len(call.Call.Args) < 2 || call.Call.Args[0] != subject {
		return false
	}
	if s, ok := constStr(argN(call, 1)); ok {
		return needle(s)
	}
	if k, ok := constInt(argN(call, 1)); ok { // rune
		return needle(string(rune(k)))
	}
	return false
}

var nameTests = []nameTest{
	{"empty", func(p *Prog, cond, s ssa.Value) bool {
		if bo, ok := cond.(*ssa.BinOp); ok && bo.Op == token.EQL && bo.X == s {
			if str, ok := constStr(bo.Y); ok && str == "" {
				return true
			}
		}
		if bo, ok := cond.(*ssa.BinOp); ok && bo.Op == token.EQL && isLenOf(bo.X, s) {
			if k, ok := constInt(bo.Y); ok && k == 0 {
				return true
			}
		}
		return false
	}},
	{"dot", func(p *Prog, cond, s ssa.Value) bool {
		if bo, ok := cond.(*ssa.BinOp); ok && bo.Op == token.EQL && bo.X == s {
			str, ok := constStr(bo.Y)
			return ok && str == "."
		}
		return false
	}},
	{"dotdot", func(p *Prog, cond, s ssa.Value) bool {
		if bo, ok := cond.(*ssa.BinOp); ok && bo.Op == token.EQL && bo.X == s {
			str, ok := constStr(bo.Y)
			return ok && str == ".."
		}
		return false
	}},
	{"slash", func(p *Prog, cond, s ssa.Value) bool {
		return stringsCallWith(cond, s, []string{"strings.Contains", "strings.ContainsAny", "strings.ContainsRune"}, func(n string) bool { return strings.Contains(n, "/") })
	}},
	{"backslash", func(p *Prog, cond, s ssa.Value) bool {
		return stringsCallWith(cond, s, []string{"strings.Contains", "strings.ContainsAny", "strings.ContainsRune"}, func(n string) bool { return strings.Contains(n, "\\") })
	}},
}

func runValidatorTable(c *Ctx) {
	p := c.P
	const P = "C07"
	check := func(fnName string, subjectParam int, errStyle bool, tests []nameTest, extra func(fn *ssa.Function, subject ssa.Value)) {
		fn := p.Fn(fnName)
		if fn == nil {
			c.undecided(P, "validator", "fn="+fnName, "", "not found")
			return
		}
		subject := ssa.Value(fn.Params[subjectParam])
		for _, t := range tests {
			found := false
			for _, b := range fn.Blocks {
				ifi := blockIf(b)
				if ifi == nil {
					continue
				}
				cond, neg := stripNot(ifi.Cond)
				if !t.Match(p, cond, subject) {
					continue
				}
				rej := b.Succs[0]
				if neg {
					rej = b.Succs[1]
				}
				if rejectEdgeFrom(p, b, rej, errStyle) {
					found = true
				}
			}
			c.verdictIf(found, P, "validator", "fn="+fnName+" rejects="+t.Name, p.pos(fn.Pos()), "rejected", fnName+" has no test of its name argument for '"+t.Name+"' whose true edge returns a rejection")
		}
		if extra != nil {
			extra(fn, subject)
		}
	}
	check("validateFilename", 0, false, nameTests, func(fn *ssa.Function, s ssa.Value) {
		// > 255 and NUL
		long, nul := false, false
		for _, b := range fn.Blocks {
			ifi := blockIf(b)
			if ifi == nil {
				continue
			}
			cond, _ := stripNot(ifi.Cond)
			if bo, ok := cond.(*ssa.BinOp); ok && bo.Op == token.GTR && isLenOf(bo.X, s) {
				if k, ok := constInt(bo.Y); ok && k == 255 && rejectEdgeFrom(p, b, b.Succs[0], false) {
					long = true
				}
			}
			if bo, ok := cond.(*ssa.BinOp); ok && bo.Op == token.GEQ && isLenOf(bo.X, s) {
				if k, ok := constInt(bo.Y); ok && k == 256 && rejectEdgeFrom(p, b, b.Succs[0], false) {
					long = true
				}
			}
			if stringsCallWith(cond, s, []string{"strings.Contains", "strings.ContainsAny", "strings.ContainsRune"}, func(n string) bool { return strings.Contains(n, "\x00") }) && rejectEdgeFrom(p, b, b.Succs[0], false) {
				nul = true
			}
		}
		c.verdictIf(long, P, "validator", "fn=validateFilename rejects=len>255", p.pos(fn.Pos()), "rejected", "no `len(name) > 255` test with a rejecting true edge")
		c.verdictIf(nul, P, "validator", "fn=validateFilename rejects=NUL", p.pos(fn.Pos()), "rejected", "no NUL-byte test with a rejecting true edge")
	})
	check("sanitizePath", 1, true, nameTests, nil)
	// xdrDecodeString: NUL
	xs := p.Fn("xdrDecodeString")
	if xs == nil {
		c.undecided(P, "validator", "fn=xdrDecodeString", "", "not found")
		return
	}
	nul := false
	for _, b := range xs.Blocks {
		ifi := blockIf(b)
		if ifi == nil {
			continue
		}
		cond, _ := stripNot(ifi.Cond)
		if call, ok := cond.(*ssa.Call); ok {
			if f := staticCallee(call); f != nil && strings.HasPrefix(qualFn(f), "strings.Contains") {
				isNul := false
				if k, ok := constInt(argN(call, 1)); ok && k == 0 {
					isNul = true
				}
				if s, ok := constStr(argN(call, 1)); ok && s == "\x00" {
					isNul = true
				}
				if isNul && rejectEdgeFrom(p, b, b.Succs[0], true) {
					nul = true
				}
			}
		}
	}
	c.verdictIf(nul, P, "validator", "fn=xdrDecodeString rejects=NUL", p.pos(xs.Pos()), "rejected", "decoded strings containing NUL are not rejected")
}

// ---------------------------------------------------------------------------

// dotDotRejected: in fn there is a test on `raw` — an element of
// strings.Split(raw, "/") compared with "..", or strings.Contains(raw, "..") —
// whose true edge rejects, and whose Split/Contains block dominates `at`.
func dotDotRejected(p *Prog, fn *ssa.Function, raw ssa.Value, at *ssa.BasicBlock, errStyle bool) bool {
	fl := newFlow(p)
	for _, b := range fn.Blocks {
		ifi := blockIf(b)
		if ifi == nil {
			continue
		}
		cond, neg := stripNot(ifi.Cond)
		rej := b.Succs[0]
		if neg {
			rej = b.Succs[1]
		}
		if stringsCallWith(cond, raw, []string{"strings.Contains"}, func(n string) bool { return n == ".." }) {
			if rejectEdgeFrom(p, b, rej, errStyle) && (b == at || b.Dominates(at)) {
				return true
			}
		}
		// slices.Contains(strings.Split(raw, "/"), "..")
		if call, ok := cond.(*ssa.Call); ok && strings.HasPrefix(shortCallee(call), "slices.Contains") && len(call.Call.Args) == 2 {
			if s, isS := constStr(call.Call.Args[1]); isS && s == ".." {
				if sc, ok := unwrap(call.Call.Args[0]).(*ssa.Call); ok && isCallTo(sc, "strings.Split") {
					sep, _ := constStr(sc.Call.Args[1])
					if sameValue(sc.Call.Args[0], raw) && sep == "/" && rejectEdgeFrom(p, b, rej, errStyle) {
						if sb := sc.Block(); sb == at || sb.Dominates(at) {
							return true
						}
					}
				}
			}
		}
		bo, ok := cond.(*ssa.BinOp)
		if !ok || bo.Op != token.EQL {
			continue
		}
		s, isS := constStr(bo.Y)
		if !isS || s != ".." {
			continue
		}
		for _, o := range fl.Origins(bo.X) {
			if o.Kind == "call" && o.Call != nil && isCallTo(o.Call, "strings.Split") {
				sc := o.Call.(*ssa.Call)
				sep, _ := constStr(sc.Call.Args[1])
				if sameValue(sc.Call.Args[0], raw) && sep == "/" && rejectEdgeFrom(p, b, rej, errStyle) {
					sb := sc.Block()
					if sb == at || sb.Dominates(at) {
						return true
					}
				}
			}
		}
	}
	return false
}

func runSymlinkRule(c *Ctx, ent *entries, reach map[*ssa.Function]bool) {
	p := c.P
	const P = "C07"
	// every backend Symlink call in reach: arg0 (target)
	n := 0
	for _, fn := range p.SrcFuncs {
		if !reach[fn] {
			continue
		}
		for _, call := range calls(fn) {
			bc := asBackendCall(call)
			if bc == nil || bc.OnFile || bc.Method != "Symlink" {
				continue
			}
			n++
			key := fmt.Sprintf("sink=%s:%s#%d target", fnKey(fn), shortCallee(call), ordinal(fn, call))
			why := checkSymlinkTarget(p, reach, call.Common().Args[0], fn, call.Block(), 0)
			c.verdictIf(why == "", P, "symlink", key, p.instrPos(call), "relative target without '..' components", why)
		}
	}
	if n == 0 {
		c.ok(P, "symlink", "sink=none", "", "no backend Symlink call on the request path")
	}
	// READLINK
	rl := p.Fn("(*AbsfsNFS).Readlink")
	if rl == nil {
		c.undecided(P, "symlink", "fn=Readlink", "", "not found")
		return
	}
	for _, call := range calls(rl) {
		bc := asBackendCall(call)
		if bc == nil || bc.Method != "Readlink" {
			continue
		}
		var target ssa.Value
		for _, r := range *call.Value().Referrers() {
			if ex, ok := r.(*ssa.Extract); ok && ex.Index == 0 {
				target = ex
			}
		}
		good := true
		why := ""
		for _, b := range rl.Blocks {
			for _, in := range b.Instrs {
				r, ok := in.(*ssa.Return)
				if !ok || !isNilConst(retVal(r, 1)) {
					continue
				}
				if retVal(r, 0) != target {
					continue
				}
				// success return of the raw target: either behind HasPrefix(target,"/")==true or behind the '..' rejection
				abs := guardedBy(rl, b, func(f condFact) bool {
					c2, ok := f.V.(*ssa.Call)
					if !ok || !f.Val {
						return false
					}
					cc := staticCallee(c2)
					if cc == nil || qualFn(cc) != "strings.HasPrefix" || len(c2.Call.Args) < 2 {
						return false
					}
					s, _ := constStr(argN(c2, 1))
					return c2.Call.Args[0] == target && s == "/"
				})
				if abs {
					continue
				}
				// paths not crossing the HasPrefix-true edge must pass the Split test: require dominance of the return by nothing in particular; check existence with rejection
				if !dotDotRejectedSomewhere(p, rl, target) {
					good = false
					why = "READLINK can return a relative target containing '..': no rejection of a \"..\" element of Split(target,\"/\") on the raw target"
				}
			}
		}
		c.verdictIf(good, P, "symlink", "fn=Readlink relative-target", p.instrPos(call), "relative targets with '..' are refused", why)
	}
}

func dotDotRejectedSomewhere(p *Prog, fn *ssa.Function, raw ssa.Value) bool {
	for _, b := range fn.Blocks {
		if dotDotRejected(p, fn, raw, b, true) {
			return true
		}
	}
	return false
}

func checkSymlinkTarget(p *Prog, reach map[*ssa.Function]bool, v ssa.Value, fn *ssa.Function, at *ssa.BasicBlock, depth int) string {
	if depth > 6 {
		return "depth limit"
	}
	if u, ok := v.(*ssa.UnOp); ok && u.Op == token.MUL {
		if s := singleStore(u.X); s != nil {
			v = s
		}
	}
	if prm, ok := v.(*ssa.Parameter); ok {
		idx := paramIndex(prm.Parent(), prm)
		cnt := 0
		for _, cs := range p.callers[prm.Parent()] {
			if !reach[cs.Caller] {
				continue
			}
			cnt++
			if why := checkSymlinkTarget(p, reach, cs.Instr.Common().Args[idx], cs.Caller, cs.Instr.Block(), depth+1); why != "" {
				return why
			}
		}
		if cnt == 0 {
			return "target parameter with no request-path caller"
		}
		return ""
	}
	// v must be a wire string (xdrDecodeString result), used raw
	isWire := false
	if ex, ok := v.(*ssa.Extract); ok {
		if call, ok := ex.Tuple.(*ssa.Call); ok && isCallTo(call, absnfsPath+".xdrDecodeString") {
			isWire = true
		}
	}
	if !isWire {
		return "symlink target handed to the backend is not the raw decoded string (" + v.String() + "): the checks cannot be tied to what is stored"
	}
	notAbs := guardedBy(fn, at, func(f condFact) bool {
		c2, ok := f.V.(*ssa.Call)
		if !ok || f.Val {
			return false
		}
		cc := staticCallee(c2)
		if cc == nil || qualFn(cc) != "strings.HasPrefix" || c2.Call.Args[0] != v {
			return false
		}
		s, _ := constStr(argN(c2, 1))
		return s == "/"
	})
	if !notAbs {
		return "an absolute symlink target can reach the backend: the Symlink call is not behind the false edge of strings.HasPrefix(target, \"/\") on the raw target"
	}
	if !dotDotRejected(p, fn, v, at, false) {
		return "a symlink target with a '..' component can reach the backend: no rejection of a \"..\" element of strings.Split(target, \"/\") (or Contains(target, \"..\")) applied to the raw target dominates the call"
	}
	return ""
}
