package main

import (
	"fmt"
	"go/token"
	"go/types"
	"sort"
	"strings"

	"golang.org/x/tools/go/ssa"
)

func init() {
	register("C24",
		"Decided: (defaults-agree) the table of (option field, default) normalisations is extracted from the constructor New (`if f <= 0 { f = d }`, nil pointer ⇒ default struct); every runtime path that stores a new TuningOptions snapshot (UpdateTuningOptions, and UpdateExportOptions through it) must apply a normalisation of each such field — the same guard and default, or keeping the previous value — before the store, so zero/negative numbers and nil pointers cannot reach the snapshot requests read; (atomic) in UpdateExportOptions no path performs a state mutation (tuning store, policy swap) and afterwards returns a freshly made error: validation dominates the first mutation; (roundtrip) every field of TuningOptions and PolicyOptions is a key of the conversion literals in tuningFromExportOptions, policyFromExportOptions, exportOptionsFromSnapshots and of the policy literal built by UpdateExportOptions. Not decided: that READ/WRITE/LOOKUP succeed after an update (a consequence of this plus C01/C23); the ordering of side effects in applyTuningSideEffects.",
		commonAssume, runC24)
}

type defaultRow struct {
	Field   string // ExportOptions field or Timeouts.X
	Default string
}

// extractDefaults reads `if opts.F <= 0 { opts.F = const }` patterns from fn.
func extractDefaults(p *Prog, fn *ssa.Function, ownerTypes map[string]bool) map[string]string {
	out := map[string]string{}
	for _, b := range fn.Blocks {
		for _, in := range b.Instrs {
			st, ok := in.(*ssa.Store)
			if !ok {
				continue
			}
			base, f, isFA := fieldAddrOf(st.Addr)
			if !isFA || f == nil || !ownerTypes[recvTypeName(base.Type())] {
				continue
			}
			// guarded by  load(f) <= 0
			for _, fact := range p.facts(b) {
				op, l, r, okc := normCmp(fact)
				if !okc || op != ">=" {
					continue
				}
				// 0 >= load(f)
				k, isC := constInt(l)
				_, lf, isLoad := fieldLoad(r)
				if isC && k == 0 && isLoad && lf == f {
					name := f.Name()
					if recvTypeName(base.Type()) == "TimeoutConfig" {
						name = "Timeouts." + name
					}
					out[name] = valString(st.Val)
				}
			}
		}
	}
	return out
}

func valString(v ssa.Value) string {
	if c, ok := unwrap(v).(*ssa.Const); ok && c.Value != nil {
		return c.Value.ExactString()
	}
	return "expr"
}

func structFields(p *Prog, name string) []string {
	n := p.namedType(name)
	if n == nil {
		return nil
	}
	st, ok := n.Underlying().(*types.Struct)
	if !ok {
		return nil
	}
	var out []string
	for i := 0; i < st.NumFields(); i++ {
		out = append(out, st.Field(i).Name())
	}
	return out
}

func runC24(c *Ctx) {
	p := c.P
	const P = "C24"
	runTransferPositive(c, P)
	runVerbatimConfig(c, P)
	runTimeoutsComplete(c, P)
	c.rule(P, "defaults-table", "New normalises the numeric/duration option fields and the nil pointer fields (table extracted, floor 20 rows)", 20)
	c.rule(P, "defaults-agree", "every runtime store of a TuningOptions snapshot is preceded by a normalisation of each defaulted tuning field", 12)
	c.rule(P, "atomic", "UpdateExportOptions: no freshly made error is returned after a state mutation", 1)
	c.rule(P, "roundtrip", "conversion literals cover every field of TuningOptions / PolicyOptions", 40)

	nw := p.Fn("New")
	if nw == nil {
		c.undecided(P, "defaults-table", "fn=New", "", "not found")
		return
	}
	owners := map[string]bool{"ExportOptions": true, "TimeoutConfig": true, "TuningOptions": true}
	// the constructor's normalisation may live in helpers it calls (e.g. (*TuningOptions).applyDefaults)
	ctorFns := append([]*ssa.Function{nw}, funcsReach(p, nw)...)
	D := map[string]string{}
	for _, g := range ctorFns {
		if g.Pkg == nil || g.Pkg.Pkg.Path() != absnfsPath {
			continue
		}
		for k, v := range extractDefaults(p, g, owners) {
			if old, dup := D[k]; dup && old != v {
				c.bad(P, "defaults-table", "row="+k, p.pos(g.Pos()), "the constructor path normalises "+k+" to two different defaults ("+old+" and "+v+")")
				continue
			}
			D[k] = v
		}
	}
	var rows []string
	for k := range D {
		rows = append(rows, k)
	}
	sort.Strings(rows)
	for _, k := range rows {
		c.ok(P, "defaults-table", "row="+k, p.pos(nw.Pos()), "default "+D[k])
	}
	// nil pointers: Timeouts, RateLimitConfig
	for _, ptr := range []string{"Timeouts", "RateLimitConfig"} {
		good := false
		for _, g := range ctorFns {
			if g.Pkg == nil || g.Pkg.Pkg.Path() != absnfsPath {
				continue
			}
			for _, b := range g.Blocks {
				for _, in := range b.Instrs {
					if st, ok := in.(*ssa.Store); ok {
						if base, f, ok := fieldAddrOf(st.Addr); ok && f != nil && f.Name() == ptr && owners[recvTypeName(base.Type())] {
							for _, fact := range p.facts(b) {
								if bo, ok := fact.V.(*ssa.BinOp); ok && fact.Val && bo.Op == token.EQL && isNilConst(bo.Y) {
									if _, lf, ok := fieldLoad(bo.X); ok && lf == f {
										good = true
									}
								}
							}
						}
					}
				}
			}
		}
		c.verdictIf(good, P, "defaults-table", "row="+ptr+"==nil", p.pos(nw.Pos()), "nil pointer replaced by a default struct", "New does not replace a nil "+ptr)
	}

	// tuning fields that have defaults
	tuningFields := map[string]bool{}
	for _, f := range structFields(p, "TuningOptions") {
		tuningFields[f] = true
	}
	var need []string
	for _, k := range rows {
		base := strings.SplitN(k, ".", 2)[0]
		if tuningFields[base] {
			need = append(need, k)
		}
	}
	// normaliser functions: contain the pattern for a given field on TuningOptions/ExportOptions/TimeoutConfig
	// a normaliser counts for field k only when it installs the constructor's default for k
	normalisers := map[string]map[*ssa.Function]bool{}
	for _, fn := range p.SrcFuncs {
		if fn == nw {
			continue
		}
		for k, v := range extractDefaults(p, fn, owners) {
			if v != D[k] && v != "expr" && D[k] != "expr" {
				continue
			}
			if normalisers[k] == nil {
				normalisers[k] = map[*ssa.Function]bool{}
			}
			normalisers[k][fn] = true
		}
	}
	// runtime stores of tuning snapshots
	for _, fn := range p.SrcFuncs {
		if fn == nw || fnKey(fn) == "(*AbsfsNFS).initAtomicOptions" {
			continue
		}
		for _, call := range calls(fn) {
			if !atomicPtrOp(call, "Store") || !isMutexField(call.Common().Args[0], "tuning") {
				continue
			}
			// which functions run (must) before this store inside fn, and what do the callers run before calling fn?
			for _, k := range need {
				key := fmt.Sprintf("store=%s:tuning field=%s", fnKey(fn), k)
				good := false
				// direct pattern in fn dominating the store, or a call to a normaliser dominating the store
				if normalisers[k][fn] {
					good = true
				}
				for _, c2 := range calls(fn) {
					if !(c2.Block() == call.Block() && instrIndex(c2) < instrIndex(call) || c2.Block() != call.Block() && c2.Block().Dominates(call.Block())) {
						continue
					}
					for _, callee := range p.calleesAt(fn, c2) {
						if normalisers[k][callee] {
							good = true
						}
						for g := range p.reachableFrom([]*ssa.Function{callee}) {
							if normalisers[k][g] && g != fn && !strings.Contains(fnKey(g), "$") {
								good = true
							}
						}
					}
				}
				c.verdictIf(good, P, "defaults-agree", key, p.instrPos(call), "normalised before the snapshot is stored",
					fmt.Sprintf("a TuningOptions snapshot is stored at run time without the constructor's normalisation of %s (default %s): a zero, negative or nil value supplied through UpdateTuningOptions/UpdateExportOptions reaches request processing (e.g. TransferSize 0 makes every READ return 0 bytes; a zero timeout gives requests no time to run; a nil Timeouts is dereferenced)", k, D[k]))
			}
			// nil Timeouts
			keyT := fmt.Sprintf("store=%s:tuning field=Timeouts!=nil", fnKey(fn))
			goodT := false
			tf := p.field("TuningOptions", "Timeouts")
			for _, g := range append([]*ssa.Function{fn}, funcsReach(p, fn)...) {
				for _, b := range g.Blocks {
					for _, in := range b.Instrs {
						if st, ok := in.(*ssa.Store); ok {
							if _, f, ok := fieldAddrOf(st.Addr); ok && f == tf {
								for _, fact := range p.facts(b) {
									if bo, ok := fact.V.(*ssa.BinOp); ok && fact.Val && bo.Op == token.EQL && isNilConst(bo.Y) {
										goodT = true
									}
								}
							}
						}
					}
				}
			}
			c.verdictIf(goodT, P, "defaults-agree", keyT, p.instrPos(call), "a nil Timeouts is replaced before the store", "a TuningOptions snapshot with Timeouts == nil can be stored: every operation dereferences tuning.Timeouts")
		}
	}

	// atomic
	ue := p.Fn("(*AbsfsNFS).UpdateExportOptions")
	if ue == nil {
		c.undecided(P, "atomic", "fn=UpdateExportOptions", "", "not found")
	} else {
		isMutation := func(in ssa.Instruction) bool {
			ci, ok := in.(ssa.CallInstruction)
			if !ok {
				return false
			}
			if atomicPtrOp(ci, "Store") {
				return true
			}
			f := staticCallee(ci)
			return f != nil && (f.Name() == "UpdateTuningOptions" || f.Name() == "UpdatePolicyOptions" || f.Name() == "applyTuningSideEffects")
		}
		good, why := true, ""
		for _, call := range calls(ue) {
			if !isMutation(call) {
				continue
			}
			res := follow(followSpec{Fn: ue, From: call, Closes: func(ssa.Instruction) bool { return false },
				ExitOK: func(r *ssa.Return) bool {
					last := retVal(r, len(r.Results)-1)
					if cl, ok := last.(*ssa.Call); ok {
						if f := staticCallee(cl); f != nil && (qualFn(f) == "fmt.Errorf" || qualFn(f) == "errors.New") {
							return false
						}
					}
					return true
				}})
			if !res.OK {
				good = false
				why = fmt.Sprintf("after %s at %s the function can still return a freshly made error at %s: the update is reported as rejected although part of it (the tuning options) is already in force", shortCallee(call), p.instrPos(call), p.instrPos(res.At))
			}
		}
		c.verdictIf(good, P, "atomic", "fn=UpdateExportOptions validate-before-mutate", p.pos(ue.Pos()), "all rejections precede the first mutation", why)
	}

	runC24AtomicCallee(c)
	runC24InForce(c)
	runC24DefaultsBeforeEffects(c)

	// roundtrip
	checkLit := func(fnName, typ string, exempt map[string]bool) {
		fn := p.Fn(fnName)
		if fn == nil {
			c.undecided(P, "roundtrip", "fn="+fnName, "", "not found")
			return
		}
		stored := map[string]bool{}
		var collect func(fn *ssa.Function, depth int)
		collect = func(fn *ssa.Function, depth int) {
			for _, b := range fn.Blocks {
				for _, in := range b.Instrs {
					if st, ok := in.(*ssa.Store); ok {
						if base, f, ok := fieldAddrOf(st.Addr); ok && f != nil && recvTypeName(base.Type()) == typ {
							if _, isAlloc := base.(*ssa.Alloc); isAlloc {
								stored[f.Name()] = true
							}
						}
					}
					// the record may be built by another conversion function of the package
					if call, ok := in.(*ssa.Call); ok && depth < 2 {
						if callee := staticCallee(call); callee != nil && callee != fn && p.byName[fnKey(callee)] == callee && callee.Signature.Results().Len() >= 1 {
							if recvTypeName(callee.Signature.Results().At(0).Type()) == typ {
								collect(callee, depth+1)
							}
						}
					}
				}
			}
		}
		collect(fn, 0)
		for _, f := range structFields(p, typ) {
			if exempt[f] {
				continue
			}
			c.verdictIf(stored[f], P, "roundtrip", "fn="+fnName+" field="+typ+"."+f, p.pos(fn.Pos()), "copied", fnName+" does not carry "+typ+"."+f+": the value is silently reset by a conversion")
		}
	}
	checkLit("tuningFromExportOptions", "TuningOptions", nil)
	checkLit("policyFromExportOptions", "PolicyOptions", nil)
	checkLit("(*AbsfsNFS).UpdateExportOptions", "PolicyOptions", nil)
	eoExempt := map[string]bool{"hasExplicitTCPSettings": true}
	checkLit("exportOptionsFromSnapshots", "ExportOptions", eoExempt)
}

func funcsReach(p *Prog, fn *ssa.Function) []*ssa.Function {
	var out []*ssa.Function
	for g := range p.reachableFrom([]*ssa.Function{fn}) {
		if g != fn {
			out = append(out, g)
		}
	}
	sort.Slice(out, func(i, j int) bool { return fnKey(out[i]) < fnKey(out[j]) })
	return out
}
