package main

// rules_c14b.go: C14/drain — reply bodies that are built before the procedure
// handler runs (policy drain, rate limiting) must be well-formed for every
// procedure they can be sent for.

import (
	"fmt"
	"strings"

	"golang.org/x/tools/go/ssa"
)

func runC14PreDispatch(c *Ctx, ent *entries) {
	p := c.P
	const P = "C14"
	// functions reachable from HandleCall / the connection loop without entering the dispatch functions or handlers
	stop := map[*ssa.Function]bool{ent.NFSCall: true, ent.Mount: true}
	for _, h := range ent.Handlers {
		stop[h] = true
	}
	seen := map[*ssa.Function]bool{}
	var order []*ssa.Function
	var visit func(f *ssa.Function)
	visit = func(f *ssa.Function) {
		if f == nil || seen[f] || stop[f] {
			return
		}
		seen[f] = true
		order = append(order, f)
		for _, s := range p.succ[f] {
			visit(s)
		}
		for _, a := range f.AnonFuncs {
			visit(a)
		}
	}
	visit(ent.HandleCall)
	visit(ent.ConnLoop)
	// handleNFSCall itself (before it calls a handler) is pre-dispatch code too
	order = append(order, ent.NFSCall)

	procFld := p.field("RPCMsgHeader", "Procedure")
	n := 0
	for _, f := range order {
		if strings.HasPrefix(f.Name(), "nfsError") {
			continue // the helpers themselves
		}
		// reply bodies built here: helper calls and finished buffers
		type body struct {
			at   ssa.Instruction
			toks []tok
			desc string
		}
		var bodies []body
		for _, call := range calls(f) {
			callee := staticCallee(call)
			if callee == nil || !strings.HasPrefix(callee.Name(), "nfsError") || callee.Pkg != p.Pkg {
				continue
			}
			paths, ok := p.helperTrace(callee)
			if !ok || len(paths) != 1 {
				c.undecided(P, "drain", fmt.Sprintf("%s helper=%s", fnKey(f), callee.Name()), p.instrPos(call), "helper has no single straight-line trace")
				continue
			}
			toks := append([]tok{}, paths[0][:len(paths[0])-1]...)
			if len(toks) > 0 && toks[0].Kind == "U32" {
				arg := call.Common().Args[1]
				toks[0].Val, toks[0].Const = arg, nil
				if k, ok := constInt(arg); ok {
					toks[0].Const = ci(k)
				}
			}
			bodies = append(bodies, body{call, toks, fmt.Sprintf("%s#%d", callee.Name(), ordinal(f, call))})
		}
		for _, bt := range p.traceBuffers(f) {
			if bytesOnlyWritten(bt.Buf) {
				continue // a transport buffer (whole RPC message handed to a writer), not a result body
			}
			for i, path := range bt.Paths {
				bodies = append(bodies, body{path[len(path)-1].Instr, path[:len(path)-1], fmt.Sprintf("buffer#%d", i+1)})
			}
		}
		if len(bodies) == 0 {
			continue
		}
		// per procedure k: which bodies are reachable when call.Header.Procedure == k ?
		reachFor := func(k int64) map[*ssa.BasicBlock]bool {
			cut := map[edge]bool{}
			for _, b := range f.Blocks {
				ifi := blockIf(b)
				if ifi == nil {
					continue
				}
				bo, ok := ifi.Cond.(*ssa.BinOp)
				if !ok || bo.Op.String() != "==" {
					continue
				}
				_, fl, isLoad := fieldLoad(bo.X)
				j, isC := constInt(bo.Y)
				if !isLoad || fl != procFld || !isC {
					continue
				}
				if j != k {
					cut[edge{b, b.Succs[0]}] = true
				} else {
					cut[edge{b, b.Succs[1]}] = true
				}
			}
			return reachAvoiding([]*ssa.BasicBlock{f.Blocks[0]}, cut, nil)
		}
		for _, bd := range bodies {
			n++
			key := fmt.Sprintf("%s body=%s[%s]", fnKey(f), bd.desc, tokString(bd.toks))
			if len(bd.toks) == 0 || bd.toks[0].Kind != "U32" || bd.toks[0].Const == nil {
				c.undecided(P, "drain", key, p.instrPos(bd.at), "pre-dispatch body does not start with a constant status")
				continue
			}
			st := *bd.toks[0].Const
			var bad []string
			if _, ok := nfsstat3[st]; !ok {
				bad = append(bad, fmt.Sprintf("status %d ∉ nfsstat3", st))
			}
			any := false
			for k := int64(0); k <= 21; k++ {
				if !reachFor(k)[bd.at.Block()] {
					continue
				}
				any = true
				if k == 0 {
					bad = append(bad, "NULL(void result expected)")
					continue
				}
				g := resFail[uint32(k)]
				if st == 0 {
					g = resOK[uint32(k)]
				}
				if ok, _ := matchGrammar(bd.toks[1:], g); !ok {
					bad = append(bad, procNames[uint32(k)])
				}
			}
			// a body that is reachable whatever the procedure is also sent for MOUNT / unknown programs unless the program is tested
			progTested := false
			progFld := p.field("RPCMsgHeader", "Program")
			if guardedBy(f, bd.at.Block(), func(fc condFact) bool {
				op, l, r, ok := normCmp(fc)
				if !ok || op != "==" {
					return false
				}
				_, fl, isLoad := fieldLoad(l)
				kk, isC := constInt(r)
				return isLoad && fl == progFld && isC && kk == 100003
			}) {
				progTested = true
			}
			if !progTested {
				bad = append(bad, "MOUNT and unknown programs (the program number is not tested before this body is chosen)")
			}
			if !any {
				continue
			}
			if len(bad) == 0 {
				c.ok(P, "drain", key, p.instrPos(bd.at), "well-formed failure result for every procedure it can be selected for")
			} else {
				c.bad(P, "drain", key, p.instrPos(bd.at), "a result body chosen before the procedure handler runs is not a well-formed result for: "+strings.Join(bad, ", "))
			}
		}
	}
	if n == 0 {
		c.ok(P, "drain", "pre-dispatch=no-body", p.pos(ent.HandleCall.Pos()), "no result body is built before dispatch")
	}
}
