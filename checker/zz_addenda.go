package main

// zz_addenda.go: clauses added to the registry texts by later rounds (rules
// written after a seeded change or a triaged defect showed a gap).  Kept in one
// place so that the long registry strings stay as first written; the text is
// inserted before the "Not decided:" part.  (File name sorts last: Go runs the
// init functions of a package's files in file-name order.)

import "strings"

var explainAddenda = map[string]string{
	"C02": "(hit-rebinds, shared with C05) when a path already has a handle, FileHandleMap.Allocate re-binds the table entry to the node just looked up on every path from the hit edge to the return — the node behind a handle caches the object's type and handles survive REMOVE.",
	"C03": "(rollback-own) a backend Remove of the created path in the CREATE tree is dominated by the success edge of the creating call, so only an object this request created is ever rolled back.",
	"C04": "(chmod-type) the mode handed to a backend Chmod never takes bits from the FileInfo of a (link-following) Stat.",
	"C05": "(hit-rebinds) see C02; (dedup-atomic) the lookup of pathHandles that guards the insertion holds the write lock, precedes the insertion and no Unlock lies between them.",
	"C08": "(swap/stores-on-success, borrowed from C16) every successful return of UpdatePolicyOptions has stored the new policy, except behind a comparison that reads every PolicyOptions field.",
	"C13": "(full-read) no bare Read on a stream interface outside forwarding Read methods and counted read loops; (no-wrap) growing arithmetic on a wire-decoded value in a type of 32 bits or fewer is dominated by a bound test of the raw value.",
	"C15": "(full-read, no-wrap) shared with C13.",
	"C16": "(swap/stores-on-success) every successful return of UpdatePolicyOptions has stored the new policy, except behind a comparison that reads every PolicyOptions field.",
	"C23": "The advertised wtmax/wtpref are computed from TransferSize only by operations that cannot enlarge it (conversion, selection, constant cap, division, subtraction, shift right, mask).",
	"C24": "(atomic-callee) every PolicyOptions field on which UpdatePolicyOptions can refuse is pinned by UpdateExportOptions to the current policy's value or validated there, by the same function, before the first mutation; (in-force) every TuningOptions field New reads to build or configure a component is also read from the updated record in applyTuningSideEffects.",
	"C25": "(over-limit-edge) from the edge on which a request quantity exceeds a MaxFileSize-derived bound no size-increasing backend call is reachable (a guard weakened by a second conjunct fails).",
	"C26": "(entry-size) the stop test's estimate is a linear expression Len + K + pad4(len(name)) whose constant covers the fixed bytes the loop appends per entry plus the bytes appended after the loop minus the status word, all sizes read from the reply trace (or the entry is measured by encoding it).",
	"C27": "(truthful) a SET handler answers TRUE only on paths that passed RegisterService, an UNSET handler answers the result of UnregisterService; (mismatch-range) the PROG_MISMATCH arm of makeReply appends the two version words.",
	"C28": "(full-read) shared with C13: record marks are read completely; (advertised-port) every port registered with the portmapper by the server derives from ServerOptions.Port or a constant default.",
	"C30": "(floor) additionally every accepting return of Validate lies behind an edge that established MinVersion == 0, MinVersion >= TLS 1.2 or Enabled == false; (rotate-update) UpdatePolicyOptions keeps the previous TLSConfig when the update carries none and otherwise lets the new one take over the previous certificate cell.",
}

func init() {
	for id, add := range explainAddenda {
		pr := registry[id]
		if pr == nil {
			continue
		}
		e := pr.Meta.Explain
		if i := strings.Index(e, " Not decided:"); i >= 0 {
			pr.Meta.Explain = e[:i] + " Added in later rounds: " + add + e[i:]
		} else {
			pr.Meta.Explain = e + " Added in later rounds: " + add
		}
	}
}
