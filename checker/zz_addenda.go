package main

// zz_addenda.go: clauses added to the registry texts by later rounds (rules
// written after a seeded change or a triaged defect showed a gap).  Kept in one
// place so that the long registry strings stay as first written; the text is
// inserted before the "Not decided:" part.  (File name sorts last: Go runs the
// init functions of a package's files in file-name order.)

import "strings"

var explainAddenda = map[string]string{
	"C01": "(read-size, also under C29) no origin of the length of the buffer READ hands to the backend ReadAt is a field of a remembered NFSAttrs record; (attr-fresh) every successful return of GetAttr follows a backend stat made by that call, or lies on the IsValid() edge of a record from AttrCache.Get that can never have validUntil set (the branch is dead): the fill `Lstat ... Put` is not atomic with a concurrent WRITE's invalidation, so a served cache hit could report a stale size and a wrong eof.",
	"C02": "(tree-scan) both InvalidateTree implementations delete inside a loop over the cache map whose header dominates every return, guarded by the membership tests only; (inval, subtree) after a Rename the whole cached subtree at or below the old and the new name is dropped from both caches; (hit-rebinds, shared with C05) when a path already has a handle, FileHandleMap.Allocate re-binds the table entry to the node just looked up on every path from the hit edge to the return — the node behind a handle caches the object's type and handles survive REMOVE.",
	"C03": "(rollback-own) a backend Remove of the created path in the CREATE tree is dominated by the success edge of the creating call, so only an object this request created is ever rolled back.",
	"C04": "(chmod-type) the mode handed to a backend Chmod never takes bits from the FileInfo of a (link-following) Stat.",
	"C05": "(hit-rebinds) see C02; (dedup-atomic) the lookup of pathHandles that guards the insertion (in Allocate or a helper called inside its critical section) holds the write lock, precedes the insertion and no Unlock lies between them; (unmap-paired) an entry of pathHandles is deleted only in an activation that also deletes the handle it maps to: a live handle whose path mapping is gone makes the next LOOKUP of the path issue a second handle.",
	"C08": "(swap/stores-on-success, admit-first: borrowed from C16) every successful return of UpdatePolicyOptions has stored the new policy, except behind a comparison that reads every PolicyOptions field; HandleCall consults the policy only after admission; (no-detached-work) see C16.",
	"C09": "(admit-first, borrowed from C16) the allow-list and secure flag the gate consults are read only after admission under the policy read lock, so a request that waited out a policy update is not judged by the replaced policy.",
	"C10": "(no-wrap, borrowed from C13, within what ParseAuthSysCredential reaches) a length decoded from the credential body is bounded before it is enlarged in 32 bits, so a wrapping length cannot make an undecodable body decode with client-chosen ids.",
	"C12": "(chmod-type, borrowed from C04) the type ACCESS keys LOOKUP/DELETE on is the object's own: the mode handed to a backend Chmod never takes type bits from a link-following Stat.",
	"C13": "(full-read) no bare Read on a stream interface outside forwarding Read methods and counted read loops; (no-wrap) growing arithmetic on a wire-decoded value in a type of 32 bits or fewer is dominated by a bound test of the raw value; (all-fragments) every fragment ReadRecord reads is appended to the returned buffer or is itself the returned value on every path to a successful return.",
	"C15": "(full-read, no-wrap, all-fragments) shared with C13; (nil-holes, shared with C29) a pointer slice preallocated with a length is filled on every iteration of the loop that indexes it, so no nil element reaches the consumers that dereference every element outside any recover.",
	"C16": "(swap/stores-on-success) every successful return of UpdatePolicyOptions has stored the new policy, except behind a comparison that reads every PolicyOptions field; (admit-first) in HandleCall every call that reads the policy, directly or through a callee, is dominated by the admission (TryRLock success edge or RLock); (no-detached-work, also under C08) no function running under a request's policy read lock starts a goroutine that reaches the backend unless it waits for it on every path before returning (work that outlives the request escapes the drain); (limiter-fresh) UpdatePolicyOptions does not read the rate limiter it replaces except to compare it with nil or stop it, so no bucket built under the old limits survives the update.",
	"C17": "(idle-exempt) per-connection state other than lastActivity on which the idle sweep branches is cleared again on every path of the connection loop before the instruction that set it is reached again (a flag left set by one path keeps an idle connection out of the sweep for good).",
	"C19": "(global-private) every load of RateLimiter.globalLimiter is the receiver of a TokenBucket method or a nil test and the value stored into the field has no other holder, so no narrower stage can charge the global bucket through an alias before the later stages have refused.",
	"C20": "(join-before-restart) in Resize a call that reaches WaitGroup.Wait precedes the restart on every path on which the pool was running; (received-resolved) in the worker every path from the receive of a task executes it and delivers the result (or finds ResultChan nil) before the worker returns or selects again — a received task is out of the queue, so no drain can resolve it.",
	"C22": "(ack-on-success) handleWrite's NFS3_OK reply is reachable only from the edge on which the write call returned no error.",
	"C23": "The advertised wtmax/wtpref are computed from TransferSize only by operations that cannot enlarge it (conversion, selection, constant cap, division, subtraction, shift right, mask); (record-limit) RecordMarkingReader.MaxRecordSize is only ever set to the constant the FSINFO cap is derived from; (count-raw) every comparison in handleWrite that refuses a request on its count tests the count itself or a value that cannot exceed it (a padded or rounded-up length would refuse counts the advertised maximum admits).",
	"C24": "(atomic-callee) every PolicyOptions field on which UpdatePolicyOptions can refuse is pinned by UpdateExportOptions to the current policy's value or validated there, by the same function, before the first mutation; (in-force) every TuningOptions field New reads to build or configure a component is also read from the updated record in applyTuningSideEffects; (defaults-before-effects) in UpdateTuningOptions the normalisation precedes applyTuningSideEffects.",
	"C25": "(over-limit-edge) from the edge on which a request quantity exceeds a MaxFileSize-derived bound no size-increasing backend call is reachable (a guard weakened by a second conjunct fails); (swap, borrowed from C16) a limit set at run time only binds if the accepted policy update is stored: every successful return of UpdatePolicyOptions has stored the new policy, except behind a comparison that reads every PolicyOptions field.",
	"C26": "(entry-skip) in ReadDirWithContext no call that takes the listing's own context has a failure edge that continues the entry loop (a deadline of the whole listing must fail it, not thin it out); (entry-size) the stop test's estimate is a linear expression Len + K + pad4(len(name)) whose constant covers the fixed bytes the loop appends per entry plus the bytes appended after the loop minus the status word, all sizes read from the reply trace (or the entry is measured by encoding it); (toosmall-edge) a NFS3ERR_TOOSMALL reply is reachable from the does-not-fit edge of the loop's stop test; (order-preserved) DirCache.Put/Get and ReadDirWithContext never sort or otherwise reorder the listing, so the page served from the backend and the pages served from the cache index the same sequence.",
	"C27": "(peer-arg) every call of handleCall hands it the peer address of the connection the bytes came from (a nil address counts as an in-process caller); (truthful) a SET handler answers TRUE only on paths that passed RegisterService, an UNSET handler answers the result of UnregisterService; (mismatch-range) the PROG_MISMATCH arm of makeReply appends the two version words; (dump-live) every return of the two DUMP handlers has read the mapping table in that call.",
	"C28": "(full-read, all-fragments) shared with C13: record marks are read completely and every fragment reaches the returned record; (advertised-port) every port registered with the portmapper by the server derives from ServerOptions.Port or a constant default.",
	"C29": "(read-size) see C01; (dedup-atomic, shared with C05) the check-then-insert of FileHandleMap.Allocate happens in one write-locked section; (own-listing) the listing ReadDirWithContext returns originates from a backend Readdir of this activation or from DirCache.Get, never from a result another request left in other shared storage (a coalesced listing can miss an entry whose creation was already acknowledged); (nil-holes, shared with C15) see C15.",
	"C30": "(floor) additionally every accepting return of Validate lies behind an edge that established MinVersion == 0, MinVersion >= TLS 1.2 or Enabled == false; (rotate-update) UpdatePolicyOptions keeps the previous TLSConfig when the update carries none and otherwise lets the new one take over the previous certificate cell; (the take-over of the cell may depend only on the presence of the new TLS settings, the previous TLSConfig and its cell, and on what the publication of the policy depends on); (no-static-cert) the tls.Config built by BuildConfig serves certificates only through GetCertificate.",
}

func init() {
	for id, add := range explainAddenda {
		pr := registry[id]
		if pr == nil {
			continue
		}
		e := pr.Meta.Explain
		if i := strings.Index(e, " Not decided:"); i >= 0 {
			pr.Meta.Explain = e[:i] + " Added in later rounds: " + add + e[i:]
		} else {
			pr.Meta.Explain = e + " Added in later rounds: " + add
		}
	}
}
