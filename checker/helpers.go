package main

import (
	"go/constant"
	"go/types"

	"golang.org/x/tools/go/ssa"
)

// constsOfType: package-level constants of the named type (string-valued): name -> value.
func (p *Prog) constsOfType(typeName string) map[string]string {
	out := map[string]string{}
	nt := p.namedType(typeName)
	if nt == nil {
		return out
	}
	scope := p.Main.Types.Scope()
	for _, n := range scope.Names() {
		c, ok := scope.Lookup(n).(*types.Const)
		if !ok || !types.Identical(c.Type(), nt) {
			continue
		}
		if c.Val().Kind() == constant.String {
			out[n] = constant.StringVal(c.Val())
		} else {
			out[n] = c.Val().ExactString()
		}
	}
	return out
}

// argN returns the i-th argument of a call or nil when out of range.
func argN(c *ssa.Call, i int) ssa.Value {
	if c == nil || i < 0 || i >= len(c.Call.Args) {
		return nil
	}
	return c.Call.Args[i]
}

// cellOf: v is a load of a local variable cell: returns the cell.
func cellOf(v ssa.Value) *ssa.Alloc {
	u, ok := unwrap(v).(*ssa.UnOp)
	if !ok {
		return nil
	}
	al, _ := u.X.(*ssa.Alloc)
	return al
}
