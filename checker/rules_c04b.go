package main

// rules_c04b.go: C04/chmod-type.  Some backends (memfs) store the whole mode
// word on Chmod, so the type bits the server passes decide what the object IS
// afterwards.  Those bits must describe the object itself: they may come from
// the node's own attributes or from an Lstat, never from a Stat, which follows
// a symbolic link and yields the TARGET's type — a SETATTR(mode) on a link
// would then turn the link into a file or directory.

import (
	"fmt"
	"go/token"

	"golang.org/x/tools/go/ssa"
)

// statModeSources: backend calls whose FileInfo.Mode() feeds v.
func statModeSources(v ssa.Value, seen map[ssa.Value]bool, out *[]ssa.CallInstruction, d int) {
	if v == nil || d > 12 || seen[v] {
		return
	}
	seen[v] = true
	switch x := v.(type) {
	case *ssa.BinOp:
		statModeSources(x.X, seen, out, d+1)
		statModeSources(x.Y, seen, out, d+1)
	case *ssa.Convert:
		statModeSources(x.X, seen, out, d+1)
	case *ssa.ChangeType:
		statModeSources(x.X, seen, out, d+1)
	case *ssa.Phi:
		for _, e := range x.Edges {
			statModeSources(e, seen, out, d+1)
		}
	case *ssa.UnOp:
		if x.Op == token.MUL {
			if sv := singleStore(x.X); sv != nil {
				statModeSources(sv, seen, out, d+1)
			}
		}
	case *ssa.Call:
		cc := x.Common()
		if cc.IsInvoke() && (cc.Method.Name() == "Mode" || cc.Method.Name() == "IsDir") {
			// receiver: FileInfo from a backend call
			recv := cc.Value
			if ex, ok := recv.(*ssa.Extract); ok {
				if bcCall, ok := ex.Tuple.(*ssa.Call); ok && asBackendCall(bcCall) != nil {
					*out = append(*out, bcCall)
				}
			}
			if u, ok := recv.(*ssa.UnOp); ok && u.Op == token.MUL {
				if sv := singleStore(u.X); sv != nil {
					if ex, ok := sv.(*ssa.Extract); ok {
						if bcCall, ok := ex.Tuple.(*ssa.Call); ok && asBackendCall(bcCall) != nil {
							*out = append(*out, bcCall)
						}
					}
				}
			}
		}
	}
}

func runC04ChmodType(c *Ctx, P string) {
	p := c.P
	c.rule(P, "chmod-type", "the mode handed to a backend Chmod takes its type bits from the node or an Lstat, never from a (link-following) Stat", 1)
	ent, err := p.entrySet()
	if err != nil {
		c.undecided(P, "chmod-type", "entries", "", err.Error())
		return
	}
	reach := p.reachableFrom(ent.procEntries())
	n := 0
	for _, fn := range p.SrcFuncs {
		if !reach[fn] {
			continue
		}
		for _, call := range calls(fn) {
			bc := asBackendCall(call)
			if bc == nil || bc.Method != "Chmod" {
				continue
			}
			args := call.Common().Args
			if len(args) < 2 {
				continue
			}
			n++
			key := fmt.Sprintf("sink=%s:%s#%d", fnKey(fn), shortCallee(call), ordinal(fn, call))
			var srcs []ssa.CallInstruction
			statModeSources(args[len(args)-1], map[ssa.Value]bool{}, &srcs, 0)
			bad := ""
			for _, s := range srcs {
				if b2 := asBackendCall(s); b2 != nil && b2.Method == "Stat" {
					bad = p.instrPos(s)
				}
			}
			c.verdictIf(bad == "", P, "chmod-type", key, p.instrPos(call), "type bits describe the object itself",
				"the mode passed to Chmod takes bits from the FileInfo of a Stat at "+bad+", which follows symbolic links: a SETATTR(mode) on a symlink writes the target's type into the link, which is then reported as a regular file or directory")
		}
	}
	if n == 0 {
		c.ok(P, "chmod-type", "sink=none", "", "no backend Chmod on the request path")
	}
}
