package main

// rules_round6c.go: C19/global-private.  The ordering rule of C19 looks at AllowRequest; it is only meaningful
// if the bucket behind RateLimiter.globalLimiter is consulted nowhere else.  A narrower stage that holds an
// alias of the global bucket (a shared "overflow" bucket for untracked addresses, say) charges the global
// capacity before the later stages have had their chance to refuse.  Decided: every load of
// RateLimiter.globalLimiter is used only as the receiver of a TokenBucket method or in a nil test, and the value
// stored into the field is stored nowhere else.

import (
	"fmt"
	"go/token"

	"golang.org/x/tools/go/ssa"
)

func runC19GlobalPrivate(c *Ctx, P string) {
	p := c.P
	c.rule(P, "global-private", "the global bucket is reachable only through RateLimiter.globalLimiter: loads of the field are receivers of TokenBucket methods or nil tests, and the stored value has no other holder", 2)
	n := 0
	for _, fn := range p.SrcFuncs {
		k := 0
		ordinal := func(*ssa.Function, ssa.Instruction) int { k++; return k }
		for _, b := range fn.Blocks {
			for _, in := range b.Instrs {
				switch x := in.(type) {
				case *ssa.UnOp:
					if x.Op != token.MUL {
						continue
					}
					base, f, ok := fieldLoad(x)
					if !ok || f == nil || f.Name() != "globalLimiter" || recvTypeName(base.Type()) != "RateLimiter" {
						continue
					}
					n++
					key := fmt.Sprintf("load=%s:globalLimiter#%d", fnKey(fn), ordinal(fn, in))
					why := ""
					if refs := x.Referrers(); refs != nil {
						for _, r := range *refs {
							if !globalUseOK(r, x) {
								why = "the global bucket is handed on at " + p.instrPos(r) + ": whoever holds it can charge the capacity shared by all clients outside AllowRequest's order (before a narrower limit has refused)"
							}
						}
					}
					c.verdictIf(why == "", P, "global-private", key, p.instrPos(in), "receiver of a TokenBucket method or nil test only", why)
				case *ssa.Store:
					fa, ok := x.Addr.(*ssa.FieldAddr)
					if !ok {
						continue
					}
					f := fieldOf(fa.X.Type(), fa.Field)
					if f == nil || f.Name() != "globalLimiter" || recvTypeName(fa.X.Type()) != "RateLimiter" {
						continue
					}
					n++
					key := fmt.Sprintf("store=%s:globalLimiter#%d", fnKey(fn), ordinal(fn, in))
					why := ""
					if _, isConst := x.Val.(*ssa.Const); !isConst {
						if _, isCall := x.Val.(*ssa.Call); !isCall {
							why = "the value stored into globalLimiter at " + p.instrPos(in) + " is not a bucket made for it"
						} else if refs := x.Val.Referrers(); refs != nil {
							for _, r := range *refs {
								if r == ssa.Instruction(x) {
									continue
								}
								if _, isDbg := r.(*ssa.DebugRef); isDbg {
									continue
								}
								why = "the bucket stored into globalLimiter is also used at " + p.instrPos(r) + ": a second holder can charge the shared capacity outside AllowRequest's order"
							}
						}
					}
					c.verdictIf(why == "", P, "global-private", key, p.instrPos(in), "a bucket made for the field, held by nobody else", why)
				}
			}
		}
	}
	if n == 0 {
		c.undecided(P, "global-private", "field=RateLimiter.globalLimiter", "", "no access to the global bucket found")
	}
}

func globalUseOK(r ssa.Instruction, v ssa.Value) bool {
	switch u := r.(type) {
	case *ssa.DebugRef:
		return true
	case *ssa.BinOp:
		return (u.Op == token.EQL || u.Op == token.NEQ) && (isNilConst(u.X) || isNilConst(u.Y))
	case ssa.CallInstruction:
		cc := u.Common()
		f := cc.StaticCallee()
		if f == nil || f.Signature.Recv() == nil || len(cc.Args) == 0 || cc.Args[0] != v {
			return false
		}
		for _, a := range cc.Args[1:] {
			if a == v {
				return false
			}
		}
		return recvTypeName(f.Signature.Recv().Type()) == "TokenBucket"
	}
	return false
}
