package main

import (
	"fmt"
	"go/token"
	"strings"

	"golang.org/x/tools/go/ssa"
)

func init() {
	register("C17",
		"Decided (structure only): (pair) in the accept loop every path from the true edge of registerConnection reaches the `go` statement whose closure defers unregisterConnection of that connection and wg.Done, without closing or dropping the connection in between; a connection is registered only after the address filter accepted it; refused connections are closed and never registered; (count) the connection map and counter are touched only under connMutex, the limit test and the increment sit in one critical section, and the decrement is paired with the map delete inside the connection's sync.Once; (wg) every long-lived goroutine started by Server is preceded by wg.Add(1) and defers wg.Done; Stop cancels, closes the listeners, closes all connections and then waits; (release) AbsfsNFS.Close and Unexport reach exportServer.Stop (then forget the server), FileHandleMap.ReleaseAll and the cache Clear calls on every normal path, so a repeat is a no-op; ReleaseAll empties the table and resets the reverse map and the free list; (idle) cleanupIdleConnections closes and unregisters exactly the connections selected by now − lastActivity > IdleTimeout and Listen starts the reaper under the wait group. Not decided: the numeric bound under real concurrency, the goroutine count after Stop, timing of reaping.",
		commonAssume, runC17)
}

func isInvokeNamed(in ssa.Instruction, method string) bool {
	ci, ok := in.(ssa.CallInstruction)
	if !ok {
		return false
	}
	cc := ci.Common()
	return cc.IsInvoke() && cc.Method.Name() == method
}

func callsMethod(in ssa.Instruction, q string) bool {
	ci, ok := in.(ssa.CallInstruction)
	if !ok {
		return false
	}
	f := staticCallee(ci)
	return f != nil && qualFn(f) == q
}

func closureDefers(p *Prog, clo *ssa.Function, pred func(d *ssa.Defer) bool) bool {
	if clo == nil {
		return false
	}
	for _, b := range clo.Blocks {
		for _, in := range b.Instrs {
			if d, ok := in.(*ssa.Defer); ok && pred(d) {
				return true
			}
		}
	}
	return false
}

func runC17(c *Ctx) {
	p := c.P
	const P = "C17"
	runC17ExportOnce(c, P)
	c.rule(P, "pair", "acceptLoop: registerConnection==true ⇒ go closure deferring unregisterConnection(conn)+wg.Done on all paths, no Close in between; false ⇒ Close, no serving", 2)
	c.rule(P, "count", "activeConns/connCount only under connMutex; limit test + increment in one critical section; decrement paired with delete under sync.Once", 12)
	c.rule(P, "wg", "every goroutine started by Server is counted (wg.Add before, defer wg.Done inside); Stop: cancel → close listeners → closeAllConnections → wait", 5)
	c.rule(P, "release", "Close/Unexport reach Stop(+forget), ReleaseAll, attrCache.Clear, dirCache.Clear on every normal path; ReleaseAll resets all three tables", 9)
	c.rule(P, "idle", "cleanupIdleConnections selects by now-lastActivity > IdleTimeout and closes+unregisters each; Listen starts the reaper under wg", 3)

	srv := "(*" + absnfsPath + ".Server)."
	al := p.Fn("(*Server).acceptLoop")
	reg := p.Fn("(*Server).registerConnection")
	unreg := p.Fn("(*Server).unregisterConnection")
	if al == nil || reg == nil || unreg == nil {
		c.undecided(P, "pair", "fns", "", "acceptLoop/registerConnection/unregisterConnection not found")
		return
	}
	isWG := func(in ssa.Instruction, m string) bool { return callsMethod(in, "(*sync.WaitGroup)."+m) }
	// --- pair
	for _, call := range calls(al) {
		if staticCallee(call) != reg {
			continue
		}
		conn := call.Common().Args[1]
		var succ, fail *ssa.BasicBlock
		for _, r := range *call.Value().Referrers() {
			if ifi, ok := r.(*ssa.If); ok {
				succ, fail = ifi.Block().Succs[0], ifi.Block().Succs[1]
			}
			if u, ok := r.(*ssa.UnOp); ok && u.Op == token.NOT {
				for _, r2 := range *u.Referrers() {
					if ifi, ok := r2.(*ssa.If); ok {
						succ, fail = ifi.Block().Succs[1], ifi.Block().Succs[0]
					}
				}
			}
		}
		if succ == nil {
			c.bad(P, "pair", "call=registerConnection", p.instrPos(call), "result of registerConnection is ignored")
			continue
		}
		goodGo := func(in ssa.Instruction) bool {
			g, ok := in.(*ssa.Go)
			if !ok {
				return false
			}
			clo := p.funcValue(g.Call.Value)
			un := closureDefers(p, clo, func(d *ssa.Defer) bool {
				return staticCallee(d) == unreg && len(d.Call.Args) > 1 && sameValue(resolveFree(d.Call.Args[1]), conn)
			})
			done := closureDefers(p, clo, func(d *ssa.Defer) bool { return isWG(d, "Done") })
			return un && done
		}
		res := follow(followSpec{Fn: al, Start: []*ssa.BasicBlock{succ}, Closes: goodGo,
			Bad: func(in ssa.Instruction) bool { return isInvokeNamed(in, "Close") && !isDeferInstr(in) }})
		if res.OK {
			c.ok(P, "pair", "edge=registered", p.instrPos(call), "registered connection is always served by a goroutine that unregisters it")
		} else {
			what := "reaches the loop head or an exit without starting the serving goroutine that unregisters it"
			if res.Why == "bad" {
				what = "is closed at " + p.instrPos(res.At) + " without being unregistered"
			}
			c.bad(P, "pair", "edge=registered", p.instrPos(call), "a connection that was counted by registerConnection "+what+": its slot in the connection limit is never given back")
		}
		// refused: closed, not served
		r2 := follow(followSpec{Fn: al, Start: []*ssa.BasicBlock{fail}, Closes: func(in ssa.Instruction) bool { return isInvokeNamed(in, "Close") },
			Bad: func(in ssa.Instruction) bool { _, ok := in.(*ssa.Go); return ok }})
		c.verdictIf(r2.OK, P, "pair", "edge=refused", p.instrPos(call), "refused connection is closed and not served", "a connection refused by the limit is not closed (or is still served)")
		// wg.Add before go
		okAdd := true
		for _, b := range al.Blocks {
			for i, in := range b.Instrs {
				if _, ok := in.(*ssa.Go); ok {
					found := false
					for j := 0; j < i; j++ {
						if isWG(b.Instrs[j], "Add") {
							found = true
						}
					}
					if !found {
						okAdd = false
					}
				}
			}
		}
		c.verdictIf(okAdd, P, "wg", "fn=acceptLoop go-counted", p.pos(al.Pos()), "wg.Add(1) precedes the go statement", "connection goroutine is started without wg.Add: Stop does not wait for it")
	}

	// --- count
	lockRule(c, P, "count", specConns)
	// limit test and increment in one critical section: exactly one Lock in registerConnection and a deferred Unlock
	nLock, nUnlock, deferUnlock := 0, 0, false
	for _, b := range reg.Blocks {
		for _, in := range b.Instrs {
			if op, ok := asLockOp(in); ok && op.ID.Class == "Server.connMutex" {
				if _, isD := in.(*ssa.Defer); isD {
					deferUnlock = true
				} else if op.Kind == "Lock" {
					nLock++
				} else if op.Kind == "Unlock" {
					nUnlock++
				}
			}
		}
	}
	c.verdictIf(nLock == 1 && nUnlock == 0 && deferUnlock, P, "count", "fn=registerConnection one-critical-section", p.pos(reg.Pos()), "single Lock with deferred Unlock", "the limit test and the increment are not in one critical section: two connections can both pass the test")
	// limit test: connCount >= MaxConnections on the refusing edge
	limitOK := false
	for _, b := range reg.Blocks {
		ifi := blockIf(b)
		if ifi == nil {
			continue
		}
		bo, ok := ifi.Cond.(*ssa.BinOp)
		if !ok || bo.Op != token.GEQ {
			continue
		}
		_, f1, ok1 := fieldLoad(bo.X)
		_, f2, ok2 := fieldLoad(bo.Y)
		if ok1 && ok2 && f1.Name() == "connCount" && f2.Name() == "MaxConnections" {
			// true edge returns false
			seen := map[*ssa.BasicBlock]bool{}
			allFalse := true
			var walk func(x *ssa.BasicBlock)
			walk = func(x *ssa.BasicBlock) {
				if seen[x] {
					return
				}
				seen[x] = true
				for _, in := range x.Instrs {
					if r, ok := in.(*ssa.Return); ok {
						k, isC := retVal(r, 0).(*ssa.Const)
						if !isC || k.Value == nil || k.Value.String() != "false" {
							allFalse = false
						}
						return
					}
				}
				for _, s := range x.Succs {
					walk(s)
				}
			}
			walk(b.Succs[0])
			limitOK = allFalse
		}
	}
	c.verdictIf(limitOK, P, "count", "fn=registerConnection limit-test", p.pos(reg.Pos()), "connCount >= MaxConnections ⇒ refused", "registerConnection lacks the `connCount >= MaxConnections ⇒ return false` test")
	// unregister: Once.Do and delete+decrement together
	onceOK, pairOK := false, false
	for _, call := range calls(unreg) {
		if callsMethod(call, "(*sync.Once).Do") {
			onceOK = true
			clo := p.funcValue(call.Common().Args[1])
			if clo != nil {
				for _, b := range clo.Blocks {
					del, dec := false, false
					for _, in := range b.Instrs {
						if _, ok := isDeleteOn(in, "Server", "activeConns"); ok {
							del = true
						}
						if st, ok := in.(*ssa.Store); ok {
							if _, f, ok := fieldAddrOf(st.Addr); ok && f != nil && f.Name() == "connCount" {
								if bo, ok := st.Val.(*ssa.BinOp); ok && bo.Op == token.SUB {
									dec = true
								}
							}
						}
					}
					if del && dec {
						pairOK = true
					}
				}
			}
		}
	}
	c.verdictIf(onceOK && pairOK, P, "count", "fn=unregisterConnection once+paired", p.pos(unreg.Pos()), "delete and decrement together inside the connection's sync.Once", "unregisterConnection does not pair the map delete with the decrement under the per-connection sync.Once: a connection can be uncounted twice or never")

	// --- wg / stop
	listen := p.Fn("(*Server).Listen")
	if listen != nil {
		okAll := true
		for _, b := range listen.Blocks {
			for i, in := range b.Instrs {
				g, ok := in.(*ssa.Go)
				if !ok {
					continue
				}
				added := false
				for j := 0; j < i; j++ {
					if isWG(b.Instrs[j], "Add") {
						added = true
					}
				}
				clo := p.funcValue(g.Call.Value)
				if !added || !closureDefers(p, clo, func(d *ssa.Defer) bool { return isWG(d, "Done") }) {
					okAll = false
				}
			}
		}
		c.verdictIf(okAll, P, "wg", "fn=Listen goroutines-counted", p.pos(listen.Pos()), "Add before, Done deferred", "Listen starts a goroutine that the wait group does not track")
	}
	stop := p.Fn("(*Server).Stop")
	if stop == nil {
		c.undecided(P, "wg", "fn=Stop", "", "not found")
	} else {
		// ordered events by dominance
		type ev struct {
			name string
			in   ssa.Instruction
		}
		var evs []ev
		for _, b := range stop.Blocks {
			for _, in := range b.Instrs {
				ci, ok := in.(ssa.CallInstruction)
				if !ok {
					continue
				}
				switch {
				case staticCallee(ci) == nil && !ci.Common().IsInvoke():
					if _, f, ok := fieldLoad(ci.Common().Value); ok && f != nil && f.Name() == "cancel" {
						evs = append(evs, ev{"cancel", in})
					}
				case ci.Common().IsInvoke() && ci.Common().Method.Name() == "Close":
					if _, f, ok := fieldLoad(ci.Common().Value); ok && f != nil && f.Name() == "listener" {
						evs = append(evs, ev{"listener.Close", in})
					}
				case callsMethod(in, srv+"closeAllConnections"):
					evs = append(evs, ev{"closeAllConnections", in})
				}
				if g, ok := in.(*ssa.Go); ok {
					clo := p.funcValue(g.Call.Value)
					if clo != nil {
						for _, cc := range calls(clo) {
							if isWG(cc, "Wait") {
								evs = append(evs, ev{"wait", in})
							}
						}
					}
				}
			}
		}
		want := []string{"cancel", "listener.Close", "closeAllConnections", "wait"}
		pos := map[string]ssa.Instruction{}
		for _, e := range evs {
			pos[e.name] = e.in
		}
		good := true
		why := ""
		for i, w := range want {
			if pos[w] == nil {
				good, why = false, "Stop lacks the step "+w
				break
			}
			if i > 0 {
				a, b := pos[want[i-1]], pos[w]
				before := (a.Block() == b.Block() && instrIndex(a) < instrIndex(b)) || (a.Block() != b.Block() && a.Block().Dominates(b.Block()))
				// listener.Close is nil-guarded: accept "reachable after" rather than strict dominance
				if !before {
					r := reachAvoiding([]*ssa.BasicBlock{a.Block()}, nil, nil)
					if !r[b.Block()] {
						good, why = false, "Stop does not perform "+want[i-1]+" before "+w
					}
				}
			}
		}
		c.verdictIf(good, P, "wg", "fn=Stop order", p.pos(stop.Pos()), "cancel → close listener → close connections → wait", why)
		// wait must be on every path
		res := follow(followSpec{Fn: stop, Start: []*ssa.BasicBlock{stop.Blocks[0]}, Closes: func(in ssa.Instruction) bool { return pos["wait"] == in }})
		c.verdictIf(res.OK, P, "wg", "fn=Stop waits-on-all-paths", p.pos(stop.Pos()), "every path waits for the goroutines", "Stop can return without waiting for connection and accept goroutines")
		res2 := follow(followSpec{Fn: stop, Start: []*ssa.BasicBlock{stop.Blocks[0]}, Closes: func(in ssa.Instruction) bool { return pos["closeAllConnections"] == in }})
		c.verdictIf(res2.OK, P, "wg", "fn=Stop closes-connections-on-all-paths", p.pos(stop.Pos()), "every path closes the active connections", "Stop can return without closing active connections")
	}

	// --- release
	for _, fname := range []string{"(*AbsfsNFS).Close", "(*AbsfsNFS).Unexport"} {
		fn := p.Fn(fname)
		if fn == nil {
			c.undecided(P, "release", "fn="+fname, "", "not found")
			continue
		}
		steps := []struct {
			name  string
			match func(in ssa.Instruction) bool
			guard string
		}{
			{"exportServer.Stop", func(in ssa.Instruction) bool { return callsMethod(in, srv+"Stop") }, "exportServer"},
			{"fileMap.ReleaseAll", func(in ssa.Instruction) bool {
				return callsMethod(in, "(*"+absnfsPath+".FileHandleMap).ReleaseAll")
			}, "fileMap"},
			{"attrCache.Clear", func(in ssa.Instruction) bool { return callsMethod(in, "(*"+absnfsPath+".AttrCache).Clear") }, "attrCache"},
			{"dirCache.Clear", func(in ssa.Instruction) bool { return callsMethod(in, "(*"+absnfsPath+".DirCache).Clear") }, "dirCache"},
		}
		for _, s := range steps {
			gf := p.field("AbsfsNFS", s.guard)
			res := follow(followSpec{Fn: fn, Start: []*ssa.BasicBlock{fn.Blocks[0]}, Closes: s.match,
				StopEdge: nilFieldStop(func(v ssa.Value) bool { _, f, ok := fieldLoad(v); return ok && f == gf })})
			c.verdictIf(res.OK, P, "release", "fn="+fname+" step="+s.name, p.pos(fn.Pos()), "performed on every normal path (nil-guard accepted)", fname+" can return without "+s.name+": handles/caches/listener survive the call")
		}
		// forget the server after Stop
		forgot := false
		for _, call := range calls(fn) {
			if !callsMethod(call, srv+"Stop") {
				continue
			}
			res := follow(followSpec{Fn: fn, From: call, Closes: func(in ssa.Instruction) bool {
				st, ok := in.(*ssa.Store)
				if !ok {
					return false
				}
				_, f, ok := fieldAddrOf(st.Addr)
				return ok && f != nil && f.Name() == "exportServer" && isNilConst(st.Val)
			}})
			forgot = res.OK
		}
		c.verdictIf(forgot, P, "release", "fn="+fname+" forgets-server", p.pos(fn.Pos()), "exportServer = nil after Stop: a repeat call does not stop it twice", fname+" does not clear exportServer after stopping it")
	}
	ra := p.Fn("(*FileHandleMap).ReleaseAll")
	if ra != nil {
		del, rp, rf := false, false, false
		for _, b := range ra.Blocks {
			for _, in := range b.Instrs {
				if _, ok := isDeleteOn(in, "FileHandleMap", "handles"); ok && inCycle(b) {
					del = true
				}
				if st, ok := in.(*ssa.Store); ok {
					if _, f, ok := fieldAddrOf(st.Addr); ok && f != nil {
						if f.Name() == "handles" {
							del = true
						}
						if f.Name() == "pathHandles" {
							rp = true
						}
						if f.Name() == "freeHandles" {
							rf = true
						}
					}
				}
			}
		}
		c.verdictIf(del && rp && rf, P, "release", "fn=ReleaseAll resets-tables", p.pos(ra.Pos()), "handles emptied, pathHandles and freeHandles reset", fmt.Sprintf("ReleaseAll leaves state behind (handles emptied=%v, pathHandles reset=%v, freeHandles reset=%v)", del, rp, rf))
	}

	// --- idle
	ci := p.Fn("(*Server).cleanupIdleConnections")
	if ci == nil {
		c.undecided(P, "idle", "fn=cleanupIdleConnections", "", "not found")
		return
	}
	selOK := false
	for _, b := range ci.Blocks {
		ifi := blockIf(b)
		if ifi == nil {
			continue
		}
		bo, ok := ifi.Cond.(*ssa.BinOp)
		if !ok || bo.Op != token.GTR {
			continue
		}
		call, ok := bo.X.(*ssa.Call)
		if !ok || !callsMethod(call, "(time.Time).Sub") {
			continue
		}
		fl := newFlow(p)
		isLA := hasOrigin(fl.Origins(call.Call.Args[1]), func(o Origin) bool { return o.Kind == "field" && o.Fld != nil && o.Fld.Name() == "lastActivity" })
		isIT := hasOrigin(fl.Origins(bo.Y), func(o Origin) bool { return o.Kind == "field" && o.Fld != nil && o.Fld.Name() == "IdleTimeout" })
		isNow := hasOrigin(fl.Origins(call.Call.Args[0]), func(o Origin) bool { return o.Kind == "call" && strings.Contains(o.Desc, "time.Now") })
		if isLA && isIT && isNow {
			selOK = true
		}
	}
	c.verdictIf(selOK, P, "idle", "fn=cleanupIdleConnections selection", p.pos(ci.Pos()), "now − lastActivity > IdleTimeout", "idle selection is not `time.Now().Sub(lastActivity) > IdleTimeout`")
	closeUn := false
	for _, b := range ci.Blocks {
		hasClose, hasUn := false, false
		for _, in := range b.Instrs {
			if isInvokeNamed(in, "Close") {
				hasClose = true
			}
			if callsMethod(in, srv+"unregisterConnection") {
				hasUn = true
			}
		}
		if hasClose && hasUn && inCycle(b) {
			closeUn = true
		}
	}
	c.verdictIf(closeUn, P, "idle", "fn=cleanupIdleConnections close+unregister", p.pos(ci.Pos()), "each selected connection is closed and unregistered", "selected idle connections are not both closed and unregistered")
	started := false
	if listen != nil {
		for _, b := range listen.Blocks {
			for _, in := range b.Instrs {
				if g, ok := in.(*ssa.Go); ok {
					if clo := p.funcValue(g.Call.Value); clo != nil {
						for _, cc := range calls(clo) {
							if callsMethod(cc, srv+"idleConnectionCleanupLoop") {
								started = true
							}
						}
					}
				}
			}
		}
	}
	c.verdictIf(started, P, "idle", "fn=Listen starts-reaper", "", "Listen starts idleConnectionCleanupLoop", "Listen never starts the idle-connection reaper")
	runC17IdleExempt(c, ci)
}

func isDeferInstr(in ssa.Instruction) bool { _, ok := in.(*ssa.Defer); return ok }

// resolveFree maps a captured variable inside a closure to the value bound at the MakeClosure site.
func resolveFree(v ssa.Value) ssa.Value {
	switch x := v.(type) {
	case *ssa.FreeVar:
		if b := freeVarBinding(x); b != nil {
			return b
		}
	case *ssa.UnOp:
		if fv, ok := x.X.(*ssa.FreeVar); ok {
			if b := freeVarBinding(fv); b != nil {
				if al, ok := b.(*ssa.Alloc); ok {
					if sv := singleStore(al); sv != nil {
						return sv
					}
				}
				return b
			}
		}
	}
	return v
}
