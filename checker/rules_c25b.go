package main

// rules_c25b.go: C25/over-limit-edge.  The dominating-guard rule (C25/guard)
// only asks that a MaxFileSize comparison lies on every path to a
// size-increasing call.  This rule asks the edge-sensitive question: on the
// edge where the request quantity EXCEEDS the limit, no size-increasing
// backend call may remain reachable — a guard weakened by a second conjunct
// (`over limit && something else`) leaves such a path.

import (
	"fmt"

	"golang.org/x/tools/go/ssa"
)

func runC25Edges(c *Ctx, ent *entries, mfs interface{}, hasMax func(ssa.Value) bool) {
	p := c.P
	const P = "C25"
	c.rule(P, "over-limit-edge", "from the edge on which a request quantity exceeds a MaxFileSize-derived bound, no size-increasing backend call (WriteAt/Write/Truncate) is reachable", 2)
	sinkMethods := map[string]bool{"WriteAt": true, "Write": true, "WriteString": true, "Truncate": true}
	// functions that (transitively) contain a sink
	hasSink := map[*ssa.Function]bool{}
	for _, fn := range p.SrcFuncs {
		for _, call := range calls(fn) {
			if bc := asBackendCall(call); bc != nil && sinkMethods[bc.Method] {
				hasSink[fn] = true
			}
		}
	}
	for changed := true; changed; {
		changed = false
		for _, fn := range p.SrcFuncs {
			if hasSink[fn] {
				continue
			}
			for _, call := range calls(fn) {
				if _, isGo := call.(*ssa.Go); isGo {
					continue
				}
				for _, callee := range p.calleesAt(fn, call) {
					if hasSink[callee] && callee.Pkg == p.Pkg {
						hasSink[fn] = true
						changed = true
					}
				}
			}
		}
	}
	var roots []*ssa.Function
	for _, num := range []uint32{7, 2} {
		if h := ent.Handlers[num]; h != nil {
			roots = append(roots, h)
		}
	}
	reach := p.reachableFrom(roots)
	n := map[string]int{}
	for _, fn := range p.SrcFuncs {
		if !reach[fn] {
			continue
		}
		for _, b := range fn.Blocks {
			if blockIf(b) == nil || len(b.Succs) != 2 {
				continue
			}
			for _, s := range b.Succs {
				for _, f := range edgeFacts(b, s) {
					op, l, r, ok := normCmp(f)
					if !ok || (op != ">" && op != ">=") || !hasMax(r) || hasMax(l) {
						continue
					}
					if _, isC := constInt(l); isC {
						continue
					}
					// edge b->s: l exceeds the bound
					n[fnKey(fn)]++
					key := fmt.Sprintf("cmp=%s:MaxFileSize#%d", fnKey(fn), n[fnKey(fn)])
					region := reachAvoiding([]*ssa.BasicBlock{s}, nil, nil)
					var bad ssa.Instruction
					for blk := range region {
						// the comparison block itself is only in the region through a loop; ignore instructions before the If there
						for _, in := range blk.Instrs {
							ci, isCall := in.(ssa.CallInstruction)
							if !isCall {
								continue
							}
							if bc := asBackendCall(ci); bc != nil && sinkMethods[bc.Method] {
								bad = in
							}
							if _, isGo := in.(*ssa.Go); !isGo {
								for _, callee := range p.calleesAt(fn, ci) {
									if hasSink[callee] && callee.Pkg == p.Pkg {
										bad = in
									}
								}
							}
						}
					}
					if bad == nil {
						c.ok(P, "over-limit-edge", key, p.instrPos(b.Instrs[len(b.Instrs)-1]), "the over-limit edge leads only to refusals")
					} else {
						c.bad(P, "over-limit-edge", key, p.instrPos(bad), "after the comparison at "+p.instrPos(b.Instrs[len(b.Instrs)-1])+" found the request above the MaxFileSize bound, "+shortCallee(bad.(ssa.CallInstruction))+" can still be reached: a second condition lets an over-limit request grow the file")
					}
				}
			}
		}
	}
}
