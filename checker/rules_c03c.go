package main

// rules_c03c.go: C03/rollback-own.  The CREATE call tree removes the target
// only to roll back an object THIS request created: every backend
// Remove/RemoveAll of the created path lies on the success edge of the
// creating call (the block is dominated by that edge).  A removal reachable
// from the failure edge deletes an object that existed before the request.

import (
	"fmt"

	"golang.org/x/tools/go/ssa"
)

func runC03Rollback(c *Ctx, hc *ssa.Function, reach map[*ssa.Function]bool) {
	p := c.P
	const P = "C03"
	c.rule(P, "rollback-own", "in the CREATE tree a backend Remove of the created path is dominated by the success edge of the creating call", 1)
	n := 0
	for _, fn := range p.SrcFuncs {
		if !reach[fn] {
			continue
		}
		// creating calls of this function
		type creator struct {
			call ssa.CallInstruction
			path *pexpr
			succ *ssa.BasicBlock
		}
		var creators []creator
		for _, call := range calls(fn) {
			bc := asBackendCall(call)
			if bc == nil || bc.OnFile {
				continue
			}
			class, idx := nsMutationPaths(bc)
			if class != "ns-create" || len(idx) == 0 {
				continue
			}
			succ, _, ok := errSuccessEdge(call)
			if !ok {
				continue
			}
			creators = append(creators, creator{call, mkExpr(call.Common().Args[idx[0]]), succ})
		}
		if len(creators) == 0 {
			continue
		}
		for _, call := range calls(fn) {
			bc := asBackendCall(call)
			if bc == nil || bc.OnFile || (bc.Method != "Remove" && bc.Method != "RemoveAll") {
				continue
			}
			target := mkExpr(call.Common().Args[0])
			for _, cr := range creators {
				if !cr.path.equal(target) {
					continue
				}
				n++
				key := fmt.Sprintf("remove=%s:%s#%d", fnKey(fn), shortCallee(call), ordinal(fn, call))
				dom := cr.succ == call.Block() || cr.succ.Dominates(call.Block())
				c.verdictIf(dom, P, "rollback-own", key, p.instrPos(call), "only rolls back what this request created",
					"the CREATE path can remove the target on a path where its own creating call did not succeed (e.g. it failed because the name already exists): an object that existed before the request is deleted")
			}
		}
	}
	if n == 0 {
		c.ok(P, "rollback-own", "remove=none", p.pos(hc.Pos()), "the CREATE tree never removes the created path")
	}
}
