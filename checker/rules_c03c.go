package main

// rules_c03c.go: C03/rollback-own.  The CREATE call tree removes the target
// only to roll back an object THIS request created: every backend
// Remove/RemoveAll of the created path lies on the success edge of the
// creating call (the block is dominated by that edge).  A removal reachable
// from the failure edge deletes an object that existed before the request.

import (
	"fmt"
	"go/constant"
	"go/token"

	"golang.org/x/tools/go/ssa"
)

func runC03Rollback(c *Ctx, hc *ssa.Function, reach map[*ssa.Function]bool) {
	p := c.P
	const P = "C03"
	c.rule(P, "rollback-own", "in the CREATE tree a backend Remove of the created path is dominated by the success edge of the creating call", 1)
	n := 0
	for _, fn := range p.SrcFuncs {
		if !reach[fn] {
			continue
		}
		// creating calls of this function
		type creator struct {
			call ssa.CallInstruction
			path *pexpr
			succ *ssa.BasicBlock
		}
		var creators []creator
		for _, call := range calls(fn) {
			bc := asBackendCall(call)
			if bc == nil || bc.OnFile {
				continue
			}
			class, idx := nsMutationPaths(bc)
			if class != "ns-create" || len(idx) == 0 {
				continue
			}
			succ, _, ok := errSuccessEdge(call)
			if !ok {
				continue
			}
			creators = append(creators, creator{call, mkExpr(call.Common().Args[idx[0]]), succ})
		}
		if len(creators) == 0 {
			continue
		}
		for _, call := range calls(fn) {
			bc := asBackendCall(call)
			if bc == nil || bc.OnFile || (bc.Method != "Remove" && bc.Method != "RemoveAll") {
				continue
			}
			target := mkExpr(call.Common().Args[0])
			for _, cr := range creators {
				if !cr.path.equal(target) {
					continue
				}
				n++
				key := fmt.Sprintf("remove=%s:%s#%d", fnKey(fn), shortCallee(call), ordinal(fn, call))
				dom := cr.succ == call.Block() || cr.succ.Dominates(call.Block())
				c.verdictIf(dom, P, "rollback-own", key, p.instrPos(call), "only rolls back what this request created",
					"the CREATE path can remove the target on a path where its own creating call did not succeed (e.g. it failed because the name already exists): an object that existed before the request is deleted")
			}
		}
	}
	// a Remove of the created path inside a function literal of the creating function (a deferred rollback):
	// the literal must be registered/called only past the success edge, or guard the Remove by a captured flag
	// that is set only past the success edge
	for _, af := range p.SrcFuncs {
		par := af.Parent()
		if par == nil || !reach[rootFn(af)] {
			continue
		}
		for _, call := range calls(af) {
			bc := asBackendCall(call)
			if bc == nil || bc.OnFile || (bc.Method != "Remove" && bc.Method != "RemoveAll") {
				continue
			}
			bind, deref := freeBinding(af, call.Common().Args[0])
			if bind == nil {
				continue
			}
			for _, cc := range calls(par) {
				cbc := asBackendCall(cc)
				if cbc == nil || cbc.OnFile {
					continue
				}
				class, idx := nsMutationPaths(cbc)
				if class != "ns-create" || len(idx) == 0 {
					continue
				}
				succ, _, ok := errSuccessEdge(cc)
				if !ok {
					continue
				}
				arg := cc.Common().Args[idx[0]]
				same := arg == bind
				if deref {
					u, isU := arg.(*ssa.UnOp)
					same = isU && u.X == bind
				}
				if !same {
					continue
				}
				n++
				key := fmt.Sprintf("remove=%s:%s#%d", fnKey(af), shortCallee(call), ordinal(af, call))
				past := func(b *ssa.BasicBlock) bool { return b == succ || succ.Dominates(b) }
				good := true
				uses := 0
				for _, mc := range closuresOf(par, af) {
					for _, r := range *mc.Referrers() {
						switch u := r.(type) {
						case *ssa.Defer:
							uses++
							good = good && past(u.Block())
						case *ssa.Call:
							uses++
							good = good && past(u.Block())
						case *ssa.DebugRef:
						default:
							uses++
							good = false
						}
					}
				}
				if uses == 0 {
					good = false
				}
				if !good {
					good = guardedByOwnFlag(af, par, call.Block(), past)
				}
				c.verdictIf(good, P, "rollback-own", key, p.instrPos(call), "only rolls back what this request created",
					"a function literal of the CREATE path removes the target although it can run when the creating call did not succeed (e.g. it failed because the name already exists): an object that existed before the request is deleted")
			}
		}
	}
	if n == 0 {
		c.ok(P, "rollback-own", "remove=none", p.pos(hc.Pos()), "the CREATE tree never removes the created path")
	}
}

// freeBinding: the value the enclosing function binds to the free variable v reads (directly or through a
// load of the captured cell).
func freeBinding(af *ssa.Function, v ssa.Value) (ssa.Value, bool) {
	deref := false
	if u, ok := v.(*ssa.UnOp); ok && u.Op == token.MUL {
		v = u.X
		deref = true
	}
	fv, ok := v.(*ssa.FreeVar)
	if !ok {
		return nil, false
	}
	idx := -1
	for i, f := range af.FreeVars {
		if f == fv {
			idx = i
		}
	}
	par := af.Parent()
	if idx < 0 || par == nil {
		return nil, false
	}
	for _, mc := range closuresOf(par, af) {
		if idx < len(mc.Bindings) {
			return mc.Bindings[idx], deref
		}
	}
	return nil, false
}

func closuresOf(par, af *ssa.Function) []*ssa.MakeClosure {
	var out []*ssa.MakeClosure
	for _, b := range par.Blocks {
		for _, in := range b.Instrs {
			if mc, ok := in.(*ssa.MakeClosure); ok && mc.Fn == ssa.Value(af) {
				out = append(out, mc)
			}
		}
	}
	return out
}

// guardedByOwnFlag: block b of the literal af is dominated by the true edge of a test of a captured boolean
// cell that the enclosing function sets to anything but false only past the success edge.
func guardedByOwnFlag(af, par *ssa.Function, b *ssa.BasicBlock, past func(*ssa.BasicBlock) bool) bool {
	for d := b; d != nil && d.Idom() != nil; d = d.Idom() {
		id := d.Idom()
		ifi := blockIf(id)
		if ifi == nil || len(id.Succs) != 2 || id.Succs[0] != d || len(d.Preds) != 1 {
			continue
		}
		bind, deref := freeBinding(af, ifi.Cond)
		al, isAl := bind.(*ssa.Alloc)
		if !deref || !isAl || al.Referrers() == nil {
			continue
		}
		ok, sets := true, 0
		for _, r := range *al.Referrers() {
			switch u := r.(type) {
			case *ssa.Store:
				if u.Addr != ssa.Value(al) {
					ok = false
					continue
				}
				if k, isC := u.Val.(*ssa.Const); isC && k.Value != nil && k.Value.Kind() == constant.Bool && !constant.BoolVal(k.Value) {
					continue
				}
				sets++
				ok = ok && past(u.Block())
			case *ssa.UnOp, *ssa.MakeClosure, *ssa.DebugRef:
			default:
				ok = false
			}
		}
		// the literal itself must not set the flag
		for _, bb := range af.Blocks {
			for _, in := range bb.Instrs {
				if st, isSt := in.(*ssa.Store); isSt {
					if bd, _ := freeBinding(af, st.Addr); bd == bind {
						ok = false
					}
				}
			}
		}
		if ok && sets > 0 {
			return true
		}
	}
	return false
}
