package main

import (
	"fmt"
	"sort"
	"strings"

	"golang.org/x/tools/go/ssa"
)

var lockInfoCache = map[*Prog]*LockInfo{}

func (p *Prog) lockInfo() *LockInfo {
	if li, ok := lockInfoCache[p]; ok {
		return li
	}
	li := newLockInfo(p)
	li.run()
	lockInfoCache[p] = li
	return li
}

// lockRule declares a rule and evaluates one protected-field spec under it.
func lockRule(c *Ctx, prop, rule string, spec protSpec) int {
	p := c.P
	li := p.lockInfo()
	ok, bad, why := li.checkProtected(spec)
	counts := map[string]int{}
	keyOf := func(a access) string {
		rw := "r"
		if a.Write {
			rw = "w"
		}
		base := fmt.Sprintf("fn=%s field=%s.%s %s", fnKey(a.Fn), spec.Owner, a.Field, rw)
		counts[base]++
		return fmt.Sprintf("%s#%d", base, counts[base])
	}
	all := append(append([]access{}, ok...), bad...)
	sort.SliceStable(all, func(i, j int) bool {
		if fnKey(all[i].Fn) != fnKey(all[j].Fn) {
			return fnKey(all[i].Fn) < fnKey(all[j].Fn)
		}
		return all[i].Instr.Pos() < all[j].Instr.Pos()
	})
	isBad := map[access]bool{}
	for _, b := range bad {
		isBad[b] = true
	}
	for _, a := range all {
		k := keyOf(a)
		if isBad[a] {
			c.bad(prop, rule, k, p.instrPos(a.Instr), fmt.Sprintf("%s.%s accessed without its lock: %s — a data race under some schedule", spec.Owner, a.Field, why[a.Instr]))
		} else {
			c.ok(prop, rule, k, p.instrPos(a.Instr), "under "+spec.Owner+"."+spec.Lock)
		}
	}
	return len(all)
}

var (
	specAttrCache = protSpec{"AttrCache", []string{"cache", "accessList", "maxSize", "ttl", "negativeTTL", "enableNegative"}, "mu"}
	specDirCache  = protSpec{"DirCache", []string{"entries", "accessList", "timeout", "maxEntries", "maxDirSize"}, "mu"}
	specHandles   = protSpec{"FileHandleMap", []string{"handles", "pathHandles", "nextHandle", "freeHandles", "maxHandles"}, "RWMutex"}
	specConns     = protSpec{"Server", []string{"activeConns", "connCount"}, "connMutex"}
	specBucket    = protSpec{"TokenBucket", []string{"tokens", "lastRefill"}, "mu"}
	specPerIP     = protSpec{"PerIPLimiter", []string{"limiters", "lastCleanup"}, "mu"}
	specPerOp     = protSpec{"PerOperationLimiter", []string{"limiters", "lastCleanup"}, "mu"}
	specPortmap   = protSpec{"Portmapper", []string{"mappings"}, "mu"}
	specNodeAttrs = protSpec{"NFSNode", []string{"attrs"}, "mu"}
	specLogger    = protSpec{"AbsfsNFS", []string{"structuredLogger"}, "loggerMu"}
	specTLS       = protSpec{"TLSConfig", []string{"tlsConfig"}, "mu"}
	specRecWriter = protSpec{"RecordMarkingWriter", []string{"w"}, "mu"}
)

func init() {
	register("C29",
		"Decided (race and deadlock discipline only): (lockset) every read or write of a shared mutable location on the request path happens with its designated lock held on all CFG paths, writes under the exclusive lock — NFSNode.attrs under NFSNode.mu; AttrCache and DirCache state under their mu; FileHandleMap tables under its RWMutex; Server.activeConns/connCount under connMutex; token buckets and limiter maps under their mu; Portmapper.mappings under mu; AbsfsNFS.structuredLogger under loggerMu; WorkerPool queue/context fields under the lock Resize rewrites them with; objects allocated in the same function are exempt until shared; helpers inherit the locks held at all their call sites; (order) the lock-order graph over all mutex classes (edges for every acquisition, direct or through a callee, while another lock is held) is acyclic and no lock is re-acquired on the same instance. Not decided: linearizability, 'stale but never impossible' replies, agreement of tables with the backend after a run — history properties outside static reach.",
		commonAssume, runC29)
}

func runC29(c *Ctx) {
	const P = "C29"
	c.rule(P, "lockset", "T-LOCK: designated lock held (exclusively for writes) at every access of a protected field, on all paths, with helper entry states inherited from call sites", 150)
	c.rule(P, "order", "lock-order graph acyclic; no re-acquisition of the same mutex instance", 1)
	c.rule(P, "pool-fields", "WorkerPool.taskQueue/ctx/cancel/maxWorkers are read under the lock that guards their rewrite in Resize, or are never rewritten after Start", 1)
	runReadSize(c, P)
	runVerbatimConfig(c, P)
	n := 0
	for _, s := range []protSpec{specNodeAttrs, specAttrCache, specDirCache, specHandles, specConns, specBucket, specPerIP, specPerOp, specPortmap, specLogger} {
		n += lockRule(c, P, "lockset", s)
	}
	p := c.P
	li := p.lockInfo()
	edges := li.orderEdges()
	cyc := findCycle(edges)
	var es []string
	for _, e := range edges {
		es = append(es, e.From+"->"+e.To)
	}
	if cyc == nil {
		c.ok(P, "order", "graph", "", fmt.Sprintf("%d order edges, acyclic: %s", len(edges), strings.Join(es, " ")))
	} else {
		pos := ""
		for _, e := range edges {
			if e.From == cyc[0] && strings.HasPrefix(e.To, cyc[1]) {
				pos = e.Pos
			}
		}
		c.bad(P, "order", "cycle="+strings.Join(cyc, "->"), pos, "lock-order cycle (potential deadlock under some schedule): "+strings.Join(cyc, " -> "))
	}
	re := li.reacquisitions()
	if len(re) == 0 {
		c.ok(P, "order", "reacquire=none", "", "no call made under a mutex passes the locked object to a callee that takes the same mutex")
	}
	for _, e := range re {
		c.bad(P, "order", "reacquire="+e.Fn+":"+e.To, e.Pos, "while holding "+e.From+" the locked object is passed to a callee that acquires the same mutex again: with a writer queued between the two acquisitions (RWMutex) or unconditionally (Mutex) this deadlocks")
	}
	runPoolFields(c, P, "pool-fields")
	// check-then-act across a lock release is not a data race but breaks linearizability (shared with C05)
	runC05Atomic(c, P)
	runC29OwnListing(c, P)
	runNilHolesAs(c, P, nil)
}

// runPoolFields: WorkerPool fields rewritten in Resize must be read under the same lock everywhere else.
func runPoolFields(c *Ctx, prop, rule string) {
	p := c.P
	li := p.lockInfo()
	fields := map[string]bool{"taskQueue": true, "ctx": true, "cancel": true, "maxWorkers": true}
	acc := p.fieldAccesses("WorkerPool", fields)
	// which locks are held at every non-constructor write?
	var writerLocks lockState
	nw := 0
	for _, a := range acc {
		if !a.Write || isFresh(a.Base) {
			continue
		}
		nw++
		st := li.stateAt(a.Instr)
		norm := lockState{}
		for id, m := range st {
			if id.Root == rootExpr(a.Base) {
				norm[lockID{Root: "self", Field: id.Field, Class: id.Class}] = m
			}
		}
		if writerLocks == nil {
			writerLocks = norm
		} else {
			writerLocks = meet(writerLocks, norm)
		}
	}
	if nw == 0 {
		c.ok(prop, rule, "WorkerPool fields", "", "never rewritten after construction")
		return
	}
	hasWriterClass := func(st lockState) bool {
		for id := range writerLocks {
			for h := range st {
				if h.Class == id.Class {
					return true
				}
			}
		}
		return false
	}
	// heldAtEntry: every call site of fn in the repository either has an unshared (fresh) receiver, or is
	// executed with the writers' lock held, or sits in a function for which the same holds.
	var heldAtEntry func(fn *ssa.Function, d int) bool
	heldAtEntry = func(fn *ssa.Function, d int) bool {
		sites := p.callers[fn]
		if len(sites) == 0 || d > 4 {
			return false
		}
		for _, cs := range sites {
			args := cs.Instr.Common().Args
			if len(args) > 0 && isFresh(args[0]) {
				continue
			}
			if hasWriterClass(li.stateAt(cs.Instr)) {
				continue
			}
			if cs.Caller != fn && heldAtEntry(cs.Caller, d+1) {
				continue
			}
			return false
		}
		return true
	}
	isGoBody := func(fn *ssa.Function) bool {
		for _, cs := range p.callers[fn] {
			if _, isGo := cs.Instr.(*ssa.Go); isGo {
				return true
			}
		}
		return false
	}
	// waitsBeforeWrite: in every function that rewrites the fields, a call that reaches
	// (*sync.WaitGroup).Wait can precede the rewrite (the old goroutines are joined first).
	reachesWait := map[*ssa.Function]bool{}
	for _, fn := range p.SrcFuncs {
		for _, call := range calls(fn) {
			if callee := staticCallee(call); callee != nil && qualFn(callee) == "(*sync.WaitGroup).Wait" {
				reachesWait[fn] = true
			}
		}
	}
	for changed := true; changed; {
		changed = false
		for _, fn := range p.SrcFuncs {
			if reachesWait[fn] {
				continue
			}
			for _, call := range calls(fn) {
				if _, isGo := call.(*ssa.Go); isGo {
					continue
				}
				if callee := staticCallee(call); callee != nil && reachesWait[callee] {
					reachesWait[fn] = true
					changed = true
				}
			}
		}
	}
	waitsBeforeWrite := true
	for _, a := range acc {
		if !a.Write || isFresh(a.Base) {
			continue
		}
		pre := false
		for _, call := range calls(a.Fn) {
			callee := staticCallee(call)
			if callee == nil || !reachesWait[callee] {
				continue
			}
			if call.Block() == a.Instr.Block() && instrIndex(call) < instrIndex(a.Instr) || call.Block() != a.Instr.Block() && reachAvoiding([]*ssa.BasicBlock{call.Block()}, nil, nil)[a.Instr.Block()] {
				pre = true
			}
		}
		if !pre {
			waitsBeforeWrite = false
		}
	}
	counts := map[string]int{}
	for _, a := range acc {
		if isFresh(a.Base) {
			continue
		}
		st := li.stateAt(a.Instr)
		held := false
		for id := range writerLocks {
			if _, ok := st[lockID{Root: rootExpr(a.Base), Field: id.Field, Class: id.Class}]; ok {
				held = true
			}
		}
		why := ""
		if !held && !a.Write && heldAtEntry(a.Fn, 0) {
			// (2) every in-repository call chain into this function starts on a pool no one else can see yet
			// or passes through the writers' critical section; for goroutine bodies the go statement
			// orders the rewrite before the reads and the writers wait for the goroutines (wg.Wait)
			// before the next rewrite
			if isGoBody(a.Fn) && !waitsBeforeWrite {
				why = "goroutine reads are not ordered before the next rewrite (no WaitGroup.Wait before it)"
			} else {
				held, why = true, "entered only under the writers' lock or on an unshared pool"
			}
		}
		if !held && !a.Write {
			// (3) gate: the access is reachable only across the `running != 0` edge of an atomic load of the
			// pool's running flag, inside the closeMu critical section that the stopper must enter before
			// the fields can be rewritten
			gate := guardedBy(a.Fn, a.Instr.Block(), func(f condFact) bool {
				op, l, r, ok := normCmp(f)
				if !ok || op != "!=" {
					return false
				}
				isRunningLoad := func(v ssa.Value) bool {
					call, ok := v.(*ssa.Call)
					if !ok || !callsMethod(call, "sync/atomic.LoadInt32") {
						return false
					}
					_, fld, ok := fieldAddrOf(call.Call.Args[0])
					return ok && fld != nil && fld.Name() == "running"
				}
				k1, c1 := constInt(r)
				k2, c2 := constInt(l)
				return (isRunningLoad(l) && c1 && k1 == 0) || (isRunningLoad(r) && c2 && k2 == 0)
			})
			underClose := false
			for h := range st {
				if h.Class == "WorkerPool.closeMu" {
					underClose = true
				}
			}
			if gate && underClose {
				held, why = true, "behind the running gate inside closeMu"
			}
		}
		rw := "r"
		if a.Write {
			rw = "w"
		}
		base := fmt.Sprintf("fn=%s field=WorkerPool.%s %s", fnKey(a.Fn), a.Field, rw)
		counts[base]++
		key := fmt.Sprintf("%s#%d", base, counts[base])
		if held && len(writerLocks) > 0 {
			if why == "" {
				why = "under the writers' lock"
			}
			c.ok(prop, rule, key, p.instrPos(a.Instr), why)
		} else {
			if why != "" {
				why = " (" + why + ")"
			}
			c.bad(prop, rule, key, p.instrPos(a.Instr), fmt.Sprintf("WorkerPool.%s is rewritten by Resize under %s but accessed here without that lock: a data race with a concurrent Resize%s", a.Field, writerLocks.String(), why))
		}
	}
}
