package main

import (
	"fmt"
	"sort"
	"strings"
)

var lockInfoCache = map[*Prog]*LockInfo{}

func (p *Prog) lockInfo() *LockInfo {
	if li, ok := lockInfoCache[p]; ok {
		return li
	}
	li := newLockInfo(p)
	li.run()
	lockInfoCache[p] = li
	return li
}

// lockRule declares a rule and evaluates one protected-field spec under it.
func lockRule(c *Ctx, prop, rule string, spec protSpec) int {
	p := c.P
	li := p.lockInfo()
	ok, bad, why := li.checkProtected(spec)
	counts := map[string]int{}
	keyOf := func(a access) string {
		rw := "r"
		if a.Write {
			rw = "w"
		}
		base := fmt.Sprintf("fn=%s field=%s.%s %s", fnKey(a.Fn), spec.Owner, a.Field, rw)
		counts[base]++
		return fmt.Sprintf("%s#%d", base, counts[base])
	}
	all := append(append([]access{}, ok...), bad...)
	sort.SliceStable(all, func(i, j int) bool {
		if fnKey(all[i].Fn) != fnKey(all[j].Fn) {
			return fnKey(all[i].Fn) < fnKey(all[j].Fn)
		}
		return all[i].Instr.Pos() < all[j].Instr.Pos()
	})
	isBad := map[access]bool{}
	for _, b := range bad {
		isBad[b] = true
	}
	for _, a := range all {
		k := keyOf(a)
		if isBad[a] {
			c.bad(prop, rule, k, p.instrPos(a.Instr), fmt.Sprintf("%s.%s accessed without its lock: %s — a data race under some schedule", spec.Owner, a.Field, why[a.Instr]))
		} else {
			c.ok(prop, rule, k, p.instrPos(a.Instr), "under "+spec.Owner+"."+spec.Lock)
		}
	}
	return len(all)
}

var (
	specAttrCache = protSpec{"AttrCache", []string{"cache", "accessList", "maxSize", "ttl", "negativeTTL", "enableNegative"}, "mu"}
	specDirCache  = protSpec{"DirCache", []string{"entries", "accessList", "timeout", "maxEntries", "maxDirSize"}, "mu"}
	specHandles   = protSpec{"FileHandleMap", []string{"handles", "pathHandles", "nextHandle", "freeHandles", "maxHandles"}, "RWMutex"}
	specConns     = protSpec{"Server", []string{"activeConns", "connCount"}, "connMutex"}
	specBucket    = protSpec{"TokenBucket", []string{"tokens", "lastRefill"}, "mu"}
	specPerIP     = protSpec{"PerIPLimiter", []string{"limiters", "lastCleanup"}, "mu"}
	specPerOp     = protSpec{"PerOperationLimiter", []string{"limiters", "lastCleanup"}, "mu"}
	specPortmap   = protSpec{"Portmapper", []string{"mappings"}, "mu"}
	specNodeAttrs = protSpec{"NFSNode", []string{"attrs"}, "mu"}
	specLogger    = protSpec{"AbsfsNFS", []string{"structuredLogger"}, "loggerMu"}
	specTLS       = protSpec{"TLSConfig", []string{"tlsConfig"}, "mu"}
	specRecWriter = protSpec{"RecordMarkingWriter", []string{"w"}, "mu"}
)

func init() {
	register("C29",
		"Decided (race and deadlock discipline only): (lockset) every read or write of a shared mutable location on the request path happens with its designated lock held on all CFG paths, writes under the exclusive lock — NFSNode.attrs under NFSNode.mu; AttrCache and DirCache state under their mu; FileHandleMap tables under its RWMutex; Server.activeConns/connCount under connMutex; token buckets and limiter maps under their mu; Portmapper.mappings under mu; AbsfsNFS.structuredLogger under loggerMu; WorkerPool queue/context fields under the lock Resize rewrites them with; objects allocated in the same function are exempt until shared; helpers inherit the locks held at all their call sites; (order) the lock-order graph over all mutex classes (edges for every acquisition, direct or through a callee, while another lock is held) is acyclic and no lock is re-acquired on the same instance. Not decided: linearizability, 'stale but never impossible' replies, agreement of tables with the backend after a run — history properties outside static reach.",
		commonAssume, runC29)
}

func runC29(c *Ctx) {
	const P = "C29"
	c.rule(P, "lockset", "T-LOCK: designated lock held (exclusively for writes) at every access of a protected field, on all paths, with helper entry states inherited from call sites", 150)
	c.rule(P, "order", "lock-order graph acyclic; no re-acquisition of the same mutex instance", 1)
	c.rule(P, "pool-fields", "WorkerPool.taskQueue/ctx/cancel/maxWorkers are read under the lock that guards their rewrite in Resize, or are never rewritten after Start", 1)
	n := 0
	for _, s := range []protSpec{specNodeAttrs, specAttrCache, specDirCache, specHandles, specConns, specBucket, specPerIP, specPerOp, specPortmap, specLogger} {
		n += lockRule(c, P, "lockset", s)
	}
	p := c.P
	li := p.lockInfo()
	edges := li.orderEdges()
	cyc := findCycle(edges)
	var es []string
	for _, e := range edges {
		es = append(es, e.From+"->"+e.To)
	}
	if cyc == nil {
		c.ok(P, "order", "graph", "", fmt.Sprintf("%d order edges, acyclic: %s", len(edges), strings.Join(es, " ")))
	} else {
		pos := ""
		for _, e := range edges {
			if e.From == cyc[0] && strings.HasPrefix(e.To, cyc[1]) {
				pos = e.Pos
			}
		}
		c.bad(P, "order", "cycle="+strings.Join(cyc, "->"), pos, "lock-order cycle (potential deadlock under some schedule): "+strings.Join(cyc, " -> "))
	}
	re := li.reacquisitions()
	if len(re) == 0 {
		c.ok(P, "order", "reacquire=none", "", "no call made under a mutex passes the locked object to a callee that takes the same mutex")
	}
	for _, e := range re {
		c.bad(P, "order", "reacquire="+e.Fn+":"+e.To, e.Pos, "while holding "+e.From+" the locked object is passed to a callee that acquires the same mutex again: with a writer queued between the two acquisitions (RWMutex) or unconditionally (Mutex) this deadlocks")
	}
	runPoolFields(c, P, "pool-fields")
}

// runPoolFields: WorkerPool fields rewritten in Resize must be read under the same lock everywhere else.
func runPoolFields(c *Ctx, prop, rule string) {
	p := c.P
	li := p.lockInfo()
	fields := map[string]bool{"taskQueue": true, "ctx": true, "cancel": true, "maxWorkers": true}
	acc := p.fieldAccesses("WorkerPool", fields)
	// which locks are held at every non-constructor write?
	var writerLocks lockState
	nw := 0
	for _, a := range acc {
		if !a.Write || isFresh(a.Base) {
			continue
		}
		nw++
		st := li.stateAt(a.Instr)
		norm := lockState{}
		for id, m := range st {
			if id.Root == rootExpr(a.Base) {
				norm[lockID{Root: "self", Field: id.Field, Class: id.Class}] = m
			}
		}
		if writerLocks == nil {
			writerLocks = norm
		} else {
			writerLocks = meet(writerLocks, norm)
		}
	}
	if nw == 0 {
		c.ok(prop, rule, "WorkerPool fields", "", "never rewritten after construction")
		return
	}
	counts := map[string]int{}
	for _, a := range acc {
		if isFresh(a.Base) {
			continue
		}
		st := li.stateAt(a.Instr)
		held := false
		for id := range writerLocks {
			if _, ok := st[lockID{Root: rootExpr(a.Base), Field: id.Field, Class: id.Class}]; ok {
				held = true
			}
		}
		rw := "r"
		if a.Write {
			rw = "w"
		}
		base := fmt.Sprintf("fn=%s field=WorkerPool.%s %s", fnKey(a.Fn), a.Field, rw)
		counts[base]++
		key := fmt.Sprintf("%s#%d", base, counts[base])
		if held && len(writerLocks) > 0 {
			c.ok(prop, rule, key, p.instrPos(a.Instr), "under the writers' lock")
		} else {
			c.bad(prop, rule, key, p.instrPos(a.Instr), fmt.Sprintf("WorkerPool.%s is rewritten by Resize under %s but accessed here without that lock: a data race with a concurrent Resize", a.Field, writerLocks.String()))
		}
	}
}
