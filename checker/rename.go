package main

// rename.go: undoing renames of unexported fields and functions before the rules run.
//
// The rules bind repository identifiers by name (the field CachedAttrs.isNegative, the method
// (*FileHandleMap).Allocate ...).  A pure rename of an unexported identifier changes no behaviour.  When a name
// of the reference tree (baseline_funcs.go) is missing and exactly one NEW unexported name of the same struct
// has the same field type — or exactly one new unexported function with the same receiver has the same
// signature — and the match is unique in both directions, the new name is taken to be the old identifier:
// its identifiers are renamed back in the syntax trees (by object identity, through go/types) and the package
// is type-checked again.  Anything ambiguous is left alone (and then fails as an unresolved binding, as
// before).  Exported identifiers are API: never touched.

import (
	"go/ast"
	"go/types"
	"sort"
	"strings"

	"golang.org/x/tools/go/packages"
)

// renameBack returns the renames applied ("CachedAttrs.negative -> isNegative").
func renameBack(pk *packages.Package) []string {
	info := pk.TypesInfo
	pkg := pk.Types
	q := types.RelativeTo(pkg)
	ren := map[types.Object]string{}
	var log []string

	// ---- struct fields
	for sname, base := range baselineFields {
		tn, _ := pkg.Scope().Lookup(sname).(*types.TypeName)
		if tn == nil {
			continue
		}
		st, ok := tn.Type().Underlying().(*types.Struct)
		if !ok {
			continue
		}
		cur := map[string]*types.Var{}
		for i := 0; i < st.NumFields(); i++ {
			cur[st.Field(i).Name()] = st.Field(i)
		}
		inBase := map[string]bool{}
		for _, f := range base {
			inBase[f[0]] = true
		}
		// missing baseline fields and new fields, grouped by type
		missing := map[string][]string{}
		for _, f := range base {
			if cur[f[0]] == nil && !ast.IsExported(f[0]) {
				missing[f[1]] = append(missing[f[1]], f[0])
			}
		}
		added := map[string][]*types.Var{}
		for name, v := range cur {
			if !inBase[name] && !ast.IsExported(name) && !v.Embedded() {
				t := types.TypeString(v.Type(), q)
				added[t] = append(added[t], v)
			}
		}
		for t, olds := range missing {
			if len(olds) == 1 && len(added[t]) == 1 {
				ren[added[t][0]] = olds[0]
				log = append(log, sname+"."+added[t][0].Name()+" -> "+olds[0])
			}
		}
	}

	// ---- functions and methods
	curFuncs := map[string]*types.Func{}
	scope := pkg.Scope()
	for _, name := range scope.Names() {
		switch o := scope.Lookup(name).(type) {
		case *types.Func:
			curFuncs[funcKeyOf(o)] = o
		case *types.TypeName:
			if named, ok := o.Type().(*types.Named); ok {
				for i := 0; i < named.NumMethods(); i++ {
					m := named.Method(i)
					curFuncs[funcKeyOf(m)] = m
				}
			}
		}
	}
	recvOf := func(key string) string {
		if i := strings.Index(key, ")."); i >= 0 {
			return key[:i+1]
		}
		return ""
	}
	nameOf := func(key string) string {
		if i := strings.Index(key, ")."); i >= 0 {
			return key[i+2:]
		}
		return key
	}
	type group struct{ recv, sig string }
	missingF := map[group][]string{}
	for key, sig := range baselineSigs {
		if curFuncs[key] == nil && !ast.IsExported(nameOf(key)) {
			g := group{recvOf(key), sig}
			missingF[g] = append(missingF[g], key)
		}
	}
	addedF := map[group][]*types.Func{}
	for key, f := range curFuncs {
		if _, known := baselineSigs[key]; known || ast.IsExported(f.Name()) {
			continue
		}
		if strings.HasSuffix(pk.Fset.Position(f.Pos()).Filename, "_test.go") {
			continue
		}
		g := group{recvOf(key), sigString(f)}
		addedF[g] = append(addedF[g], f)
	}
	for g, olds := range missingF {
		if len(olds) == 1 && len(addedF[g]) == 1 {
			ren[addedF[g][0]] = nameOf(olds[0])
			log = append(log, funcKeyOf(addedF[g][0])+" -> "+nameOf(olds[0]))
		}
	}
	if len(ren) == 0 {
		return nil
	}
	for _, f := range pk.Syntax {
		ast.Inspect(f, func(n ast.Node) bool {
			id, ok := n.(*ast.Ident)
			if !ok {
				return true
			}
			obj := info.Defs[id]
			if obj == nil {
				obj = info.Uses[id]
			}
			if obj != nil {
				if nm, ok := ren[obj]; ok {
					id.Name = nm
				}
			}
			return true
		})
	}
	sort.Strings(log)
	return log
}
