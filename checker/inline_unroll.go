package main

// inline_unroll.go: unrolling of `for … := range <constant table>` loops.
//
// A sequence of similar steps written as a loop over a small literal table (rows of constants, field
// pointers, function literals) is the same program as the steps written out.  The rules read the written-out
// form; this pass produces it before SSA construction: the loop is replaced by one block per row, in order,
// with the row's fields substituted for `row.field` (and the index for the key); constant conditions that
// result (`!false || isDir`) are simplified.  Done only when it is certainly the same program: the table is a
// composite literal (in the range expression, or the single definition of a local or package-level variable
// that is never written, indexed for writing, appended to or address-taken), every row expression is free of
// calls (conversions aside), there are at most maxUnrollRows rows, and the body contains no break/continue
// that refers to the loop, no label and no goto.

import (
	"go/ast"
	"go/constant"
	"go/token"
	"go/types"
	"strconv"
)

const maxUnrollRows = 24

type tableInfo struct {
	lit     *ast.CompositeLit
	mutated bool
}

// tables: variable -> its defining composite literal, for variables defined exactly once and never modified.
func (in *inliner) tables() map[types.Object]*tableInfo {
	if in.tabs != nil {
		return in.tabs
	}
	info := in.info
	tabs := map[types.Object]*tableInfo{}
	defCount := map[types.Object]int{}
	note := func(id *ast.Ident, rhs ast.Expr) {
		obj := info.Defs[id]
		if obj == nil {
			return
		}
		defCount[obj]++
		if lit, ok := ast.Unparen(rhs).(*ast.CompositeLit); ok {
			tabs[obj] = &tableInfo{lit: lit}
		}
	}
	mutate := func(e ast.Expr) {
		for {
			switch x := ast.Unparen(e).(type) {
			case *ast.IndexExpr:
				e = x.X
				continue
			case *ast.SelectorExpr:
				e = x.X
				continue
			case *ast.StarExpr:
				e = x.X
				continue
			case *ast.SliceExpr:
				e = x.X
				continue
			case *ast.Ident:
				if obj := info.Uses[x]; obj != nil {
					if t := tabs[obj]; t != nil {
						t.mutated = true
					} else {
						tabs[obj] = &tableInfo{mutated: true}
					}
				}
			}
			return
		}
	}
	for _, f := range in.pk.Syntax {
		if isTestFile(in.pk, f) {
			continue
		}
		ast.Inspect(f, func(n ast.Node) bool {
			switch x := n.(type) {
			case *ast.AssignStmt:
				if x.Tok == token.DEFINE && len(x.Lhs) == len(x.Rhs) {
					for i, l := range x.Lhs {
						if id, ok := l.(*ast.Ident); ok {
							note(id, x.Rhs[i])
						}
					}
				} else {
					for _, l := range x.Lhs {
						mutate(l)
					}
				}
			case *ast.ValueSpec:
				if len(x.Names) == len(x.Values) {
					for i, id := range x.Names {
						note(id, x.Values[i])
					}
				}
			case *ast.IncDecStmt:
				mutate(x.X)
			case *ast.UnaryExpr:
				if x.Op == token.AND {
					if _, isLit := ast.Unparen(x.X).(*ast.CompositeLit); !isLit {
						mutate(x.X)
					}
				}
			case *ast.RangeStmt:
				if x.Tok == token.ASSIGN {
					if x.Key != nil {
						mutate(x.Key)
					}
					if x.Value != nil {
						mutate(x.Value)
					}
				}
			case *ast.CallExpr:
				// append(t, …), copy(t, …), or passing the table to a function that may keep/modify it
				if id, ok := x.Fun.(*ast.Ident); ok {
					if b, isB := info.Uses[id].(*types.Builtin); isB && (b.Name() == "len" || b.Name() == "cap") {
						return true
					}
				}
				for _, a := range x.Args {
					if id, ok := ast.Unparen(a).(*ast.Ident); ok {
						if obj := info.Uses[id]; obj != nil {
							if _, isVar := obj.(*types.Var); isVar {
								if t := tabs[obj]; t != nil {
									t.mutated = true
								}
							}
						}
					}
				}
			}
			return true
		})
	}
	for obj, t := range tabs {
		if defCount[obj] != 1 {
			t.mutated = true
		}
	}
	in.tabs = tabs
	return tabs
}

func (in *inliner) pureRow(e ast.Expr) bool {
	ok := true
	ast.Inspect(e, func(n ast.Node) bool {
		switch x := n.(type) {
		case *ast.FuncLit:
			return false
		case *ast.CallExpr:
			if tv, has := in.info.Types[x.Fun]; has && tv.IsType() {
				return true
			}
			ok = false
		case *ast.UnaryExpr:
			if x.Op == token.ARROW {
				ok = false
			}
		}
		return ok
	})
	return ok
}

// unrollRange returns the unrolled form of rs, or nil.
func (in *inliner) unrollRange(rs *ast.RangeStmt) ast.Stmt {
	info := in.info
	if rs.Tok != token.DEFINE || rs.Body == nil {
		return nil
	}
	var lit *ast.CompositeLit
	switch x := ast.Unparen(rs.X).(type) {
	case *ast.CompositeLit:
		lit = x
	case *ast.Ident:
		obj := info.Uses[x]
		if obj == nil {
			return nil
		}
		t := in.tables()[obj]
		if t == nil || t.mutated || t.lit == nil {
			return in.unrollFixed(rs)
		}
		lit = t.lit
	default:
		return in.unrollFixed(rs)
	}
	at, ok := lit.Type.(*ast.ArrayType)
	if !ok || len(lit.Elts) == 0 || len(lit.Elts) > maxUnrollRows {
		return nil
	}
	tv, has := info.Types[lit]
	if !has || tv.Type == nil {
		return nil
	}
	var elemT types.Type
	switch u := tv.Type.Underlying().(type) {
	case *types.Slice:
		elemT = u.Elem()
	case *types.Array:
		elemT = u.Elem()
	default:
		return nil
	}
	for _, e := range lit.Elts {
		if _, keyed := e.(*ast.KeyValueExpr); keyed {
			return nil
		}
		if !in.pureRow(e) {
			return nil
		}
	}
	// the body must not contain labels, goto or labelled branches; plain break/continue of the loop are
	// rewritten (each row becomes a labelled one-armed switch to break out of)
	okBody := true
	usesBreak, usesContinue := false, false
	var visit func(n ast.Node, loops, breakables int)
	visit = func(n ast.Node, loops, breakables int) {
		ast.Inspect(n, func(m ast.Node) bool {
			if !okBody || m == nil {
				return false
			}
			if m == n {
				return true
			}
			switch x := m.(type) {
			case *ast.FuncLit:
				return false
			case *ast.LabeledStmt:
				okBody = false
			case *ast.ForStmt, *ast.RangeStmt:
				visit(x, loops+1, breakables+1)
				return false
			case *ast.SwitchStmt, *ast.TypeSwitchStmt, *ast.SelectStmt:
				visit(x, loops, breakables+1)
				return false
			case *ast.BranchStmt:
				switch x.Tok {
				case token.GOTO:
					okBody = false
				case token.BREAK:
					if x.Label != nil {
						okBody = false
					} else if breakables == 0 {
						usesBreak = true
					}
				case token.CONTINUE:
					if x.Label != nil {
						okBody = false
					} else if loops == 0 {
						usesContinue = true
					}
				}
			}
			return okBody
		})
	}
	visit(rs.Body, 0, 0)
	if !okBody {
		return nil
	}
	var keyObj, valObj types.Object
	var keyName, valName string
	if id, ok := rs.Key.(*ast.Ident); ok && id.Name != "_" {
		keyObj, keyName = info.Defs[id], id.Name
	}
	if rs.Value != nil {
		if id, ok := rs.Value.(*ast.Ident); ok && id.Name != "_" {
			valObj, valName = info.Defs[id], id.Name
		} else if !ok {
			return nil
		}
	}
	st, isStruct := elemT.Underlying().(*types.Struct)
	// is the value used other than through field selectors?
	wholeUse := false
	if valObj != nil {
		var parents []ast.Node
		ast.Inspect(rs.Body, func(n ast.Node) bool {
			if n == nil {
				parents = parents[:len(parents)-1]
				return true
			}
			if id, ok := n.(*ast.Ident); ok && info.Uses[id] == valObj {
				sel, isSel := parents[len(parents)-1].(*ast.SelectorExpr)
				if !isSel || sel.X != ast.Expr(id) || !isStruct {
					wholeUse = true
				}
			}
			parents = append(parents, n)
			return true
		})
	}
	out := &ast.BlockStmt{Lbrace: rs.For, Rbrace: rs.End()}
	suffix := in.fresh("")
	for k, elt := range lit.Elts {
		row, _ := ast.Unparen(elt).(*ast.CompositeLit)
		if isStruct && row == nil && valObj != nil {
			return nil
		}
		hc := &copier{in: in, rename: map[types.Object]string{}, hostCopy: true}
		fieldExpr := func(name string) ast.Expr {
			if row == nil {
				return nil
			}
			for i, e := range row.Elts {
				if kv, ok := e.(*ast.KeyValueExpr); ok {
					if id, ok := kv.Key.(*ast.Ident); ok && id.Name == name {
						return kv.Value
					}
					continue
				}
				if i < st.NumFields() && st.Field(i).Name() == name {
					return e
				}
			}
			return nil
		}
		failed := false
		hc.subst = func(e ast.Expr) ast.Expr {
			sel, ok := e.(*ast.SelectorExpr)
			if !ok || valObj == nil || !isStruct {
				return nil
			}
			id, ok := sel.X.(*ast.Ident)
			if !ok || info.Uses[id] != valObj {
				return nil
			}
			fe := fieldExpr(sel.Sel.Name)
			if fe == nil {
				z := zeroLiteral(fieldTypeOf(st, sel.Sel.Name))
				if z == nil {
					failed = true
					return nil
				}
				return z
			}
			plain := &copier{in: in, rename: map[types.Object]string{}, hostCopy: true}
			return &ast.ParenExpr{X: plain.expr(fe)}
		}
		var stmts []ast.Stmt
		if keyObj != nil {
			stmts = append(stmts, &ast.AssignStmt{Lhs: []ast.Expr{&ast.Ident{Name: keyName, NamePos: rs.Key.Pos()}}, TokPos: rs.TokPos, Tok: token.DEFINE,
				Rhs: []ast.Expr{&ast.BasicLit{Kind: token.INT, Value: strconv.Itoa(k)}}})
		}
		if valObj != nil && (wholeUse || !isStruct) {
			plain := &copier{in: in, rename: map[types.Object]string{}, hostCopy: true}
			var rhs ast.Expr = plain.expr(elt)
			if cl, ok := rhs.(*ast.CompositeLit); ok && cl.Type == nil {
				cl.Type = plain.expr(at.Elt)
			} else if _, isIface := elemT.Underlying().(*types.Interface); isIface || !isStruct {
				rhs = &ast.CallExpr{Fun: &ast.ParenExpr{X: plain.expr(at.Elt)}, Args: []ast.Expr{rhs}}
			}
			stmts = append(stmts, &ast.AssignStmt{Lhs: []ast.Expr{&ast.Ident{Name: valName, NamePos: rs.Value.Pos()}}, TokPos: rs.TokPos, Tok: token.DEFINE, Rhs: []ast.Expr{rhs}})
		}
		if usesContinue {
			hc.contLabel = "C" + suffix + "_" + strconv.Itoa(k)
		}
		if usesBreak {
			hc.breakLabel = "B" + suffix
		}
		body := hc.stmtList(rs.Body.List)
		if failed {
			return nil
		}
		blk := &ast.BlockStmt{Lbrace: rs.Body.Lbrace, List: append(stmts, body...), Rbrace: rs.Body.Rbrace}
		simplifyConsts(blk)
		if usesContinue {
			sw := &ast.SwitchStmt{Switch: rs.For, Body: &ast.BlockStmt{Lbrace: rs.For, Rbrace: rs.For, List: []ast.Stmt{&ast.CaseClause{Case: rs.For, Colon: rs.For, Body: blk.List}}}}
			out.List = append(out.List, &ast.LabeledStmt{Label: nid(hc.contLabel), Colon: rs.For, Stmt: sw})
		} else {
			out.List = append(out.List, blk)
		}
	}
	in.stats.Unrolled++
	if usesBreak {
		sw := &ast.SwitchStmt{Switch: rs.For, Body: &ast.BlockStmt{Lbrace: rs.For, Rbrace: rs.For, List: []ast.Stmt{&ast.CaseClause{Case: rs.For, Colon: rs.For, Body: out.List}}}}
		return &ast.LabeledStmt{Label: nid("B" + suffix), Colon: rs.For, Stmt: sw}
	}
	return out
}

// unrollFixed writes out a loop whose trip count is a small compile-time constant: `for i := range arr` /
// `for _, v := range arr` over a local array variable of at most maxFixedTrips elements (the value form only
// when the body does not assign to the array), or `for i := range N` with a constant N.  The rows of a
// two-element array of records (old/new directory of a RENAME) are then separate statements again.
const maxFixedTrips = 4

func (in *inliner) unrollFixed(rs *ast.RangeStmt) ast.Stmt {
	info := in.info
	if rs.Tok != token.DEFINE || rs.Body == nil {
		return nil
	}
	n := int64(-1)
	var arr *ast.Ident
	switch x := ast.Unparen(rs.X).(type) {
	case *ast.Ident:
		if tv, ok := info.Types[x]; ok && tv.Type != nil {
			if at, ok := tv.Type.Underlying().(*types.Array); ok {
				if _, isVar := info.Uses[x].(*types.Var); isVar {
					n, arr = at.Len(), x
				}
			}
		}
	default:
		if tv, ok := info.Types[rs.X]; ok && tv.Value != nil && tv.Type != nil {
			if b, ok := tv.Type.Underlying().(*types.Basic); ok && b.Info()&types.IsInteger != 0 {
				if v, exact := constantInt64(tv.Value); exact && rs.Value == nil {
					n = v
				}
			}
		}
	}
	if n <= 0 || n > maxFixedTrips {
		return nil
	}
	okBody := true
	usesBreak, usesContinue := false, false
	var visit func(nd ast.Node, loops, breakables int)
	visit = func(nd ast.Node, loops, breakables int) {
		ast.Inspect(nd, func(m ast.Node) bool {
			if !okBody || m == nil {
				return false
			}
			if m == nd {
				return true
			}
			switch x := m.(type) {
			case *ast.FuncLit:
				return false
			case *ast.LabeledStmt:
				okBody = false
			case *ast.ForStmt, *ast.RangeStmt:
				visit(x, loops+1, breakables+1)
				return false
			case *ast.SwitchStmt, *ast.TypeSwitchStmt, *ast.SelectStmt:
				visit(x, loops, breakables+1)
				return false
			case *ast.AssignStmt:
				if arr != nil && rs.Value != nil { // value form: the body must not write the array
					for _, l := range x.Lhs {
						e := l
						for {
							switch y := ast.Unparen(e).(type) {
							case *ast.IndexExpr:
								e = y.X
								continue
							case *ast.SelectorExpr:
								e = y.X
								continue
							}
							break
						}
						if id, ok := ast.Unparen(e).(*ast.Ident); ok && info.Uses[id] == info.Uses[arr] {
							okBody = false
						}
					}
				}
			case *ast.BranchStmt:
				switch x.Tok {
				case token.GOTO:
					okBody = false
				case token.BREAK:
					if x.Label != nil {
						okBody = false
					} else if breakables == 0 {
						usesBreak = true
					}
				case token.CONTINUE:
					if x.Label != nil {
						okBody = false
					} else if loops == 0 {
						usesContinue = true
					}
				}
			}
			return okBody
		})
	}
	visit(rs.Body, 0, 0)
	if !okBody {
		return nil
	}
	out := &ast.BlockStmt{Lbrace: rs.For, Rbrace: rs.End()}
	suffix := in.fresh("")
	for k := int64(0); k < n; k++ {
		hc := &copier{in: in, rename: map[types.Object]string{}, hostCopy: true}
		if usesContinue {
			hc.contLabel = "C" + suffix + "_" + strconv.FormatInt(k, 10)
		}
		if usesBreak {
			hc.breakLabel = "B" + suffix
		}
		var stmts []ast.Stmt
		idx := func() ast.Expr { return &ast.BasicLit{Kind: token.INT, Value: strconv.FormatInt(k, 10)} }
		if id, ok := rs.Key.(*ast.Ident); ok && id.Name != "_" {
			stmts = append(stmts, &ast.AssignStmt{Lhs: []ast.Expr{&ast.Ident{Name: id.Name, NamePos: id.NamePos}}, TokPos: rs.TokPos, Tok: token.DEFINE, Rhs: []ast.Expr{idx()}})
		}
		if rs.Value != nil {
			id, ok := rs.Value.(*ast.Ident)
			if !ok || arr == nil {
				return nil
			}
			if id.Name != "_" {
				stmts = append(stmts, &ast.AssignStmt{Lhs: []ast.Expr{&ast.Ident{Name: id.Name, NamePos: id.NamePos}}, TokPos: rs.TokPos, Tok: token.DEFINE,
					Rhs: []ast.Expr{&ast.IndexExpr{X: &ast.Ident{Name: arr.Name, NamePos: arr.NamePos}, Index: idx()}}})
			}
		}
		body := hc.stmtList(rs.Body.List)
		blk := &ast.BlockStmt{Lbrace: rs.Body.Lbrace, List: append(stmts, body...), Rbrace: rs.Body.Rbrace}
		if usesContinue {
			sw := &ast.SwitchStmt{Switch: rs.For, Body: &ast.BlockStmt{Lbrace: rs.For, Rbrace: rs.For, List: []ast.Stmt{&ast.CaseClause{Case: rs.For, Colon: rs.For, Body: blk.List}}}}
			out.List = append(out.List, &ast.LabeledStmt{Label: nid(hc.contLabel), Colon: rs.For, Stmt: sw})
		} else {
			out.List = append(out.List, blk)
		}
	}
	in.stats.Unrolled++
	if usesBreak {
		sw := &ast.SwitchStmt{Switch: rs.For, Body: &ast.BlockStmt{Lbrace: rs.For, Rbrace: rs.For, List: []ast.Stmt{&ast.CaseClause{Case: rs.For, Colon: rs.For, Body: out.List}}}}
		return &ast.LabeledStmt{Label: nid("B" + suffix), Colon: rs.For, Stmt: sw}
	}
	return out
}

func constantInt64(v constant.Value) (int64, bool) {
	if v == nil || v.Kind() != constant.Int {
		return 0, false
	}
	return constant.Int64Val(v)
}

func fieldTypeOf(st *types.Struct, name string) types.Type {
	for i := 0; i < st.NumFields(); i++ {
		if st.Field(i).Name() == name {
			return st.Field(i).Type()
		}
	}
	return nil
}

func zeroLiteral(t types.Type) ast.Expr {
	if t == nil {
		return nil
	}
	switch u := t.Underlying().(type) {
	case *types.Basic:
		switch {
		case u.Info()&types.IsBoolean != 0:
			return nid("false")
		case u.Info()&types.IsString != 0:
			return &ast.BasicLit{Kind: token.STRING, Value: `""`}
		case u.Info()&types.IsNumeric != 0:
			return &ast.BasicLit{Kind: token.INT, Value: "0"}
		}
	case *types.Pointer, *types.Slice, *types.Map, *types.Signature, *types.Interface, *types.Chan:
		return nid("nil")
	}
	return nil
}

// ---------------------------------------------------------------------------
// simplification of conditions that became constant

func boolLit(e ast.Expr) (bool, bool) {
	if id, ok := ast.Unparen(e).(*ast.Ident); ok && id.NamePos == token.NoPos {
		switch id.Name {
		case "true":
			return true, true
		case "false":
			return false, true
		}
	}
	if id, ok := ast.Unparen(e).(*ast.Ident); ok && (id.Name == "true" || id.Name == "false") {
		return id.Name == "true", true
	}
	return false, false
}

func simplifyExpr(e ast.Expr) ast.Expr {
	switch x := e.(type) {
	case *ast.ParenExpr:
		x.X = simplifyExpr(x.X)
		if _, ok := boolLit(x.X); ok {
			return x.X
		}
		return x
	case *ast.UnaryExpr:
		x.X = simplifyExpr(x.X)
		if x.Op == token.NOT {
			if b, ok := boolLit(x.X); ok {
				if b {
					return nid("false")
				}
				return nid("true")
			}
		}
		return x
	case *ast.BinaryExpr:
		x.X = simplifyExpr(x.X)
		x.Y = simplifyExpr(x.Y)
		if x.Op == token.LAND || x.Op == token.LOR {
			lb, lok := boolLit(x.X)
			rb, rok := boolLit(x.Y)
			and := x.Op == token.LAND
			switch {
			case lok && lb == and: // true && Y, false || Y
				return x.Y
			case lok: // false && Y, true || Y
				return x.X
			case rok && rb == and: // X && true, X || false
				return x.X
			}
		}
		return x
	}
	return e
}

func simplifyConsts(n ast.Node) {
	var fixList func(list []ast.Stmt) []ast.Stmt
	fixStmt := func(s ast.Stmt) ast.Stmt {
		ifs, ok := s.(*ast.IfStmt)
		if !ok {
			return s
		}
		ifs.Cond = simplifyExpr(ifs.Cond)
		if b, isLit := boolLit(ifs.Cond); isLit && ifs.Init == nil {
			if b {
				return ifs.Body
			}
			if ifs.Else != nil {
				return ifs.Else
			}
			return &ast.EmptyStmt{Semicolon: ifs.If, Implicit: true}
		}
		return s
	}
	fixList = func(list []ast.Stmt) []ast.Stmt {
		for i, s := range list {
			list[i] = fixStmt(s)
		}
		return list
	}
	ast.Inspect(n, func(m ast.Node) bool {
		switch x := m.(type) {
		case *ast.FuncLit:
			return false
		case *ast.BlockStmt:
			x.List = fixList(x.List)
		case *ast.CaseClause:
			x.Body = fixList(x.Body)
		case *ast.CommClause:
			x.Body = fixList(x.Body)
		case *ast.IfStmt:
			x.Cond = simplifyExpr(x.Cond)
			if ei, ok := x.Else.(*ast.IfStmt); ok {
				x.Else = fixStmt(ei)
			}
		}
		return true
	})
}
