package main

// flow.go: T-FLOW — backward value provenance on SSA.

import (
	"fmt"
	"go/token"
	"go/types"
	"sort"
	"strings"

	"golang.org/x/tools/go/ssa"
)

// Origin is a leaf of a backward slice.
type Origin struct {
	Kind string    // const | param | field | call | alloc | global | outparam | make | builtin | freevar | zero | other
	Desc string    // printable, position-free
	Val  ssa.Value // the SSA value of the leaf (call instr, const, parameter, load ...)
	Base ssa.Value // for field: the base value; for outparam: the call
	Fld  *types.Var
	Call ssa.CallInstruction // for call/outparam
	Idx  int                 // result index for call, arg index for outparam
}

type Flow struct {
	P            *Prog
	ExpandParams bool                     // join arguments over in-package call sites for parameters
	ThroughCalls map[string]bool          // qualified callee names summarised by their return values
	ThroughInPkg bool                     // summarise every in-package static callee by its return values
	StopAtField  func(*types.Var) bool    // if set and true, a load of that field is a leaf (default: all field loads are leaves)
	CallerFilter func(*ssa.Function) bool // if set, only call sites in these functions contribute arguments to a parameter
	maxDepth     int
}

func newFlow(p *Prog) *Flow { return &Flow{P: p, maxDepth: 40} }

func (f *Flow) Origins(v ssa.Value) []Origin {
	seen := map[ssa.Value]bool{}
	var out []Origin
	f.walk(v, seen, &out, 0)
	// dedupe by Desc+Val
	type k struct {
		d string
		v ssa.Value
	}
	m := map[k]bool{}
	var res []Origin
	for _, o := range out {
		kk := k{o.Desc, o.Val}
		if !m[kk] {
			m[kk] = true
			res = append(res, o)
		}
	}
	sort.SliceStable(res, func(i, j int) bool { return res[i].Desc < res[j].Desc })
	return res
}

func (f *Flow) walk(v ssa.Value, seen map[ssa.Value]bool, out *[]Origin, depth int) {
	if v == nil || seen[v] {
		return
	}
	seen[v] = true
	if depth > f.maxDepth {
		*out = append(*out, Origin{Kind: "other", Desc: "depth-limit", Val: v})
		return
	}
	switch x := v.(type) {
	case *ssa.Const:
		d := "const:nil"
		if x.Value != nil {
			d = "const:" + x.Value.ExactString()
		}
		*out = append(*out, Origin{Kind: "const", Desc: d, Val: v})
	case *ssa.Parameter:
		if f.ExpandParams {
			fn := x.Parent()
			idx := paramIndex(fn, x)
			sites := f.P.callers[fn]
			if f.CallerFilter != nil {
				var kept []*CallSite
				for _, cs := range sites {
					if f.CallerFilter(rootFn(cs.Caller)) {
						kept = append(kept, cs)
					}
				}
				sites = kept
			}
			if len(sites) > 0 && idx >= 0 {
				for _, cs := range sites {
					args := cs.Instr.Common().Args
					if cs.Instr.Common().IsInvoke() {
						// receiver is Value, args follow
						if idx == 0 {
							f.walk(cs.Instr.Common().Value, seen, out, depth+1)
							continue
						}
						if idx-1 < len(args) {
							f.walk(args[idx-1], seen, out, depth+1)
						}
						continue
					}
					if idx < len(args) {
						f.walk(args[idx], seen, out, depth+1)
					}
				}
				return
			}
		}
		*out = append(*out, Origin{Kind: "param", Desc: "param:" + fnKey(x.Parent()) + "." + x.Name(), Val: v})
	case *ssa.FreeVar:
		// captured variable: resolve to the binding in the parent
		if b := freeVarBinding(x); b != nil {
			f.walk(b, seen, out, depth+1)
			return
		}
		*out = append(*out, Origin{Kind: "freevar", Desc: "freevar:" + x.Name(), Val: v})
	case *ssa.Phi:
		for _, e := range x.Edges {
			f.walk(e, seen, out, depth+1)
		}
	case *ssa.ChangeType:
		f.walk(x.X, seen, out, depth+1)
	case *ssa.Convert:
		f.walk(x.X, seen, out, depth+1)
	case *ssa.MakeInterface:
		f.walk(x.X, seen, out, depth+1)
	case *ssa.ChangeInterface:
		f.walk(x.X, seen, out, depth+1)
	case *ssa.TypeAssert:
		f.walk(x.X, seen, out, depth+1)
	case *ssa.Slice:
		f.walk(x.X, seen, out, depth+1)
	case *ssa.SliceToArrayPointer:
		f.walk(x.X, seen, out, depth+1)
	case *ssa.BinOp:
		f.walk(x.X, seen, out, depth+1)
		f.walk(x.Y, seen, out, depth+1)
	case *ssa.Extract:
		if c, ok := x.Tuple.(ssa.CallInstruction); ok {
			f.callOrigin(c, x.Index, v, seen, out, depth)
			return
		}
		f.walk(x.Tuple, seen, out, depth+1)
	case *ssa.Call:
		f.callOrigin(x, 0, v, seen, out, depth)
	case *ssa.Lookup:
		f.walk(x.X, seen, out, depth+1)
	case *ssa.Index:
		f.walk(x.X, seen, out, depth+1)
	case *ssa.IndexAddr:
		f.walk(x.X, seen, out, depth+1)
	case *ssa.Field:
		fld := fieldOf(x.X.Type(), x.Field)
		f.fieldOrigin(x.X, fld, v, seen, out, depth)
	case *ssa.FieldAddr:
		fld := fieldOf(x.X.Type(), x.Field)
		f.fieldOrigin(x.X, fld, v, seen, out, depth)
	case *ssa.UnOp:
		switch x.Op {
		case token.MUL: // load
			switch a := x.X.(type) {
			case *ssa.FieldAddr:
				fld := fieldOf(a.X.Type(), a.Field)
				f.fieldOrigin(a.X, fld, v, seen, out, depth)
			case *ssa.Alloc:
				f.allocOrigins(a, v, seen, out, depth)
			case *ssa.Global:
				*out = append(*out, Origin{Kind: "global", Desc: "global:" + a.Name(), Val: v})
			case *ssa.FreeVar:
				if b := freeVarBinding(a); b != nil {
					if al, ok := b.(*ssa.Alloc); ok {
						f.allocOrigins(al, v, seen, out, depth)
						return
					}
					f.walk(b, seen, out, depth+1)
					return
				}
				*out = append(*out, Origin{Kind: "freevar", Desc: "freevar:" + a.Name(), Val: v})
			case *ssa.IndexAddr:
				f.walk(a.X, seen, out, depth+1)
			default:
				f.walk(x.X, seen, out, depth+1)
			}
		default:
			f.walk(x.X, seen, out, depth+1)
		}
	case *ssa.Alloc:
		*out = append(*out, Origin{Kind: "alloc", Desc: "alloc:" + x.Type().String(), Val: v})
	case *ssa.MakeSlice:
		*out = append(*out, Origin{Kind: "make", Desc: "makeslice", Val: v})
		// a fresh slice filled by a callee (ReadAt(buf, off), io.ReadFull(r, buf)) also carries that callee's data
		if refs := x.Referrers(); refs != nil {
			for _, r := range *refs {
				if ci, ok := r.(ssa.CallInstruction); ok {
					if sc := staticCallee(ci); sc != nil && f.P.byName[fnKey(sc)] == sc {
						continue // handed to an in-package function: not a fill
					}
					for i, a := range ci.Common().Args {
						if a == v {
							short := strings.ReplaceAll(calleeName(ci), absnfsPath+".", "")
							*out = append(*out, Origin{Kind: "outparam", Desc: fmt.Sprintf("outparam:%s@%d", short, i), Val: v, Call: ci, Idx: i, Base: v})
						}
					}
				}
			}
		}
	case *ssa.MakeMap:
		*out = append(*out, Origin{Kind: "make", Desc: "makemap", Val: v})
	case *ssa.MakeChan:
		*out = append(*out, Origin{Kind: "make", Desc: "makechan", Val: v})
	case *ssa.MakeClosure:
		*out = append(*out, Origin{Kind: "make", Desc: "closure:" + fnKey(x.Fn.(*ssa.Function)), Val: v})
	case *ssa.Function:
		*out = append(*out, Origin{Kind: "const", Desc: "func:" + qualFn(x), Val: v})
	case *ssa.Global:
		*out = append(*out, Origin{Kind: "global", Desc: "global:" + x.Name(), Val: v})
	case *ssa.Builtin:
		*out = append(*out, Origin{Kind: "builtin", Desc: "builtin:" + x.Name(), Val: v})
	case *ssa.Next, *ssa.Range, *ssa.Select:
		if n, ok := v.(*ssa.Next); ok {
			f.walk(n.Iter, seen, out, depth+1)
			return
		}
		if r, ok := v.(*ssa.Range); ok {
			f.walk(r.X, seen, out, depth+1)
			return
		}
		*out = append(*out, Origin{Kind: "other", Desc: fmt.Sprintf("other:%T", v), Val: v})
	default:
		*out = append(*out, Origin{Kind: "other", Desc: fmt.Sprintf("other:%T", v), Val: v})
	}
}

func (f *Flow) fieldOrigin(base ssa.Value, fld *types.Var, v ssa.Value, seen map[ssa.Value]bool, out *[]Origin, depth int) {
	name := "?"
	if fld != nil {
		name = fld.Name()
	}
	owner := recvTypeName(base.Type())
	// a struct VALUE that is a copy of a local struct (x := *p; a phi of such copies; the result record of an
	// inlined helper): the field of the struct it was copied from
	if fld != nil && depth < f.maxDepth {
		switch sv := base.(type) {
		case *ssa.UnOp:
			if al, ok := sv.X.(*ssa.Alloc); ok && sv.Op == token.MUL {
				if _, isStruct := al.Type().Underlying().(*types.Pointer).Elem().Underlying().(*types.Struct); isStruct {
					f.fieldOrigin(al, fld, v, seen, out, depth+1)
					return
				}
			}
		case *ssa.Phi:
			if _, isStruct := sv.Type().Underlying().(*types.Struct); isStruct && !seen[sv] {
				seen[sv] = true
				for _, e := range sv.Edges {
					f.fieldOrigin(e, fld, v, seen, out, depth+1)
				}
				return
			}
		}
	}
	// local struct allocated in this function: forward stores to the field
	if al, ok := base.(*ssa.Alloc); ok && fld != nil {
		// whole-struct stores (x := f() with x later addressed): the field of the stored struct value
		whole := 0
		if refs := al.Referrers(); refs != nil {
			for _, r := range *refs {
				if st, ok := r.(*ssa.Store); ok && st.Addr == ssa.Value(al) {
					if u, isLoad := st.Val.(*ssa.UnOp); isLoad && u.Op == token.MUL && u.X == ssa.Value(al) {
						continue // x = x (a named result returned as itself by an inlined helper)
					}
					whole++
					if u, isLoad := st.Val.(*ssa.UnOp); isLoad && u.Op == token.MUL && depth < f.maxDepth {
						if src, isAl := u.X.(*ssa.Alloc); isAl && src != al {
							f.fieldOrigin(src, fld, v, seen, out, depth+1) // copy of another local struct
							continue
						}
					}
					if ph, isPhi := st.Val.(*ssa.Phi); isPhi && depth < f.maxDepth {
						f.fieldOrigin(ph, fld, v, seen, out, depth+1)
						continue
					}
					*out = append(*out, Origin{Kind: "field", Desc: "field:" + owner + "." + name, Val: v, Base: st.Val, Fld: fld})
				}
			}
		}
		if whole > 0 {
			for _, s := range fieldStores(al, fld) {
				f.walk(s, seen, out, depth+1)
			}
			return
		}
		stores := fieldStores(al, fld)
		if len(stores) > 0 || !escapesAlloc(al) {
			if len(stores) == 0 {
				*out = append(*out, Origin{Kind: "zero", Desc: "zero:" + owner + "." + name, Val: v})
			}
			for _, s := range stores {
				f.walk(s, seen, out, depth+1)
			}
			// an alloc that escapes to a decoder (e.g. binary.Read(&s.Mode)) is handled by outparams of the field address
			for _, o := range fieldOutParams(al, fld) {
				*out = append(*out, o)
			}
			return
		}
	}
	*out = append(*out, Origin{Kind: "field", Desc: "field:" + owner + "." + name, Val: v, Base: base, Fld: fld})
}

// callOrigin: a call result is a leaf unless the callee is in-package and small
// enough to summarise by its returns (ThroughCalls), in which case we walk the
// returned values.
func (f *Flow) callOrigin(c ssa.CallInstruction, idx int, v ssa.Value, seen map[ssa.Value]bool, out *[]Origin, depth int) {
	name := calleeName(c)
	if b, ok := c.Common().Value.(*ssa.Builtin); ok && (b.Name() == "len" || b.Name() == "cap" || b.Name() == "min" || b.Name() == "max") {
		for _, a := range c.Common().Args {
			f.walk(a, seen, out, depth+1)
		}
		return
	}
	inPkgGeneric := func(fn *ssa.Function) bool { // an instantiation of a generic function of this package
		o := fn.Origin()
		return o != nil && o.Pkg == f.P.Pkg
	}
	if callee := staticCallee(c); callee != nil && callee.Blocks != nil && ((f.ThroughCalls != nil && f.ThroughCalls[qualFn(callee)]) || (f.ThroughInPkg && (f.P.byName[fnKey(callee)] == callee || inPkgGeneric(callee)))) {
		for _, b := range callee.Blocks {
			for _, in := range b.Instrs {
				if r, ok := in.(*ssa.Return); ok && idx < len(r.Results) {
					f.walk(r.Results[idx], seen, out, depth+1)
				}
			}
		}
		return
	}
	short := strings.ReplaceAll(name, absnfsPath+".", "")
	*out = append(*out, Origin{Kind: "call", Desc: fmt.Sprintf("call:%s#%d", short, idx), Val: v, Call: c, Idx: idx})
}

// allocOrigins: a load of a local variable cell: union of stored values, plus
// out-parameter uses (address passed to a call, e.g. binary.Read(r, order, &x)).
func (f *Flow) allocOrigins(a *ssa.Alloc, v ssa.Value, seen map[ssa.Value]bool, out *[]Origin, depth int) {
	n := 0
	forEachUseOfCell(a, func(in ssa.Instruction, how string, c ssa.CallInstruction, argIdx int) {
		switch how {
		case "store":
			n++
			f.walk(in.(*ssa.Store).Val, seen, out, depth+1)
		case "arg":
			n++
			short := strings.ReplaceAll(calleeName(c), absnfsPath+".", "")
			*out = append(*out, Origin{Kind: "outparam", Desc: fmt.Sprintf("outparam:%s@%d", short, argIdx), Val: v, Call: c, Idx: argIdx, Base: a})
		}
	})
	if n == 0 {
		*out = append(*out, Origin{Kind: "zero", Desc: "zero:" + a.Type().String(), Val: v})
	}
}

// forEachUseOfCell visits stores to the cell and calls that receive its address
// (directly, through MakeInterface/ChangeType, or through a Slice of an array
// cell), in the allocating function and in closures that capture it.
func forEachUseOfCell(a *ssa.Alloc, visit func(in ssa.Instruction, how string, c ssa.CallInstruction, argIdx int)) {
	seen := map[ssa.Value]bool{}
	var rec func(addr ssa.Value)
	rec = func(addr ssa.Value) {
		if seen[addr] {
			return
		}
		seen[addr] = true
		refs := addr.Referrers()
		if refs == nil {
			return
		}
		for _, r := range *refs {
			switch x := r.(type) {
			case *ssa.Store:
				if x.Addr == addr {
					visit(x, "store", nil, 0)
				}
			case *ssa.MakeInterface:
				rec(x)
			case *ssa.ChangeType:
				rec(x)
			case *ssa.Slice:
				rec(x)
			case *ssa.MakeClosure:
				// captured by reference: find the FreeVar in the closure
				fn := x.Fn.(*ssa.Function)
				for i, b := range x.Bindings {
					if b == addr && i < len(fn.FreeVars) {
						rec(fn.FreeVars[i])
					}
				}
			case ssa.CallInstruction:
				cc := x.Common()
				for i, arg := range cc.Args {
					if arg == addr {
						visit(r, "arg", x, i)
					}
				}
			}
		}
	}
	rec(a)
}

func paramIndex(fn *ssa.Function, p *ssa.Parameter) int {
	for i, q := range fn.Params {
		if q == p {
			return i
		}
	}
	return -1
}

// freeVarBinding returns the value bound to fv at the (unique) MakeClosure site.
func freeVarBinding(fv *ssa.FreeVar) ssa.Value {
	fn := fv.Parent()
	parent := fn.Parent()
	if parent == nil {
		return nil
	}
	idx := -1
	for i, v := range fn.FreeVars {
		if v == fv {
			idx = i
		}
	}
	if idx < 0 {
		return nil
	}
	for _, b := range parent.Blocks {
		for _, in := range b.Instrs {
			if mc, ok := in.(*ssa.MakeClosure); ok && mc.Fn == fn && idx < len(mc.Bindings) {
				return mc.Bindings[idx]
			}
		}
	}
	return nil
}

// fieldStores returns values stored into field fld of the local struct cell a.
func fieldStores(a *ssa.Alloc, fld *types.Var) []ssa.Value {
	var out []ssa.Value
	refs := a.Referrers()
	if refs == nil {
		return nil
	}
	for _, r := range *refs {
		fa, ok := r.(*ssa.FieldAddr)
		if !ok || fieldOf(fa.X.Type(), fa.Field) != fld {
			continue
		}
		if fa.Referrers() == nil {
			continue
		}
		for _, r2 := range *fa.Referrers() {
			if st, ok := r2.(*ssa.Store); ok && st.Addr == fa {
				out = append(out, st.Val)
			}
		}
	}
	return out
}

// fieldOutParams: the address of field fld of cell a passed to a call.
func fieldOutParams(a *ssa.Alloc, fld *types.Var) []Origin {
	var out []Origin
	refs := a.Referrers()
	if refs == nil {
		return nil
	}
	for _, r := range *refs {
		fa, ok := r.(*ssa.FieldAddr)
		if !ok || fieldOf(fa.X.Type(), fa.Field) != fld {
			continue
		}
		var rec func(addr ssa.Value)
		rec = func(addr ssa.Value) {
			if addr.Referrers() == nil {
				return
			}
			for _, r2 := range *addr.Referrers() {
				switch x := r2.(type) {
				case *ssa.MakeInterface:
					rec(x)
				case *ssa.ChangeType:
					rec(x)
				case ssa.CallInstruction:
					for i, arg := range x.Common().Args {
						if arg == addr {
							short := strings.ReplaceAll(calleeName(x), absnfsPath+".", "")
							out = append(out, Origin{Kind: "outparam", Desc: fmt.Sprintf("outparam:%s@%d", short, i), Val: addr, Call: x, Idx: i, Base: a})
						}
					}
				}
			}
		}
		rec(fa)
	}
	return out
}

// escapesAlloc: conservative — the cell's address is used by anything other
// than field address computation, loads and stores.
func escapesAlloc(a *ssa.Alloc) bool {
	refs := a.Referrers()
	if refs == nil {
		return false
	}
	for _, r := range *refs {
		switch x := r.(type) {
		case *ssa.FieldAddr, *ssa.UnOp:
		case *ssa.Store:
			if x.Val == a {
				return true
			}
		default:
			return true
		}
	}
	return false
}

func originDescs(os []Origin) []string {
	var s []string
	for _, o := range os {
		s = append(s, o.Desc)
	}
	return s
}

func hasOrigin(os []Origin, pred func(Origin) bool) bool {
	for _, o := range os {
		if pred(o) {
			return true
		}
	}
	return false
}

func allOrigins(os []Origin, pred func(Origin) bool) bool {
	for _, o := range os {
		if !pred(o) {
			return false
		}
	}
	return len(os) > 0
}
