package main

import (
	"fmt"
	"strings"

	"golang.org/x/tools/go/ssa"
)

func init() {
	register("C03",
		"Decided (structure of the CREATE call tree): (notrunc) no backend call that truncates an existing file is reachable from the CREATE handler — FileSystem.Create (documented O_CREATE|O_RDWR|O_TRUNC) or OpenFile whose possible constant flags contain O_TRUNC — unless it is control-dependent on the decoded sattr3 size flag; (excl) the tree contains an existence-exclusive creation (OpenFile with O_CREATE|O_EXCL) or an Lstat/Stat probe of the target whose selection depends on the decoded createhow3 discriminant, so that GUARDED/EXCLUSIVE can answer NFS3ERR_EXIST; (verf) the 8-byte EXCLUSIVE verifier read from the wire flows somewhere (comparison, store, call argument) rather than being read and dropped. Not decided: the outcome for every (mode x existing-kind x sattr) cell; what the backend does with O_EXCL.",
		commonAssume, runC03)
}

func runC03(c *Ctx) {
	p := c.P
	const P = "C03"
	c.rule(P, "notrunc", "no truncating creator (FS.Create / OpenFile|O_TRUNC) reachable from the CREATE handler unless guarded by sattr3.SetSize", 1)
	c.rule(P, "excl", "CREATE tree contains an O_CREATE|O_EXCL open (or an existence probe) selected by the createhow3 discriminant", 1)
	c.rule(P, "verf", "the EXCLUSIVE verifier decoded from the wire is used (compared / stored / passed on), not dropped", 1)
	ent, err := p.entrySet()
	if err != nil {
		c.undecided(P, "notrunc", "entries", "", err.Error())
		return
	}
	hc := ent.Handlers[8]
	if hc == nil {
		c.undecided(P, "notrunc", "proc=CREATE", "", "no CREATE handler")
		return
	}
	reach := p.reachableFrom([]*ssa.Function{hc})
	runC03Rollback(c, hc, reach)
	setSize := p.field("sattr3", "SetSize")
	nCreators := 0
	hasExcl := false
	var exclCall ssa.CallInstruction
	var exclFn *ssa.Function
	for _, fn := range p.SrcFuncs {
		if !reach[fn] {
			continue
		}
		for _, call := range calls(fn) {
			bc := asBackendCall(call)
			if bc == nil || bc.OnFile {
				continue
			}
			key := fmt.Sprintf("sink=%s:%s#%d", fnKey(fn), shortCallee(call), ordinal(fn, call))
			switch bc.Method {
			case "Create":
				nCreators++
				guarded := setSize != nil && guardedBy(fn, call.Block(), fieldGuard(setSize, true))
				c.verdictIf(guarded, P, "notrunc", key, p.instrPos(call), "truncating create only when size is explicitly set",
					"CREATE reaches FileSystem.Create, which opens with O_CREATE|O_RDWR|O_TRUNC: an existing file's data is destroyed by UNCHECKED, GUARDED and EXCLUSIVE creates alike")
			case "OpenFile":
				flags, ok := statusConsts(p, call.Common().Args[1], 0)
				if !ok {
					c.undecided(P, "notrunc", key, p.instrPos(call), "OpenFile flag is not a resolvable set of constants")
					continue
				}
				creates, trunc := false, false
				for _, f := range flags {
					if f&oCREATE != 0 {
						creates = true
						if f&oTRUNC != 0 {
							trunc = true
						}
						if f&oEXCL != 0 {
							hasExcl = true
							exclCall, exclFn = call, fn
						}
					}
				}
				if !creates {
					continue
				}
				nCreators++
				if trunc {
					guarded := setSize != nil && guardedBy(fn, call.Block(), fieldGuard(setSize, true))
					c.verdictIf(guarded, P, "notrunc", key, p.instrPos(call), "O_TRUNC only when size is explicitly set", "CREATE opens the target with O_CREATE|O_TRUNC: an existing file's data is destroyed")
				} else {
					var fs []string
					for _, f := range flags {
						fs = append(fs, flagString(f))
					}
					c.ok(P, "notrunc", key, p.instrPos(call), "creating open without O_TRUNC: "+strings.Join(fs, " / "))
				}
			}
		}
	}
	if nCreators == 0 {
		c.undecided(P, "notrunc", "tree=CREATE", p.pos(hc.Pos()), "no creating backend call found in the CREATE call tree")
	}

	// excl: exclusive open exists and depends on createHow
	createHowDep := false
	var why string
	if hasExcl {
		// the flag value or the call must depend on a wire-decoded discriminant: some controlling fact of
		// the call block, or a phi selecting the flag, compares a value whose origin is the createhow word.
		fl := newFlow(p)
		fl.ExpandParams = true
		dep := func(v ssa.Value) bool {
			for _, o := range fl.Origins(v) {
				if o.Kind == "outparam" && strings.HasPrefix(o.Desc, "outparam:encoding/binary.Read@2") && fnKey(o.Call.Parent()) == fnKey(hc) {
					return true
				}
			}
			return false
		}
		for _, f := range p.facts(exclCall.Block()) {
			if bo, ok := f.V.(*ssa.BinOp); ok && (dep(bo.X) || dep(bo.Y)) {
				createHowDep = true
			}
		}
		// data dependence: flag argument is a phi/param whose selection is controlled by the discriminant
		flagArg := exclCall.Common().Args[1]
		if _, isConst := flagArg.(*ssa.Const); !isConst {
			if depOnDiscriminant(p, fl, flagArg, dep, 0) {
				createHowDep = true
			}
		}
		if !createHowDep {
			why = "an O_EXCL open exists in " + fnKey(exclFn) + " but nothing ties it to the decoded createhow3 value"
		}
	} else {
		why = "no OpenFile with O_CREATE|O_EXCL (and no existence probe selected by createhow3) in the CREATE call tree: GUARDED cannot fail with NFS3ERR_EXIST and EXCLUSIVE cannot detect a foreign file"
	}
	// alternative accepted design: the creating open is ALWAYS exclusive, and the handler turns the
	// already-exists error into success only for modes other than GUARDED
	if hasExcl && !createHowDep {
		if ok2, why2 := guardedCannotSucceedOnExisting(p, hc); ok2 {
			createHowDep = true
		} else {
			why = why2
		}
	}
	c.verdictIf(hasExcl && createHowDep, P, "excl", "tree=CREATE exclusive-create", p.pos(hc.Pos()), "exclusive creation; GUARDED cannot succeed on an existing name", why)

	// verf: [8]byte cell filled by io.ReadFull on the createHow==EXCLUSIVE edge
	found := false
	for _, b := range hc.Blocks {
		for _, in := range b.Instrs {
			al, ok := in.(*ssa.Alloc)
			if !ok || !strings.HasSuffix(al.Type().String(), "[8]byte") {
				continue
			}
			readFull, other := 0, 0
			var walk func(v ssa.Value)
			seen := map[ssa.Value]bool{}
			walk = func(v ssa.Value) {
				if seen[v] || v.Referrers() == nil {
					return
				}
				seen[v] = true
				for _, r := range *v.Referrers() {
					switch x := r.(type) {
					case *ssa.Slice:
						walk(x)
					case *ssa.UnOp:
						walk(x)
					case *ssa.IndexAddr:
						walk(x)
					case ssa.CallInstruction:
						if isCallTo(x, "io.ReadFull") {
							readFull++
						} else {
							other++
						}
					case *ssa.Store:
						if x.Val == v {
							other++
						}
					case *ssa.BinOp, *ssa.MakeInterface, *ssa.Phi, *ssa.Convert, *ssa.ChangeType:
						other++
					}
				}
			}
			walk(al)
			if readFull == 0 {
				continue
			}
			found = true
			c.verdictIf(other > 0, P, "verf", "cell=createverf3", p.instrPos(in), "verifier is used after decoding",
				"the EXCLUSIVE create verifier is read from the request and dropped: a retransmission cannot be told from a different client's create, so an existing file is either always accepted or always refused")
		}
	}
	if !found {
		c.undecided(P, "verf", "cell=createverf3", p.pos(hc.Pos()), "no 8-byte verifier cell decoded in the CREATE handler")
	}
}

// depOnDiscriminant: v (possibly through parameters/phis) is selected under a
// controlling comparison of a discriminant-derived value.
func depOnDiscriminant(p *Prog, fl *Flow, v ssa.Value, dep func(ssa.Value) bool, depth int) bool {
	if depth > 6 {
		return false
	}
	switch x := v.(type) {
	case *ssa.Phi:
		for i, e := range x.Edges {
			pred := x.Block().Preds[i]
			facts := append(append([]condFact{}, p.facts(pred)...), edgeFacts(pred, x.Block())...)
			for _, f := range facts {
				if bo, ok := f.V.(*ssa.BinOp); ok && (dep(bo.X) || dep(bo.Y)) {
					return true
				}
			}
			if depOnDiscriminant(p, fl, e, dep, depth+1) {
				return true
			}
		}
	case *ssa.Parameter:
		fn := x.Parent()
		idx := paramIndex(fn, x)
		for _, cs := range p.callers[fn] {
			args := cs.Instr.Common().Args
			if idx < len(args) {
				if dep(args[idx]) || depOnDiscriminant(p, fl, args[idx], dep, depth+1) {
					return true
				}
			}
		}
	case *ssa.BinOp:
		return depOnDiscriminant(p, fl, x.X, dep, depth+1) || depOnDiscriminant(p, fl, x.Y, dep, depth+1)
	case *ssa.Convert:
		return depOnDiscriminant(p, fl, x.X, dep, depth+1)
	case *ssa.UnOp:
		if al, ok := x.X.(*ssa.Alloc); ok {
			res := false
			forEachUseOfCell(al, func(in ssa.Instruction, how string, c ssa.CallInstruction, argIdx int) {
				if how == "store" {
					st := in.(*ssa.Store)
					for _, f := range p.facts(st.Block()) {
						if bo, ok := f.V.(*ssa.BinOp); ok && (dep(bo.X) || dep(bo.Y)) {
							res = true
						}
					}
				}
			})
			return res
		}
	}
	return false
}
