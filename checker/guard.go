package main

// guard.go: T-GUARD — interprocedural dominating-guard check — and the entry set.

import (
	"fmt"
	"go/token"
	"go/types"
	"sort"
	"strings"

	"golang.org/x/tools/go/ssa"
)

// entrySet: the request-path roots.
type entries struct {
	Handlers   map[uint32]*ssa.Function // nfsHandlers table: procedure number -> handler
	Mount      *ssa.Function            // handleMountCall
	NFSCall    *ssa.Function            // handleNFSCall
	HandleCall *ssa.Function
	ConnLoop   *ssa.Function
}

// readDispatchTable reads the nfsHandlers composite literal from the package
// initialiser: MapUpdate(key const, value thunk/func).
func (p *Prog) readDispatchTable() (map[uint32]*ssa.Function, error) {
	init := p.Pkg.Func("init")
	if init == nil {
		return nil, fmt.Errorf("no package initialiser")
	}
	g := p.Pkg.Var("nfsHandlers")
	if g == nil {
		return nil, fmt.Errorf("global nfsHandlers not found")
	}
	// find the map value stored into the global
	var m ssa.Value
	for _, b := range init.Blocks {
		for _, in := range b.Instrs {
			if st, ok := in.(*ssa.Store); ok && st.Addr == g {
				m = st.Val
			}
		}
	}
	if m == nil {
		return nil, fmt.Errorf("no store to nfsHandlers in init")
	}
	out := map[uint32]*ssa.Function{}
	for _, b := range init.Blocks {
		for _, in := range b.Instrs {
			mu, ok := in.(*ssa.MapUpdate)
			if !ok || mu.Map != m {
				continue
			}
			k, ok := constInt(mu.Key)
			if !ok {
				return nil, fmt.Errorf("non-constant key in nfsHandlers literal at %s", p.instrPos(in))
			}
			fn := p.funcValue(mu.Value)
			if fn == nil {
				return nil, fmt.Errorf("unresolved handler value for procedure %d", k)
			}
			out[uint32(k)] = fn
		}
	}
	return out, nil
}

// funcValue resolves a function-typed SSA value to the source function it denotes
// (looking through ChangeType, thunks and bound-method wrappers).
func (p *Prog) funcValue(v ssa.Value) *ssa.Function {
	v = unwrap(v)
	switch x := v.(type) {
	case *ssa.Function:
		return p.throughSynthetic(x)
	case *ssa.MakeClosure:
		if f, ok := x.Fn.(*ssa.Function); ok {
			return p.throughSynthetic(f)
		}
	}
	return nil
}

func (p *Prog) throughSynthetic(f *ssa.Function) *ssa.Function {
	for i := 0; i < 3 && f != nil; i++ {
		if p.byName[fnKey(f)] == f {
			return f
		}
		if f.Synthetic == "" || f.Blocks == nil {
			return nil
		}
		var next *ssa.Function
		for _, b := range f.Blocks {
			for _, in := range b.Instrs {
				if c, ok := in.(ssa.CallInstruction); ok {
					if t := staticCallee(c); t != nil {
						next = t
					}
				}
			}
		}
		f = next
	}
	return nil
}

func (p *Prog) entrySet() (*entries, error) {
	h, err := p.readDispatchTable()
	if err != nil {
		return nil, err
	}
	e := &entries{Handlers: h,
		Mount:      p.Fn("(*NFSProcedureHandler).handleMountCall"),
		NFSCall:    p.Fn("(*NFSProcedureHandler).handleNFSCall"),
		HandleCall: p.Fn("(*NFSProcedureHandler).HandleCall"),
		ConnLoop:   p.Fn("(*Server).handleConnectionLoop"),
	}
	if e.Mount == nil || e.NFSCall == nil || e.HandleCall == nil || e.ConnLoop == nil {
		return nil, fmt.Errorf("entry anchor missing (handleMountCall/handleNFSCall/HandleCall/handleConnectionLoop)")
	}
	return e, nil
}

// procEntries returns handler functions + mount handler, sorted by key.
func (e *entries) procEntries() []*ssa.Function {
	set := map[*ssa.Function]bool{}
	for _, f := range e.Handlers {
		set[f] = true
	}
	set[e.Mount] = true
	var out []*ssa.Function
	for f := range set {
		out = append(out, f)
	}
	sort.Slice(out, func(i, j int) bool { return fnKey(out[i]) < fnKey(out[j]) })
	return out
}

// ---------------------------------------------------------------------------

type guardResult struct {
	Guarded   bool
	Chain     []string // call chain from the violating entry down to the sink
	Entry     *ssa.Function
	Unreached bool // sink not reachable from any entry
}

// liftGuard decides whether instruction `sink` in fn is reachable from an entry
// function's entry block without crossing a safe edge.  An instruction is
// guarded in fn if all CFG paths to it cross a safe edge; otherwise the
// obligation moves to each in-package call site of fn.
func (p *Prog) liftGuard(fn *ssa.Function, sink ssa.Instruction, safe func(condFact) bool, isEntry map[*ssa.Function]bool, reach map[*ssa.Function]bool) guardResult {
	type key struct {
		fn *ssa.Function
		in ssa.Instruction
	}
	memo := map[key]*guardResult{}
	var rec func(fn *ssa.Function, in ssa.Instruction, depth int) guardResult
	rec = func(fn *ssa.Function, in ssa.Instruction, depth int) guardResult {
		k := key{fn, in}
		if r, ok := memo[k]; ok {
			if r == nil { // in progress: recursion — treat as guarded along this cycle
				return guardResult{Guarded: true}
			}
			return *r
		}
		memo[k] = nil
		res := guardResult{}
		here := fmt.Sprintf("%s@%s", fnKey(fn), p.instrPos(in))
		if guardedBy(fn, in.Block(), safe) {
			res.Guarded = true
		} else if isEntry[fn] {
			res = guardResult{Guarded: false, Chain: []string{here}, Entry: fn}
		} else if depth > 12 {
			res = guardResult{Guarded: false, Chain: []string{here, "depth-limit"}}
		} else {
			res.Guarded = true
			res.Unreached = true
			for _, cs := range p.callers[fn] {
				if !reach[cs.Caller] {
					continue
				}
				res.Unreached = false
				r := rec(cs.Caller, cs.Instr, depth+1)
				if !r.Guarded {
					res = guardResult{Guarded: false, Chain: append(append([]string{}, r.Chain...), here), Entry: r.Entry}
					break
				}
			}
		}
		memo[k] = &res
		return res
	}
	return rec(fn, sink, 0)
}

// withBoolSummaries extends a safe-edge predicate with guard functions: the
// fact `F(args) == true` is safe when F is an in-package boolean function all
// of whose `true` results are themselves implied by safe facts inside F.
func (p *Prog) withBoolSummaries(safe func(condFact) bool) func(condFact) bool {
	memo := map[*ssa.Function]int{}
	var wrapped func(condFact) bool
	var trueImplies func(fn *ssa.Function, v ssa.Value, at *ssa.BasicBlock, d int) bool
	trueImplies = func(fn *ssa.Function, v ssa.Value, at *ssa.BasicBlock, d int) bool {
		if d > 8 {
			return false
		}
		switch x := v.(type) {
		case *ssa.Const:
			if x.Value != nil && x.Value.String() == "false" {
				return true
			}
			return guardedBy(fn, at, wrapped)
		case *ssa.Phi:
			for i, e := range x.Edges {
				if !trueImplies(fn, e, x.Block().Preds[i], d+1) {
					return false
				}
			}
			return true
		}
		return wrapped(condFact{V: v, Val: true}) || guardedBy(fn, at, wrapped)
	}
	wrapped = func(f condFact) bool {
		if safe(f) {
			return true
		}
		call, ok := f.V.(*ssa.Call)
		if !ok || !f.Val {
			return false
		}
		callee := staticCallee(call)
		if callee == nil || callee.Blocks == nil || p.byName[fnKey(callee)] != callee {
			return false
		}
		if r := callee.Signature.Results(); r.Len() != 1 || r.At(0).Type().String() != "bool" {
			return false
		}
		switch memo[callee] {
		case 1:
			return true
		case 2, 3:
			return false
		}
		memo[callee] = 3 // in progress
		good := true
		for _, b := range callee.Blocks {
			if b == callee.Recover {
				continue
			}
			for _, in := range b.Instrs {
				if r, ok := in.(*ssa.Return); ok {
					if !trueImplies(callee, retVal(r, 0), b, 0) {
						good = false
					}
				}
			}
		}
		if good {
			memo[callee] = 1
		} else {
			memo[callee] = 2
		}
		return good
	}
	return wrapped
}

// fieldGuard builds a safe-edge predicate: "load of struct field `fld` has value `want`".
func fieldGuard(fld *types.Var, want bool) func(condFact) bool {
	return func(f condFact) bool {
		_, fv, ok := fieldLoad(f.V)
		return ok && fv == fld && f.Val == want
	}
}

// openFlagConst returns the constant flag of an OpenFile backend call.
func openFlagConst(c ssa.CallInstruction) (int64, bool) {
	args := c.Common().Args
	if len(args) < 2 {
		return 0, false
	}
	return constInt(args[1])
}

func flagString(f int64) string {
	var parts []string
	acc := f & 3
	switch acc {
	case 0:
		parts = append(parts, "O_RDONLY")
	case 1:
		parts = append(parts, "O_WRONLY")
	case 2:
		parts = append(parts, "O_RDWR")
	}
	for _, x := range []struct {
		bit  int64
		name string
	}{{oCREATE, "O_CREATE"}, {oEXCL, "O_EXCL"}, {oTRUNC, "O_TRUNC"}, {oAPPEND, "O_APPEND"}, {oSYNC, "O_SYNC"}} {
		if f&x.bit == x.bit {
			parts = append(parts, x.name)
		}
	}
	return strings.Join(parts, "|")
}

var _ = token.ADD
