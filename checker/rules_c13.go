package main

import (
	"fmt"
	"go/token"
	"strings"

	"golang.org/x/tools/go/ssa"
)

func init() {
	register("C13",
		"Decided (bounds and structure, not values): (alloc) every allocation in the package whose size derives from a wire-decoded value (results of xdrDecodeUint32 / binary.Read / byteReader.readUint32, masked fragment headers) is reachable only across the accepting edge of a comparison of that value against the documented limit — string 8192, auth body 400, file handle 64, 16 auxiliary gids, accumulated record 1 MiB, WRITE payload TransferSize — and the constant equals the oracle; (limits-agree) sibling decoders of the same wire type use the same limit; (consume) in each opaque/string decoder the padding length derives from the same decoded length as the body; (record) ReadRecord tests the length of the very buffer whose bytes it returns, never resets that buffer inside the fragment loop, and finishes only on a last-fragment header; (write-record) WriteRecord sets the last-fragment bit exactly on the fragment that exhausts the data (`remaining == fragmentLen`, or an equivalent comparison of offset+fragmentLen with len(data)), and for empty data. Not decided: round-trip equality of values, the value of the padding formula, all fragmentations of a record — these quantify over byte strings.",
		commonAssume, runC13)
	register("C15",
		"Decided (structure only): (alloc) the same wire-sized-allocation bounds as C13 on the connection path; (once-in-order) in the connection loop no path writes two replies for one call and no goroutine is started between reading a call and writing its reply, and the reply written is the one returned for the call read in that iteration; (close-on-garbage) the error edges of ReadCall and HandleCall leave the loop to the function exit where the deferred conn.Close runs, never back to the loop head; (recover) the per-connection goroutine installs a deferred recover before serving; (hazards) every explicit panic hazard reachable from a goroutine without recover — calls to panic and single-result type assertions — is in a reviewed table with the who-stores argument that discharges it. Not decided: nil-dereference freedom in general, heap growth in bytes, survival measured on a live process.",
		commonAssume, runC15)
}

// wireOrigin: the value (transitively) derives from a wire-decoded integer.
func wireCalls(fl *Flow, v ssa.Value) []Origin {
	var out []Origin
	for _, o := range fl.Origins(v) {
		switch {
		case o.Kind == "call" && (strings.Contains(o.Desc, "xdrDecodeUint32") || strings.Contains(o.Desc, "readUint32")):
			out = append(out, o)
		case o.Kind == "outparam" && strings.HasPrefix(o.Desc, "outparam:encoding/binary.Read"):
			out = append(out, o)
		}
	}
	return out
}

type allocSite struct {
	Fn   *ssa.Function
	Make *ssa.MakeSlice
	Wire []Origin
}

// limit oracle: function -> accepted constant bounds (ORACLES.md A7)
var limitOracle = map[string][]int64{
	"xdrDecodeString":          {8192},
	"(*byteReader).readString": {8192},
	"DecodeRPCCall":            {400},
	"(*Portmapper).skipAuth":   {400},
	"xdrDecodeFileHandle":      {64},
	"ParseAuthSysCredential":   {16},
}

// boundFact: fact says K >= x or K > x (x bounded above by constant K) for x related to the wire origins.
func boundOf(p *Prog, fl *Flow, f condFact, wire []Origin) (k int64, strict bool, nonConst ssa.Value, ok bool) {
	op, l, r, okc := normCmp(f)
	if !okc || (op != ">=" && op != ">") {
		return 0, false, nil, false
	}
	related := func(v ssa.Value) bool {
		for _, o := range fl.Origins(v) {
			for _, w := range wire {
				if o.Val == w.Val || (o.Call != nil && o.Call == w.Call && o.Kind == w.Kind) {
					return true
				}
			}
		}
		return false
	}
	if !related(r) {
		return 0, false, nil, false
	}
	if kc, isC := constInt(l); isC {
		return kc, op == ">", nil, true
	}
	return 0, op == ">", l, true
}

func runAllocRule(c *Ctx, prop string, only func(fn *ssa.Function) bool) {
	p := c.P
	fl := newFlow(p)
	perFn := map[string]int{}
	for _, fn := range p.SrcFuncs {
		if only != nil && !only(fn) {
			continue
		}
		for _, b := range fn.Blocks {
			for _, in := range b.Instrs {
				ms, ok := in.(*ssa.MakeSlice)
				if !ok {
					continue
				}
				wire := wireCalls(fl, ms.Len)
				if len(wire) == 0 {
					continue
				}
				perFn[fnKey(fn)]++
				key := fmt.Sprintf("alloc=%s:make#%d", fnKey(fn), perFn[fnKey(fn)])
				// find bounding facts
				var consts []int64
				var nonConst []ssa.Value
				for _, f := range p.facts(b) {
					if k, strict, nc, ok := boundOf(p, fl, f, wire); ok {
						if nc != nil {
							nonConst = append(nonConst, nc)
						} else {
							if strict {
								k--
							}
							consts = append(consts, k)
						}
					}
				}
				want, hasOracle := limitOracle[fnKey(fn)]
				switch {
				case len(consts) == 0 && len(nonConst) == 0:
					// padding idiom: (4 - n%4)%4 is bounded by construction
					if isPadExpr(ms.Len) {
						c.ok(prop, "alloc", key, p.instrPos(in), "padding length 0..3 by construction")
						continue
					}
					c.bad(prop, "alloc", key, p.instrPos(in), "allocation sized by a wire value ("+strings.Join(originDescs(wire), ",")+") is reachable without any upper-bound comparison of that value: a client can make the server allocate what it asks for")
				case hasOracle:
					best := consts
					okv := false
					for _, k := range best {
						for _, w := range want {
							if k == w {
								okv = true
							}
						}
					}
					// derived sizes (padded handle discard) may be bounded through the same test
					if okv {
						c.ok(prop, "alloc", key, p.instrPos(in), fmt.Sprintf("bounded by %v before the allocation", consts))
					} else {
						c.bad(prop, "alloc", key, p.instrPos(in), fmt.Sprintf("allocation is bounded by %v but the documented limit for %s is %v", consts, fnKey(fn), want))
					}
				default:
					desc := checkConfigBound(p, fl, fn, nonConst, consts)
					if desc != "" {
						c.ok(prop, "alloc", key, p.instrPos(in), desc)
					} else {
						c.bad(prop, "alloc", key, p.instrPos(in), fmt.Sprintf("allocation in %s is bounded by something other than a documented limit (constants %v)", fnKey(fn), consts))
					}
				}
			}
		}
	}
}

func isPadExpr(v ssa.Value) bool {
	// ((4 - (x % 4)) % 4) possibly converted
	v = unwrap(v)
	bo, ok := v.(*ssa.BinOp)
	if !ok || bo.Op != token.REM {
		return false
	}
	k, isC := constInt(bo.Y)
	return isC && k == 4
}

// checkConfigBound: bounds that come from configuration: ReadRecord (MaxRecordSize / DefaultMaxRecordSize), handleWrite (TransferSize or 1 MiB default).
func checkConfigBound(p *Prog, fl *Flow, fn *ssa.Function, nonConst []ssa.Value, consts []int64) string {
	switch fnKey(fn) {
	case "(*RecordMarkingReader).ReadRecord":
		for _, v := range nonConst {
			good := true
			os := fl.Origins(v)
			for _, o := range os {
				switch {
				case o.Kind == "field" && o.Fld != nil && o.Fld.Name() == "MaxRecordSize":
				case o.Kind == "const" && o.Desc == "const:1048576":
				default:
					good = false
				}
			}
			if good && len(os) > 0 {
				return "bounded by MaxRecordSize (default 1 MiB)"
			}
		}
	case "(*NFSProcedureHandler).handleWrite":
		for _, v := range nonConst {
			os := fl.Origins(v)
			hasTS := hasOrigin(os, func(o Origin) bool { return o.Kind == "field" && o.Fld != nil && o.Fld.Name() == "TransferSize" })
			if hasTS {
				return "bounded by TransferSize (1 MiB when unset)"
			}
		}
	}
	return ""
}

func runC13(c *Ctx) {
	p := c.P
	const P = "C13"
	c.rule(P, "alloc", "wire-sized allocation ⇒ dominated by the accepting edge of a comparison with the documented limit", 9)
	c.rule(P, "limits-agree", "sibling decoders use the same limit constant (strings 8192; auth bodies 400); MaxRecordSize written only by the constructor with 1 MiB", 3)
	c.rule(P, "consume", "padding consumed is computed from the same decoded length as the body", 3)
	c.rule(P, "record", "ReadRecord: size test on the returned buffer's own length; no Reset in the fragment loop; completes only on a last-fragment header", 3)
	c.rule(P, "write-record", "WriteRecord: last-fragment bit exactly on the exhausting fragment and for empty data", 2)
	runFullReadAs(c, P)
	runNoWrapAs(c, P)
	runAllFragmentsAs(c, P)
	runAllocRule(c, P, nil)

	// byteReader.readString bound (no make, slices the body)
	rs := p.Fn("(*byteReader).readString")
	if rs != nil {
		good := false
		for _, b := range rs.Blocks {
			ifi := blockIf(b)
			if ifi == nil {
				continue
			}
			if bo, ok := ifi.Cond.(*ssa.BinOp); ok && bo.Op == token.GTR {
				if k, isC := constInt(bo.Y); isC && k == 8192 && rejectEdgeFrom(p, b, b.Succs[0], true) {
					good = true
				}
			}
		}
		c.verdictIf(good, P, "limits-agree", "fn=(*byteReader).readString limit=8192", p.pos(rs.Pos()), "same limit as xdrDecodeString", "AUTH_SYS machine-name decoder does not reject lengths > 8192")
	}
	// MaxRecordSize writers
	mrs := p.field("RecordMarkingReader", "MaxRecordSize")
	okW := true
	whyW := ""
	for _, fn := range p.SrcFuncs {
		for _, b := range fn.Blocks {
			for _, in := range b.Instrs {
				st, ok := in.(*ssa.Store)
				if !ok {
					continue
				}
				base, f, isFA := fieldAddrOf(st.Addr)
				if !isFA || f != mrs {
					continue
				}
				k, isC := constInt(st.Val)
				if !isFresh(base) || !isC || k != 1<<20 {
					okW = false
					whyW = "MaxRecordSize set to something other than 1 MiB at " + p.instrPos(in)
				}
			}
		}
	}
	c.verdictIf(okW, P, "limits-agree", "field=RecordMarkingReader.MaxRecordSize", "", "only the constructor stores it, with 1 MiB", whyW)
	if v, ok := p.constVal("MAX_RPC_AUTH_LENGTH"); ok {
		c.verdictIf(v == 400, P, "limits-agree", "const=MAX_RPC_AUTH_LENGTH", "", "400", fmt.Sprintf("is %d, RFC 1831 says 400", v))
	}
	if v, ok := p.constVal("MAX_XDR_STRING_LENGTH"); ok {
		c.verdictIf(v == 8192, P, "limits-agree", "const=MAX_XDR_STRING_LENGTH", "", "8192", fmt.Sprintf("is %d, documented limit is 8192", v))
	}

	// consume: for decoders with a body make and a padding make, both derive from the same wire call
	fl := newFlow(p)
	for _, name := range []string{"xdrDecodeString", "(*Portmapper).skipAuth", "DecodeRPCCall"} {
		fn := p.Fn(name)
		if fn == nil {
			c.undecided(P, "consume", "fn="+name, "", "not found")
			continue
		}
		var bodies, pads []*ssa.MakeSlice
		for _, b := range fn.Blocks {
			for _, in := range b.Instrs {
				if ms, ok := in.(*ssa.MakeSlice); ok && len(wireCalls(fl, ms.Len)) > 0 {
					if isPadExpr(ms.Len) {
						pads = append(pads, ms)
					} else {
						bodies = append(bodies, ms)
					}
				}
			}
		}
		good := len(bodies) > 0 && len(bodies) == len(pads)
		why := fmt.Sprintf("%d body read(s) but %d padding read(s)", len(bodies), len(pads))
		if good {
			for i := range bodies {
				bw, pw := wireCalls(fl, bodies[i].Len), wireCalls(fl, pads[i].Len)
				same := false
				for _, x := range bw {
					for _, y := range pw {
						if x.Val == y.Val || (x.Call != nil && x.Call == y.Call) {
							same = true
						}
					}
				}
				if !same {
					good = false
					why = "padding length does not derive from the decoded body length"
				}
				// padding read only after the body read succeeded
				if !(bodies[i].Block() == pads[i].Block() || bodies[i].Block().Dominates(pads[i].Block())) {
					good = false
					why = "padding is not read after the body"
				}
			}
		}
		c.verdictIf(good, P, "consume", "fn="+name, p.pos(fn.Pos()), "padding derives from the body's length", why)
	}
	runRecordRules(c)
}

func inCycle(b *ssa.BasicBlock) bool {
	seen := map[*ssa.BasicBlock]bool{}
	stack := append([]*ssa.BasicBlock{}, b.Succs...)
	for len(stack) > 0 {
		x := stack[len(stack)-1]
		stack = stack[:len(stack)-1]
		if x == b {
			return true
		}
		if seen[x] {
			continue
		}
		seen[x] = true
		stack = append(stack, x.Succs...)
	}
	return false
}

func runRecordRules(c *Ctx) { runRecordRulesAs(c, "C13") }

func runRecordRulesAs(c *Ctx, P string) {
	p := c.P
	rr := p.Fn("(*RecordMarkingReader).ReadRecord")
	if rr == nil {
		c.undecided(P, "record", "fn=ReadRecord", "", "not found")
		return
	}
	fl := newFlow(p)
	bufFld := p.field("RecordMarkingReader", "fragmentBuf")
	// returned data derives from fragmentBuf.Bytes()
	fromBuf := false
	for _, b := range rr.Blocks {
		for _, in := range b.Instrs {
			r, ok := in.(*ssa.Return)
			if !ok || !isNilConst(retVal(r, 1)) {
				continue
			}
			for _, o := range fl.Origins(retVal(r, 0)) {
				if o.Kind == "outparam" && strings.Contains(o.Desc, "builtin:copy") {
					// copy(result, data): data from Bytes()
					if cc, ok := o.Call.(*ssa.Call); ok {
						for _, oo := range fl.Origins(cc.Call.Args[1]) {
							if oo.Kind == "call" && strings.Contains(oo.Desc, "(*bytes.Buffer).Bytes") {
								if _, f, ok := fieldLoad(oo.Call.Common().Args[0]); ok && f == bufFld {
									fromBuf = true
								}
							}
						}
					}
				}
				if o.Kind == "call" && strings.Contains(o.Desc, "(*bytes.Buffer).Bytes") {
					if _, f, ok := fieldLoad(o.Call.Common().Args[0]); ok && f == bufFld {
						fromBuf = true
					}
				}
			}
		}
	}
	// the size test uses fragmentBuf.Len()
	testOnBuf := false
	for _, b := range rr.Blocks {
		ifi := blockIf(b)
		if ifi == nil {
			continue
		}
		bo, ok := ifi.Cond.(*ssa.BinOp)
		if !ok || bo.Op != token.GTR {
			continue
		}
		for _, o := range fl.Origins(bo.X) {
			if o.Kind == "call" && strings.Contains(o.Desc, "(*bytes.Buffer).Len") {
				if _, f, ok := fieldLoad(o.Call.Common().Args[0]); ok && f == bufFld && rejectEdgeFrom(p, b, b.Succs[0], true) {
					testOnBuf = true
				}
			}
		}
	}
	c.verdictIf(fromBuf && testOnBuf, P, "record", "fn=ReadRecord accumulated-size", p.pos(rr.Pos()), "the bound is tested on the length of the buffer whose bytes are returned",
		fmt.Sprintf("the record-size test and the returned record are not the same accumulator (returned from fragmentBuf: %v, test on fragmentBuf.Len(): %v): many fragments can add up past the limit", fromBuf, testOnBuf))
	// no Reset inside the loop
	resetInLoop := false
	for _, call := range calls(rr) {
		if isCallTo(call, "(*bytes.Buffer).Reset") && inCycle(call.Block()) {
			resetInLoop = true
		}
	}
	c.verdictIf(!resetInLoop, P, "record", "fn=ReadRecord no-reset-in-loop", p.pos(rr.Pos()), "accumulator is reset only before the fragment loop", "the accumulating buffer is reset inside the fragment loop: earlier fragments are dropped and the size test sees only the last one")
	// completes only on last-fragment flag: the loop exit condition derives from header & 0x80000000
	lastOK := false
	for _, b := range rr.Blocks {
		for _, in := range b.Instrs {
			bo, ok := in.(*ssa.BinOp)
			if !ok || bo.Op != token.AND {
				continue
			}
			if k, isC := constInt(bo.Y); isC && uint32(k) == 0x80000000 {
				lastOK = true
			}
		}
	}
	c.verdictIf(lastOK, P, "record", "fn=ReadRecord last-fragment-flag", p.pos(rr.Pos()), "header & 0x80000000 decides completion", "the last-fragment bit of the header is not examined")

	// WriteRecord
	wr := p.Fn("(*RecordMarkingWriter).WriteRecord")
	if wr == nil {
		c.undecided(P, "write-record", "fn=WriteRecord", "", "not found")
		return
	}
	nFlag := 0
	loopOK, emptyOK := false, false
	why := "no OR of the last-fragment bit inside the fragment loop"
	for _, b := range wr.Blocks {
		for _, in := range b.Instrs {
			bo, ok := in.(*ssa.BinOp)
			if !ok || bo.Op != token.OR {
				continue
			}
			k, isC := constInt(bo.Y)
			if !isC || uint32(k) != 0x80000000 {
				continue
			}
			nFlag++
			if !inCycle(b) {
				// empty-data header: 0 | flag
				for _, f := range p.facts(b) {
					op, l, r, ok := normCmp(f)
					if ok && op == "==" {
						if isLenOfParam(l, wr) || isLenOfParam(r, wr) {
							emptyOK = true
						}
					}
				}
				continue
			}
			// loop: controlling equality between remaining and fragmentLen
			for _, f := range p.facts(b) {
				op, l, r, ok := normCmp(f)
				if !ok {
					continue
				}
				if (op == "==" && exhausts(wr, l, r)) || ((op == "<=" || op == ">=") && exhaustsLinear(l, r, op)) {
					loopOK = true
				} else if op == "==" || op == ">=" || op == ">" {
					why = "the last-fragment bit is set under `" + l.Name() + " " + op + " " + r.Name() + "`, which is not `remaining == fragmentLen` (this fragment exhausts the data)"
				}
			}
		}
	}
	// constant header for empty data (uint32(0) | flag folds to a constant)
	if !emptyOK {
		for _, call := range calls(wr) {
			if inCycle(call.Block()) {
				continue
			}
			// binary.Write(w, order, 0x80000000), PutUint32(hdr, 0x80000000), ... on the len(data)==0 edge
			onEmpty := false
			for _, f := range p.facts(call.Block()) {
				op, l, r, ok := normCmp(f)
				if ok && op == "==" && (isLenOfParam(l, wr) || isLenOfParam(r, wr)) {
					onEmpty = true
				}
			}
			for _, a := range call.Common().Args {
				if k, isC := constInt(unwrap(a)); isC && uint32(k) == 0x80000000 && (onEmpty || isCallTo(call, "encoding/binary.Write")) {
					emptyOK = true
				}
			}
		}
	}
	c.verdictIf(loopOK, P, "write-record", "fn=WriteRecord last-flag-on-exhausting-fragment", p.pos(wr.Pos()), "bit set iff remaining == fragmentLen", why)
	c.verdictIf(emptyOK, P, "write-record", "fn=WriteRecord empty-data", p.pos(wr.Pos()), "empty record is a single last fragment of length 0", "empty data does not produce a last-fragment header")
}

func isLenOfParam(v ssa.Value, fn *ssa.Function) bool {
	call, ok := unwrap(v).(*ssa.Call)
	if !ok {
		return false
	}
	b, ok := call.Call.Value.(*ssa.Builtin)
	if !ok || b.Name() != "len" {
		return false
	}
	_, isP := call.Call.Args[0].(*ssa.Parameter)
	return isP
}

// exhausts: l == r means "this fragment takes all that remains": one side is
// the loop-carried remaining count R (phi updated by R - F), the other the
// fragment length F of this iteration.
func exhausts(fn *ssa.Function, l, r ssa.Value) bool {
	if exhaustsLinear(l, r, "==") {
		return true
	}
	check := func(rem, frag ssa.Value) bool {
		phi, ok := rem.(*ssa.Phi)
		if !ok {
			return false
		}
		for _, e := range phi.Edges {
			if bo, ok := e.(*ssa.BinOp); ok && bo.Op == token.SUB && bo.X == ssa.Value(phi) && bo.Y == frag {
				return true
			}
		}
		return false
	}
	return check(l, r) || check(r, l)
}

// ---------------------------------------------------------------------------

func runC15(c *Ctx) {
	p := c.P
	const P = "C15"
	runTransferPositive(c, P)
	c.rule(P, "alloc", "wire-sized allocation on the connection path ⇒ dominated by its documented bound (shared with C13/alloc)", 9)
	c.rule(P, "once-in-order", "connection loop: at most one WriteReply per ReadCall on any path; no `go` in the loop body; reply derives from this iteration's call", 3)
	c.rule(P, "close-on-garbage", "ReadCall/HandleCall error edges reach the function exit (deferred conn.Close) without re-entering the loop", 3)
	c.rule(P, "recover", "the per-connection goroutine defers a recover before serving", 1)
	c.rule(P, "hazards", "explicit panic hazards (panic calls, single-result type assertions) reachable from goroutines without recover are in the reviewed table", 1)
	runAllocRule(c, P, nil)
	c.rule(P, "record", "ReadRecord: size test on the returned buffer's own length; no Reset in the fragment loop; completes only on a last-fragment header (shared with C13)", 3)
	savedOnly := c.Only
	c.Only = map[string]bool{"record": true}
	runRecordRulesAs(c, P)
	c.Only = savedOnly
	runFullReadAs(c, P)
	runNoWrapAs(c, P)
	runAllFragmentsAs(c, P)
	runNilHolesAs(c, P, nil)

	ent, err := p.entrySet()
	if err != nil {
		c.undecided(P, "once-in-order", "entries", "", err.Error())
		return
	}
	loop := ent.ConnLoop
	isMethod := func(in ssa.Instruction, name string) bool {
		ci, ok := in.(ssa.CallInstruction)
		if !ok {
			return false
		}
		cc := ci.Common()
		return cc.IsInvoke() && cc.Method.Name() == name && recvTypeName(cc.Value.Type()) == "connIO"
	}
	var writes, reads []ssa.CallInstruction
	for _, call := range calls(loop) {
		if isMethod(call, "WriteReply") {
			writes = append(writes, call)
		}
		if isMethod(call, "ReadCall") {
			reads = append(reads, call)
		}
	}
	if len(reads) != 1 || len(writes) == 0 {
		c.undecided(P, "once-in-order", "fn=handleConnectionLoop", p.pos(loop.Pos()), fmt.Sprintf("%d ReadCall / %d WriteReply sites", len(reads), len(writes)))
	} else {
		for i, w := range writes {
			res := follow(followSpec{Fn: loop, From: w, Closes: func(in ssa.Instruction) bool { return isMethod(in, "ReadCall") },
				Bad: func(in ssa.Instruction) bool { return isMethod(in, "WriteReply") }, ExitOK: func(*ssa.Return) bool { return true }})
			c.verdictIf(res.OK, P, "once-in-order", fmt.Sprintf("write=WriteReply#%d single", i+1), p.instrPos(w), "next WriteReply only after the next ReadCall", "a second reply can be written for the same call")
			// reply provenance
			fl := newFlow(p)
			arg := w.Common().Args[0]
			good := true
			var bad []string
			for _, o := range fl.Origins(arg) {
				switch {
				case o.Kind == "alloc" && strings.Contains(o.Desc, "RPCReply"):
				case o.Kind == "call" && strings.Contains(o.Desc, "HandleCall"):
				case o.Kind == "call" && strings.Contains(o.Desc, "ExecuteWithWorker"):
				case o.Kind == "zero" || o.Kind == "const":
				case o.Kind == "field" && o.Fld != nil && o.Fld.Name() == "Reply" && o.Base != nil && hasOrigin(fl.Origins(o.Base), func(x Origin) bool {
					return x.Kind == "call" && strings.Contains(x.Desc, "ExecuteWithWorker")
				}):
				default:
					good = false
					bad = append(bad, o.Desc)
				}
			}
			c.verdictIf(good, P, "once-in-order", fmt.Sprintf("write=WriteReply#%d provenance", i+1), p.instrPos(w), "reply is the one built for the call just read", "reply written does not come from this iteration's HandleCall / denial literal: "+strings.Join(bad, ","))
		}
		nGo := 0
		for _, b := range loop.Blocks {
			for _, in := range b.Instrs {
				if _, ok := in.(*ssa.Go); ok && inCycle(b) {
					nGo++
				}
			}
		}
		c.verdictIf(nGo == 0, P, "once-in-order", "loop=no-goroutine", p.pos(loop.Pos()), "requests of one connection are processed sequentially", "a goroutine is started inside the per-connection loop: replies can leave out of order")
		// close-on-garbage
		hasDefer := false
		for _, in := range loop.Blocks[0].Instrs {
			if d, ok := in.(*ssa.Defer); ok && d.Call.IsInvoke() && d.Call.Method.Name() == "Close" {
				hasDefer = true
			}
		}
		c.verdictIf(hasDefer, P, "close-on-garbage", "defer=conn.Close", p.pos(loop.Pos()), "connection closed on every exit", "handleConnectionLoop does not defer conn.Close() at entry")
		for _, spec := range []struct {
			name string
			call ssa.CallInstruction
		}{{"ReadCall", reads[0]}} {
			_, fail, ok := errSuccessEdge3(spec.call)
			if !ok {
				c.bad(P, "close-on-garbage", "edge="+spec.name+"-error", p.instrPos(spec.call), "error of "+spec.name+" is not tested")
				continue
			}
			res := follow(followSpec{Fn: loop, Start: []*ssa.BasicBlock{fail}, Closes: func(ssa.Instruction) bool { return false },
				Bad: func(in ssa.Instruction) bool { return isMethod(in, "ReadCall") }, ExitOK: func(*ssa.Return) bool { return true }})
			c.verdictIf(res.OK, P, "close-on-garbage", "edge="+spec.name+"-error", p.instrPos(spec.call), "leaves the loop", "after an undecodable record the loop keeps reading from the same, now desynchronised, stream")
		}
		// handleErr != nil edge: find If on a value whose origins include HandleCall#1
		fl := newFlow(p)
		found := false
		for _, b := range loop.Blocks {
			ifi := blockIf(b)
			if ifi == nil {
				continue
			}
			bo, ok := ifi.Cond.(*ssa.BinOp)
			if !ok || !(isNilConst(bo.X) || isNilConst(bo.Y)) {
				continue
			}
			v := bo.X
			if isNilConst(v) {
				v = bo.Y
			}
			isHE := false
			for _, o := range fl.Origins(v) {
				if o.Kind == "call" && strings.Contains(o.Desc, "HandleCall#1") {
					isHE = true
				}
			}
			if !isHE {
				continue
			}
			found = true
			fail := b.Succs[0]
			if bo.Op == token.EQL {
				fail = b.Succs[1]
			}
			res := follow(followSpec{Fn: loop, Start: []*ssa.BasicBlock{fail}, Closes: func(ssa.Instruction) bool { return false },
				Bad: func(in ssa.Instruction) bool { return isMethod(in, "ReadCall") || isMethod(in, "WriteReply") }, ExitOK: func(*ssa.Return) bool { return true }})
			c.verdictIf(res.OK, P, "close-on-garbage", "edge=HandleCall-error", p.instrPos(ifi), "leaves the loop without replying", "a HandleCall error does not end the connection")
		}
		if !found {
			c.bad(P, "close-on-garbage", "edge=HandleCall-error", p.pos(loop.Pos()), "the error result of HandleCall is never tested")
		}
	}

	// recover in acceptLoop's connection goroutine
	al := p.Fn("(*Server).acceptLoop")
	rec := false
	if al != nil {
		for _, b := range al.Blocks {
			for _, in := range b.Instrs {
				g, ok := in.(*ssa.Go)
				if !ok {
					continue
				}
				clo := p.funcValue(g.Call.Value)
				if clo == nil {
					continue
				}
				// deferred closure calling recover, registered before the serving call
				for _, in2 := range clo.Blocks[0].Instrs {
					d, ok := in2.(*ssa.Defer)
					if !ok {
						continue
					}
					if dc := p.funcValue(d.Call.Value); dc != nil {
						for _, cc := range calls(dc) {
							if bi, ok := cc.Common().Value.(*ssa.Builtin); ok && bi.Name() == "recover" {
								rec = true
							}
						}
					}
				}
			}
		}
	}
	c.verdictIf(rec, P, "recover", "goroutine=acceptLoop-connection", "", "deferred recover installed", "the per-connection goroutine has no deferred recover: a panic while decoding one client's bytes terminates the whole server")

	runHazards(c, ent)
}

// errSuccessEdge3 handles (a, b, err) := call
func errSuccessEdge3(call ssa.CallInstruction) (succ, fail *ssa.BasicBlock, ok bool) {
	return errSuccessEdge(call)
}

// reviewed explicit panic hazards: function -> asserted type -> reason
var hazardTable = map[string]string{
	"(*uint64MinHeap).Push:uint64":             "only (*uint64MinHeap).PushValue calls heap.Push, always with a uint64",
	"(*uint64MinHeap).PopMin:uint64":           "heap.Pop returns what Push stored: uint64 only",
	"(*RateLimiter).AllowRequest:*TokenBucket": "perConnectionLimiter only ever stores *TokenBucket (LoadOrStore in the same function)",
	"(*RateLimiter).AllocateFileHandle:int":    "fileHandlesPerIP only stores int (same function and ReleaseFileHandle); not reachable from requests",
	"(*RateLimiter).ReleaseFileHandle:int":     "fileHandlesPerIP only stores int; not reachable from requests",
}

func runHazards(c *Ctx, ent *entries) {
	p := c.P
	const P = "C15"
	roots := append([]*ssa.Function{ent.HandleCall, ent.ConnLoop}, ent.procEntries()...)
	if w := p.Fn("(*WorkerPool).worker"); w != nil {
		roots = append(roots, w)
	}
	if pm := p.Fn("(*Portmapper).handleConnection"); pm != nil {
		roots = append(roots, pm)
	}
	reach := p.reachableFrom(roots)
	n := 0
	for _, fn := range p.SrcFuncs {
		if !reach[fn] {
			continue
		}
		for _, b := range fn.Blocks {
			for _, in := range b.Instrs {
				switch x := in.(type) {
				case *ssa.TypeAssert:
					if x.CommaOk {
						continue
					}
					n++
					k := fnKey(fn) + ":" + strings.TrimPrefix(strings.ReplaceAll(x.AssertedType.String(), absnfsPath+".", ""), "")
					if reason, ok := hazardTable[k]; ok {
						c.ok(P, "hazards", "assert="+k, p.instrPos(in), reason)
					} else {
						c.bad(P, "hazards", "assert="+k, p.instrPos(in), "single-result type assertion reachable from request-serving goroutines is not in the reviewed table: if the dynamic type differs it panics outside any recover")
					}
				case *ssa.Panic:
					if x.Pos().IsValid() { // explicit panic(...) in source
						n++
						c.bad(P, "hazards", "panic="+fnKey(fn), p.instrPos(in), "explicit panic reachable from request-serving goroutines")
					}
				}
			}
		}
	}
	if n == 0 {
		c.ok(P, "hazards", "none", "", "no explicit hazards reachable")
	}
}
