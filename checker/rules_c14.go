package main

import (
	"fmt"
	"sort"
	"strings"

	"golang.org/x/tools/go/ssa"
)

func init() {
	register("C14",
		"Decided (structure only): (dispatch) the NFS table has a handler for each of procedures 0-21 and MOUNT has arms 0-5; (status-set) every constant that can reach the status word of any NFS reply body is a member of RFC 1813 nfsstat3, and of mountstat3 for MOUNT replies; a status that is not a resolvable constant set is undecided; (shape) for every CFG path that finishes a reply body — nfsError* helpers and hand-built buffers — the sequence of XDR items equals the RFC 1813 resok or resfail grammar of that procedure for the status class on that path, including the drain reply built in HandleCall, which must be well-formed for every procedure it can answer; (xid) every RPCReply handed to WriteReply copies the call header and EncodeRPCReply writes its Xid first; (rpc-arms) accept_stat/reject_stat constants stored anywhere are ones EncodeRPCReply has an arm for, PROG_MISMATCH carries two version words, and RPC accept-status constants are stored only in AcceptStatus. Not decided: that encodeFileAttributes yields 84 well-formed bytes for every attribute value (checked once as a token list), byte-exact decoding by a client, truncated inputs beyond 'every decode-error edge leads to a fail-grammar reply'.",
		commonAssume, runC14)
}

func sortedProcs(m map[uint32]*ssa.Function) []uint32 {
	var ks []uint32
	for k := range m {
		ks = append(ks, k)
	}
	sort.Slice(ks, func(i, j int) bool { return ks[i] < ks[j] })
	return ks
}

func setString(s []int64, names map[int64]string) string {
	var parts []string
	for _, v := range s {
		if n, ok := names[v]; ok {
			parts = append(parts, fmt.Sprintf("%d(%s)", v, n))
		} else {
			parts = append(parts, fmt.Sprintf("%d", v))
		}
	}
	return "{" + strings.Join(parts, ",") + "}"
}

func runC14(c *Ctx) {
	p := c.P
	const P = "C14"
	c.rule(P, "dispatch", "nfsHandlers has a row for each RFC 1813 procedure 0-21; handleMountCall has arms 0-5", 23)
	c.rule(P, "status-set", "constants reaching the status word of a reply ⊆ nfsstat3 (NFS) / mountstat3 (MOUNT)", 150)
	c.rule(P, "shape", "token sequence of each reply path = RFC 1813 resok/resfail grammar of the procedure for its status class", 150)
	c.rule(P, "drain", "the reply built in HandleCall while a policy update drains is a well-formed result for every procedure/program it can be sent for", 1)
	c.rule(P, "xid", "each RPCReply constructed on the connection path copies call.Header; EncodeRPCReply emits Header.Xid first", 3)
	c.rule(P, "rpc-arms", "stores to RPCReply.Status/AcceptStatus use constants EncodeRPCReply has arms for; accept-stat constants only go to AcceptStatus", 5)

	ent, err := p.entrySet()
	if err != nil {
		c.undecided(P, "dispatch", "entries", "", err.Error())
		return
	}
	for num := uint32(0); num <= 21; num++ {
		key := fmt.Sprintf("proc=%d(%s)", num, procNames[num])
		if h := ent.Handlers[num]; h != nil {
			c.ok(P, "dispatch", key, p.pos(h.Pos()), "handler "+fnKey(h))
		} else {
			c.bad(P, "dispatch", key, "", "no handler registered: the procedure would be answered PROC_UNAVAIL")
		}
	}
	for num := range ent.Handlers {
		if num > 21 {
			c.bad(P, "dispatch", fmt.Sprintf("proc=%d", num), "", "handler registered for a procedure number RFC 1813 does not define")
		}
	}

	// NFS handlers
	badSeen := map[string]bool{}
	for _, num := range sortedProcs(ent.Handlers) {
		h := ent.Handlers[num]
		if num > 21 {
			continue
		}
		pname := procNames[num]
		shapes, und := p.handlerReplies(h)
		for i, u := range und {
			c.undecided(P, "shape", fmt.Sprintf("proc=%s undecided#%d", pname, i+1), p.pos(h.Pos()), u)
		}
		if num == 0 {
			// NULL: void result, no body may be built
			if len(shapes) == 0 {
				c.ok(P, "shape", "proc=NULL void", p.pos(h.Pos()), "no result body")
			} else {
				c.bad(P, "shape", "proc=NULL void", p.pos(h.Pos()), "NULL builds a result body")
			}
			continue
		}
		seenKey := map[string]bool{}
		for _, rs := range shapes {
			skey := fmt.Sprintf("proc=%s via=%s status=%s body=[%s]", pname, rs.Via, statusDesc(rs), tokString(rs.Toks[min1(len(rs.Toks)):]))
			if seenKey[skey] {
				continue
			}
			seenKey[skey] = true
			pos := "-"
			if rs.At != nil {
				pos = p.instrPos(rs.At)
			}
			// status-set
			if len(rs.Toks) == 0 || rs.Toks[0].Kind != "U32" {
				c.bad(P, "shape", skey, pos, "reply body does not start with a status word: ["+tokString(rs.Toks)+"]")
				continue
			}
			if !rs.StatusOK {
				c.undecided(P, "status-set", skey, pos, "status word is not a resolvable set of constants")
				continue
			}
			var badVals []int64
			for _, v := range rs.StatusSet {
				if _, ok := nfsstat3[v]; !ok {
					badVals = append(badVals, v)
				}
			}
			if len(badVals) == 0 {
				c.ok(P, "status-set", skey, pos, "status ∈ "+setString(rs.StatusSet, nfsstat3))
			} else {
				for _, bv := range badVals {
					for _, src := range rs.StatusSrc[bv] {
						k := fmt.Sprintf("value=%d introduced-in=%s", bv, src)
						if badSeen[k] {
							continue
						}
						badSeen[k] = true
						c.bad(P, "status-set", k, pos, fmt.Sprintf("%s reply status word can be %d, which is not an nfsstat3 value (RFC 1813 §2.6); the constant enters in %s", pname, bv, src))
					}
				}
			}
			// shape
			hasOK, hasFail := false, false
			for _, v := range rs.StatusSet {
				if v == 0 {
					hasOK = true
				} else {
					hasFail = true
				}
			}
			body := rs.Toks[1:]
			if hasOK && hasFail {
				okM, _ := matchGrammar(body, resOK[num])
				failM, _ := matchGrammar(body, resFail[num])
				if okM && failM {
					c.ok(P, "shape", skey, pos, "body matches both result arms")
				} else {
					c.bad(P, "shape", skey, pos, fmt.Sprintf("status may be NFS3_OK or an error %s on the same path, but the body [%s] fits only one arm of %s3res", setString(rs.StatusSet, nfsstat3), tokString(body), pname))
				}
				continue
			}
			g := resFail[num]
			arm := "resfail"
			if hasOK {
				g = resOK[num]
				arm = "resok"
			}
			okM, why := matchGrammar(body, g)
			if okM {
				c.ok(P, "shape", skey, pos, pname+"3"+arm+" = ["+g+"]")
			} else {
				c.bad(P, "shape", skey, pos, pname+"3"+arm+" expects ["+g+"]: "+why)
			}
		}
	}

	// MOUNT: every buffer in handleMountCall
	runC14Mount(c, ent)
	runC14PreDispatch(c, ent)
	runC14RPC(c, ent)
}

func min1(n int) int {
	if n < 1 {
		return n
	}
	return 1
}

func statusDesc(rs replyShape) string {
	if !rs.StatusOK {
		return "?"
	}
	return setString(rs.StatusSet, nfsstat3)
}

func siteKey(rs replyShape) string {
	if ci, ok := rs.At.(ssa.CallInstruction); ok {
		return fmt.Sprintf("%s#%d", shortCallee(ci), ordinal(rs.Fn, ci))
	}
	return "?"
}

// MOUNT replies: allowed shapes (RFC 1813 §5.2).
func runC14Mount(c *Ctx, ent *entries) {
	p := c.P
	const P = "C14"
	h := ent.Mount
	// arms: procedure switch constants compared against call.Header.Procedure
	procFld := p.field("RPCMsgHeader", "Procedure")
	arms := map[int64]bool{}
	for _, b := range h.Blocks {
		ifi := blockIf(b)
		if ifi == nil {
			continue
		}
		bo, ok := ifi.Cond.(*ssa.BinOp)
		if !ok || bo.Op.String() != "==" {
			continue
		}
		_, f, isLoad := fieldLoad(bo.X)
		k, isC := constInt(bo.Y)
		if isLoad && f == procFld && isC {
			arms[k] = true
		}
	}
	mnames := map[int64]string{0: "NULL", 1: "MNT", 2: "DUMP", 3: "UMNT", 4: "UMNTALL", 5: "EXPORT"}
	for k := int64(0); k <= 5; k++ {
		key := fmt.Sprintf("mount=%d(%s)", k, mnames[k])
		c.verdictIf(arms[k], P, "dispatch", key, p.pos(h.Pos()), "arm present", "MOUNT procedure has no arm: it would be answered PROC_UNAVAIL")
	}
	shapes, und := p.handlerReplies(h)
	for i, u := range und {
		c.undecided(P, "shape", fmt.Sprintf("mount undecided#%d", i+1), p.pos(h.Pos()), u)
	}
	seen := map[string]bool{}
	for _, rs := range shapes {
		skey := fmt.Sprintf("mount body=[%s]", tokString(rs.Toks))
		if seen[skey] {
			continue
		}
		seen[skey] = true
		pos := p.instrPos(rs.At)
		ts := tokString(rs.Toks)
		switch {
		case len(rs.Toks) == 1 && rs.Toks[0].Kind == "U32" && rs.Toks[0].Const != nil:
			v := *rs.Toks[0].Const
			// MNT failure (fhs_status != 0) or DUMP empty list (0)
			if _, ok := mountstat3[v]; ok {
				c.ok(P, "status-set", skey, pos, fmt.Sprintf("single word %d ∈ mountstat3 (or empty list)", v))
				c.ok(P, "shape", skey, pos, "mountres3 failure / empty mountlist")
			} else {
				c.bad(P, "status-set", skey, pos, fmt.Sprintf("MOUNT status %d is not a mountstat3 value (RFC 1813 §5.1.1)", v))
			}
		case ts == "U32(0) U32(8) U64 U32(1) U32(1)":
			c.ok(P, "shape", skey, pos, "mountres3_ok: status fhandle3(8) auth_flavors<1>={AUTH_SYS}")
			c.ok(P, "status-set", skey, pos, "MNT3_OK")
		case ts == "U32(1) STR U32(0) U32(0)":
			c.ok(P, "shape", skey, pos, "exports: one exportnode, no groups, end of list")
		default:
			c.bad(P, "shape", skey, pos, "MOUNT reply body ["+ts+"] is none of mountres3_ok, mountres3 failure, mountlist, exports")
		}
	}
}

// drain reply in HandleCall
func runC14Drain(c *Ctx, ent *entries) {
	p := c.P
	const P = "C14"
	hc := ent.HandleCall
	// every function on the connection path that runs before the procedure is dispatched
	pre := []*ssa.Function{hc, ent.ConnLoop, ent.NFSCall}
	for _, f := range []*ssa.Function{hc, ent.ConnLoop, ent.NFSCall} {
		pre = append(pre, f.AnonFuncs...)
	}
	var bts []*bufTrace
	n := 0
	for _, f := range pre {
		bts = append(bts, p.traceBuffers(f)...)
		// nfsError* helpers called outside procedure handlers build a procedure-independent body too
		for _, call := range calls(f) {
			callee := staticCallee(call)
			if callee == nil || !strings.HasPrefix(callee.Name(), "nfsError") || callee.Pkg != p.Pkg {
				continue
			}
			n++
			c.bad(P, "drain", fmt.Sprintf("%s helper=%s#%d", fnKey(f), callee.Name(), ordinal(f, call)), p.instrPos(call), "a result body is built by "+callee.Name()+" before the procedure is known: it is well-formed only for the procedures whose failure arm has exactly that shape, and malformed (missing post_op_attr/wcc_data, or trailing bytes for void results) for all others")
		}
	}
	for _, bt := range bts {
		for _, path := range bt.Paths {
			n++
			toks := path[:len(path)-1]
			key := fnKey(bt.Fn) + " body=[" + tokString(toks) + "]"
			pos := p.instrPos(bt.Buf)
			// the body is sent for whatever program/procedure the call named: check against every fail grammar
			if len(toks) == 0 || toks[0].Kind != "U32" || toks[0].Const == nil {
				c.undecided(P, "drain", key, pos, "drain body does not start with a constant status")
				continue
			}
			st := *toks[0].Const
			var badProcs []string
			if _, ok := nfsstat3[st]; !ok {
				badProcs = append(badProcs, fmt.Sprintf("status %d ∉ nfsstat3", st))
			}
			for num := uint32(1); num <= 21; num++ {
				g := resFail[num]
				if st == 0 {
					g = resOK[num]
				}
				if ok, _ := matchGrammar(toks[1:], g); !ok {
					badProcs = append(badProcs, procNames[num])
				}
			}
			if _, ok := mountstat3[st]; !ok {
				badProcs = append(badProcs, fmt.Sprintf("MOUNT(status %d ∉ mountstat3)", st))
			}
			badProcs = append(badProcs, "NULL/UMNT(void result expected)")
			if len(badProcs) == 0 {
				c.ok(P, "drain", key, pos, "well-formed for every procedure")
			} else {
				c.bad(P, "drain", key, pos, "body is built before the program/procedure is known and is not a well-formed result for: "+strings.Join(badProcs, ", "))
			}
		}
	}
	if n == 0 {
		c.ok(P, "drain", "HandleCall builds no body", p.pos(hc.Pos()), "no procedure-independent body is built in HandleCall")
	}
}

func runC14RPC(c *Ctx, ent *entries) {
	p := c.P
	const P = "C14"
	// xid: every composite RPCReply allocation on the connection path stores Header from call.Header
	rt := p.namedType("RPCReply")
	hdrFld := p.field("RPCReply", "Header")
	callHdr := p.field("RPCCall", "Header")
	if rt == nil || hdrFld == nil || callHdr == nil {
		c.undecided(P, "xid", "binding", "", "RPCReply/RPCCall Header fields not found")
		return
	}
	fns := []*ssa.Function{ent.HandleCall, ent.ConnLoop}
	for _, fn := range fns {
		n := 0
		for _, b := range fn.Blocks {
			for _, in := range b.Instrs {
				al, ok := in.(*ssa.Alloc)
				if !ok || recvTypeName(al.Type()) != "RPCReply" {
					continue
				}
				n++
				key := fmt.Sprintf("alloc=%s:RPCReply#%d", fnKey(fn), n)
				stores := fieldStores(al, hdrFld)
				good := len(stores) == 1
				if good {
					_, f, isLoad := fieldLoad(stores[0])
					good = isLoad && f == callHdr
				}
				c.verdictIf(good, P, "xid", key, p.instrPos(in), "Header copied from the call being answered", "reply header is not a copy of the call's header: the XID would not be echoed")
			}
		}
	}
	enc := p.Fn("EncodeRPCReply")
	if enc == nil {
		c.undecided(P, "xid", "fn=EncodeRPCReply", "", "not found")
	} else {
		// first xdrEncodeUint32 call in entry block encodes reply.Header.Xid
		var first ssa.CallInstruction
		for _, call := range calls(enc) {
			if isCallTo(call, absnfsPath+".xdrEncodeUint32") || isCallTo(call, "encoding/binary.Write") {
				first = call
				break
			}
		}
		good := false
		if first != nil && first.Block() == enc.Blocks[0] {
			arg := first.Common().Args[1]
			_, f, isLoad := fieldLoad(arg)
			good = isLoad && f != nil && f.Name() == "Xid"
		}
		c.verdictIf(good, P, "xid", "fn=EncodeRPCReply first-word", p.pos(enc.Pos()), "first encoded word is reply.Header.Xid", "the first word written by EncodeRPCReply is not Header.Xid")
	}

	// rpc-arms: constants stored to Status / AcceptStatus anywhere in the package
	statusFld := p.field("RPCReply", "Status")
	acceptFld := p.field("RPCReply", "AcceptStatus")
	stVals := map[int64][]string{}
	acVals := map[int64][]string{}
	for _, fn := range p.SrcFuncs {
		for _, b := range fn.Blocks {
			for _, in := range b.Instrs {
				st, ok := in.(*ssa.Store)
				if !ok {
					continue
				}
				_, f, isFA := fieldAddrOf(st.Addr)
				if !isFA || (f != statusFld && f != acceptFld) {
					continue
				}
				vals, okc := statusConsts(p, st.Val, 0)
				if !okc {
					// AcceptStatus = err.Status (RPCError): resolve through RPCError literals
					vals, okc = rpcErrorStatusConsts(p, st.Val)
				}
				if !okc {
					c.undecided(P, "rpc-arms", fmt.Sprintf("store=%s:%s", fnKey(fn), f.Name()), p.instrPos(in), "stored value is not a resolvable constant set")
					continue
				}
				for _, v := range vals {
					if f == statusFld {
						stVals[v] = append(stVals[v], p.instrPos(in))
					} else {
						acVals[v] = append(acVals[v], p.instrPos(in))
					}
				}
			}
		}
	}
	for _, v := range sortedInt64Keys(stVals) {
		key := fmt.Sprintf("reply_stat=%d", v)
		c.verdictIf(v == 0 || v == 1, P, "rpc-arms", key, stVals[v][0], "MSG_ACCEPTED/MSG_DENIED", "reply_stat value has no arm in RFC 1831")
	}
	for _, v := range sortedInt64Keys(acVals) {
		key := fmt.Sprintf("accept_stat=%d", v)
		c.verdictIf(v >= 0 && v <= 5, P, "rpc-arms", key, acVals[v][0], "RFC 1831 accept_stat", "accept_stat value is not defined by RFC 1831")
	}
	// PROG_MISMATCH carries two words: in EncodeRPCReply the block guarded by AcceptStatus == 2 writes two U32 then returns
	if enc != nil {
		good := false
		for _, b := range enc.Blocks {
			for _, f := range p.facts(b) {
				bo, ok := f.V.(*ssa.BinOp)
				if !ok || !f.Val || bo.Op.String() != "==" {
					continue
				}
				_, fl, isLoad := fieldLoad(bo.X)
				k, isC := constInt(bo.Y)
				if isLoad && fl == acceptFld && isC && k == 2 {
					// count encodes reachable from this block until return
					n := 0
					for _, bb := range enc.Blocks {
						if bb == b || b.Dominates(bb) {
							for _, in := range bb.Instrs {
								if ci, ok := in.(ssa.CallInstruction); ok && isCallTo(ci, absnfsPath+".xdrEncodeUint32") {
									n++
								}
							}
						}
					}
					if n == 2 {
						good = true
					}
				}
			}
		}
		c.verdictIf(good, P, "rpc-arms", "PROG_MISMATCH mismatch_info", p.pos(enc.Pos()), "low/high version words follow PROG_MISMATCH", "PROG_MISMATCH arm does not write exactly the two mismatch_info words")
	}
}

func sortedInt64Keys(m map[int64][]string) []int64 {
	var ks []int64
	for k := range m {
		ks = append(ks, k)
	}
	sort.Slice(ks, func(i, j int) bool { return ks[i] < ks[j] })
	return ks
}

// rpcErrorStatusConsts: value is a load of RPCError.Status; resolve to the
// constants stored in RPCError composite literals across the package.
func rpcErrorStatusConsts(p *Prog, v ssa.Value) ([]int64, bool) {
	_, f, ok := fieldLoad(v)
	if !ok || f == nil || f != p.field("RPCError", "Status") {
		return nil, false
	}
	set := map[int64]bool{}
	for _, fn := range p.SrcFuncs {
		for _, b := range fn.Blocks {
			for _, in := range b.Instrs {
				st, ok := in.(*ssa.Store)
				if !ok {
					continue
				}
				_, sf, isFA := fieldAddrOf(st.Addr)
				if !isFA || sf != f {
					continue
				}
				k, isC := constInt(st.Val)
				if !isC {
					return nil, false
				}
				set[k] = true
			}
		}
	}
	var out []int64
	for k := range set {
		out = append(out, k)
	}
	sort.Slice(out, func(i, j int) bool { return out[i] < out[j] })
	return out, true
}
