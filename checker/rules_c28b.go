package main

// rules_c28b.go: C28/advertised-port.  A client that resolves a program
// through the portmapper connects to the advertised port.  Every port this
// server registers must therefore be one it listens on: the value passed to
// RegisterService may derive only from ServerOptions.Port (updated by Listen to
// the bound port) or a constant default — not from an option for which no
// listener is ever created.

import (
	"fmt"
	"strings"
)

func runC28Advertised(c *Ctx) {
	p := c.P
	const P = "C28"
	c.rule(P, "advertised-port", "every port registered with the portmapper derives from the port the server listens on (ServerOptions.Port / constant default)", 3)
	reg := p.Fn("(*Portmapper).RegisterService")
	if reg == nil {
		c.undecided(P, "advertised-port", "fn=RegisterService", "", "not found")
		return
	}
	fl := newFlow(p)
	n := map[string]int{}
	for _, cs := range p.callers[reg] {
		fn := cs.Caller
		if fn.Pkg != p.Pkg || strings.HasPrefix(fnKey(fn), "(*Portmapper).") {
			continue // the portmapper's own protocol handlers register what clients ask for (C27)
		}
		args := cs.Instr.Common().Args
		if len(args) < 5 {
			continue
		}
		n[fnKey(fn)]++
		key := fmt.Sprintf("register=%s#%d", fnKey(fn), n[fnKey(fn)])
		var bad []string
		for _, o := range fl.Origins(args[4]) {
			switch {
			case o.Kind == "const" || o.Kind == "zero":
			case o.Kind == "field" && o.Fld != nil && o.Fld.Name() == "Port":
			default:
				bad = append(bad, o.Desc)
			}
		}
		c.verdictIf(len(bad) == 0, P, "advertised-port", key, p.instrPos(cs.Instr), "advertises the listening port",
			"a port is registered with the portmapper that does not derive from the port the server listens on ("+strings.Join(bad, ",")+"): a client resolving the program through the portmapper connects to a port nothing serves")
	}
}
