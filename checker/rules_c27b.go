package main

// rules_c27b.go: C27/truthful and C27/mismatch-range.
//  truthful:  a SET handler answers TRUE only on paths that have passed
//             RegisterService; an UNSET handler answers with the value
//             UnregisterService returned (or FALSE), never an unconditional TRUE.
//             "SET/UNSET update the map" — a TRUE that changed nothing lies
//             to the registering program.
//  mismatch-range: the PROG_MISMATCH arm of makeReply appends the two
//             version words RFC 5531 requires after the accept_stat.

import (
	"golang.org/x/tools/go/ssa"
)

func runC27Truthful(c *Ctx) {
	p := c.P
	const P = "C27"
	c.rule(P, "truthful", "SET answers TRUE only after RegisterService; UNSET answers what UnregisterService returned", 4)
	c.rule(P, "mismatch-range", "PROG_MISMATCH replies carry the low/high version words", 1)
	enc := p.Fn("(*Portmapper).encodeBool")
	reg := p.Fn("(*Portmapper).RegisterService")
	unreg := p.Fn("(*Portmapper).UnregisterService")
	if enc == nil || reg == nil || unreg == nil {
		c.undecided(P, "truthful", "fns", "", "encodeBool/RegisterService/UnregisterService not found")
		return
	}
	isTrueReply := func(in ssa.Instruction) bool {
		ci, ok := in.(ssa.CallInstruction)
		if !ok || staticCallee(ci) != enc {
			return false
		}
		a := ci.Common().Args
		if len(a) < 2 {
			return false
		}
		k, isC := unwrap(a[1]).(*ssa.Const)
		return isC && k.Value != nil && k.Value.String() == "true"
	}
	for _, name := range []string{"(*Portmapper).handleSet", "(*Portmapper).handleRpcbSet"} {
		fn := p.Fn(name)
		if fn == nil {
			c.undecided(P, "truthful", "fn="+name, "", "not found")
			continue
		}
		res := follow(followSpec{Fn: fn, Start: []*ssa.BasicBlock{fn.Blocks[0]},
			Closes: func(in ssa.Instruction) bool {
				ci, ok := in.(ssa.CallInstruction)
				return ok && staticCallee(ci) == reg
			},
			Bad:    isTrueReply,
			ExitOK: func(*ssa.Return) bool { return true }})
		pos := p.pos(fn.Pos())
		if res.At != nil {
			pos = p.instrPos(res.At)
		}
		c.verdictIf(res.OK, P, "truthful", "fn="+name, pos, "TRUE only after the registration", name+" can answer TRUE on a path that registered nothing ("+p.pathString(res.Witness)+"): the caller believes its service is advertised while GETPORT/GETADDR/DUMP do not know it")
	}
	for _, name := range []string{"(*Portmapper).handleUnset", "(*Portmapper).handleRpcbUnset"} {
		fn := p.Fn(name)
		if fn == nil {
			c.undecided(P, "truthful", "fn="+name, "", "not found")
			continue
		}
		good := true
		var at ssa.Instruction
		n := 0
		for _, call := range calls(fn) {
			if staticCallee(call) != enc {
				continue
			}
			n++
			if isTrueReply(call) {
				good, at = false, call
			}
		}
		pos := p.pos(fn.Pos())
		if at != nil {
			pos = p.instrPos(at)
		}
		c.verdictIf(good && n > 0, P, "truthful", "fn="+name, pos, "the answer is the result of the removal (or FALSE)", name+" answers an unconditional TRUE: it reports success also when nothing was registered under that key")
	}
	// mismatch-range
	mk := p.Fn("(*Portmapper).makeReply")
	if mk == nil {
		c.undecided(P, "mismatch-range", "fn=makeReply", "", "not found")
		return
	}
	good := false
	for _, b := range mk.Blocks {
		onMismatch := false
		for _, f := range p.facts(b) {
			op, l, r, ok := normCmp(f)
			if !ok || op != "==" {
				continue
			}
			k1, c1 := constInt(r)
			k2, c2 := constInt(l)
			if c1 && k1 == 2 || c2 && k2 == 2 {
				onMismatch = true
			}
		}
		if !onMismatch {
			continue
		}
		words := 0
		for _, in := range b.Instrs {
			if ci, ok := in.(ssa.CallInstruction); ok && isCallTo(ci, "encoding/binary.Write") && len(ci.Common().Args) == 3 {
				if t := unwrap(ci.Common().Args[2]).Type().String(); t == "uint32" {
					words++
				}
			}
		}
		if words >= 2 {
			good = true
		}
	}
	c.verdictIf(good, P, "mismatch-range", "fn=makeReply PROG_MISMATCH low/high", p.pos(mk.Pos()), "two version words follow accept_stat PROG_MISMATCH", "the PROG_MISMATCH reply ends after the accept_stat: RFC 5531 requires the lowest and highest supported version to follow, so a conformant client fails to decode the reply")
}
