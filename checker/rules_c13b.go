package main

// rules_c13b.go: C13/full-read (shared with C15 and C28).  A TCP stream may
// deliver any prefix of what was sent.  Decoders must therefore obtain wire
// bytes through io.ReadFull / binary.Read / io.Copy-style helpers; a bare
// Reader.Read whose byte count is not the argument of a loop leaves the rest
// of the item unread and desynchronises the stream.  Rule: on the codec and
// connection path no `Read` is invoked directly on a stream interface
// (io.Reader, net.Conn, *bufio.Reader ...) outside a method that is itself
// named Read (a forwarding wrapper).

import (
	"fmt"
	"go/types"
	"strings"

	"golang.org/x/tools/go/ssa"
)

func runFullReadAs(c *Ctx, P string) {
	p := c.P
	c.rule(P, "full-read", "wire bytes are obtained with io.ReadFull / binary.Read; no bare Read on a stream outside forwarding Read methods", 1)
	n := 0
	nFull := 0
	for _, fn := range p.SrcFuncs {
		if fn.Pkg != p.Pkg {
			continue
		}
		for _, call := range calls(fn) {
			cc := call.Common()
			if callee := staticCallee(call); callee != nil {
				q := qualFn(callee)
				if q == "io.ReadFull" || q == "encoding/binary.Read" || q == "io.ReadAtLeast" {
					nFull++
				}
			}
			isRead := false
			recvT := ""
			if cc.IsInvoke() && cc.Method.Name() == "Read" {
				recvT = cc.Value.Type().String()
				isRead = true
			} else if callee := staticCallee(call); callee != nil && callee.Name() == "Read" && callee.Signature.Recv() != nil && callee.Pkg != p.Pkg {
				recvT = callee.Signature.Recv().Type().String()
				isRead = true
			}
			if !isRead || strings.Contains(recvT, "absfs.") {
				continue // backend file reads are data reads with their own count handling (C01)
			}
			// signature Read([]byte) (int, error)
			sig, _ := cc.Signature().Underlying().(*types.Signature)
			if sig == nil || sig.Params().Len() != 1 || sig.Results().Len() != 2 {
				continue
			}
			n++
			key := fmt.Sprintf("read=%s:%s#%d", fnKey(fn), recvT, ordinal(fn, call))
			if fn.Name() == "Read" && fn.Signature.Recv() != nil {
				c.ok(P, "full-read", key, p.instrPos(call), "forwarding Read method: the caller handles short reads")
				continue
			}
			// a hand-written read loop: the call sits in a cycle and its byte count is used
			if v := call.Value(); v != nil && inCycle(call.Block()) && v.Referrers() != nil {
				usesN := false
				for _, r := range *v.Referrers() {
					if ex, ok := r.(*ssa.Extract); ok && ex.Index == 0 && ex.Referrers() != nil && len(*ex.Referrers()) > 0 {
						usesN = true
					}
				}
				if usesN {
					c.ok(P, "full-read", key, p.instrPos(call), "read loop that accounts for the byte count")
					continue
				}
			}
			c.bad(P, "full-read", key, p.instrPos(call), "a single Read on a stream is taken as the whole item: when the peer's bytes arrive in smaller pieces (any TCP segmentation) the rest stays unread or zero, so lengths and flags are wrong and the connection desynchronises; use io.ReadFull / binary.Read")
		}
	}
	if n == 0 {
		c.ok(P, "full-read", "read=none", "", fmt.Sprintf("no bare stream Read; %d io.ReadFull/binary.Read sites", nFull))
	}
}
