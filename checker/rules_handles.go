package main

import (
	"fmt"
	"go/token"
	"strings"

	"golang.org/x/tools/go/ssa"
)

func init() {
	register("C05",
		"Decided (representation invariants of FileHandleMap): (owner) the handle tables are written only by FileHandleMap methods, under its lock (exclusive for writes); (live) in Allocate no deletion from the table that is reachable after inserting the handle about to be returned can remove that handle (it is control-dependent on key != handle); (dedup) the fresh-id path is taken only when the path lookup misses, the hit edge returns the stored id, every fresh insertion records the reverse path mapping and every function that deletes from the table also clears the reverse mapping; (bound) every growing insertion is followed, before return, by the capacity test len(table) > max leading to eviction. Not decided: that the eviction loop restores len <= max for every history (loop arithmetic), liveness across later requests.",
		commonAssume, runC05)
	register("C06",
		"Decided: (fresh) the id stored for a newly tracked object derives only from a monotonic counter — a field whose every non-constructor store is `field + positive constant` — so a wire value is never reissued for a different path; an id popped from a free list is a reuse; (noreset) nothing resets that counter; (stale) in every procedure handler the not-found edge of the handle lookup returns a reply whose status word is the constant NFS3ERR_STALE before any backend call; (lookup) lookupNode resolves exactly the decoded handle through FileHandleMap.Get. Not decided: the behaviour of one concrete eviction history.",
		commonAssume, runC06)
}

// mapOfField: v is a load of owner.field (a map) — returns true.
func isLoadOfField(v ssa.Value, owner, field string) (ssa.Value, bool) {
	base, f, ok := fieldLoad(v)
	if !ok || f == nil || f.Name() != field || recvTypeName(base.Type()) != owner {
		return nil, false
	}
	return base, true
}

func isDeleteOn(in ssa.Instruction, owner, field string) (key ssa.Value, ok bool) {
	c, isCall := in.(ssa.CallInstruction)
	if !isCall {
		return nil, false
	}
	b, isB := c.Common().Value.(*ssa.Builtin)
	if !isB || b.Name() != "delete" {
		return nil, false
	}
	args := c.Common().Args
	if _, ok := isLoadOfField(args[0], owner, field); !ok {
		return nil, false
	}
	return args[1], true
}

func runC05(c *Ctx) {
	p := c.P
	const P = "C05"
	runHeapContract(c, P)
	c.rule(P, "owner", "FileHandleMap tables are accessed under its RWMutex (writes exclusively) and written only by FileHandleMap methods", 20)
	c.rule(P, "live", "in Allocate, a delete from handles reachable after the insertion of the returned handle is guarded by key != handle", 1)
	c.rule(P, "dedup", "path lookup hit returns the stored id; fresh insertion records pathHandles[path]; deleters clear the reverse mapping", 4)
	c.rule(P, "bound", "growing insertion is followed by the len(handles) > max capacity test before return", 1)

	lockRule(c, P, "owner", specHandles)
	fs := map[string]bool{"handles": true, "pathHandles": true, "nextHandle": true, "freeHandles": true}
	for _, a := range p.fieldAccesses("FileHandleMap", fs) {
		if !a.Write || isFresh(a.Base) {
			continue
		}
		if !strings.HasPrefix(fnKey(a.Fn), "(*FileHandleMap).") {
			c.bad(P, "owner", fmt.Sprintf("writer=%s field=%s", fnKey(a.Fn), a.Field), p.instrPos(a.Instr), "handle table written outside FileHandleMap's methods")
		}
	}

	alloc := p.Fn("(*FileHandleMap).Allocate")
	if alloc == nil {
		c.undecided(P, "live", "fn=Allocate", "", "function not found")
		return
	}
	runC05Atomic(c, P)
	// insertions into handles
	type ins struct {
		mu    *ssa.MapUpdate
		fresh bool
	}
	var inserts []ins
	var pathLookup *ssa.Lookup
	for _, b := range alloc.Blocks {
		for _, in := range b.Instrs {
			switch x := in.(type) {
			case *ssa.MapUpdate:
				if _, ok := isLoadOfField(x.Map, "FileHandleMap", "handles"); ok {
					// key from the pathHandles lookup => overwrite of an existing id
					fresh := true
					if ex, ok := x.Key.(*ssa.Extract); ok {
						if lk, ok := ex.Tuple.(*ssa.Lookup); ok {
							if _, ok := isLoadOfField(lk.X, "FileHandleMap", "pathHandles"); ok {
								fresh = false
							}
						}
					}
					inserts = append(inserts, ins{x, fresh})
				}
			case *ssa.Lookup:
				if _, ok := isLoadOfField(x.X, "FileHandleMap", "pathHandles"); ok && x.CommaOk {
					pathLookup = x
				}
			}
		}
	}
	nFresh := 0
	for _, i := range inserts {
		if !i.fresh {
			continue
		}
		nFresh++
		key := fmt.Sprintf("insert=Allocate:handles#%d", nFresh)
		// live: deletes reachable after the insertion
		res := follow(followSpec{Fn: alloc, From: i.mu, Closes: func(ssa.Instruction) bool { return false }, ExitOK: func(*ssa.Return) bool { return true },
			Bad: func(in ssa.Instruction) bool {
				k, ok := isDeleteOn(in, "FileHandleMap", "handles")
				if !ok {
					return false
				}
				// guarded by k != handle ?
				for _, f := range p.facts(in.Block()) {
					op, l, r, ok := normCmp(f)
					if ok && op == "!=" && ((l == k && r == i.mu.Key) || (r == k && l == i.mu.Key)) {
						return false
					}
				}
				return true
			}})
		if res.OK {
			c.ok(P, "live", key, p.instrPos(i.mu), "no unguarded eviction after inserting the returned handle")
		} else {
			c.bad(P, "live", key, p.instrPos(i.mu), "after inserting the handle that will be returned, the eviction at "+p.instrPos(res.At)+" can delete that same handle (no `key != handle` guard): when a recycled low id is issued while the table is over its limit, the caller receives a handle that is already gone")
		}
		// bound
		resB := follow(followSpec{Fn: alloc, From: i.mu, Closes: func(in ssa.Instruction) bool {
			ifi, ok := in.(*ssa.If)
			if !ok {
				return false
			}
			bo, ok := ifi.Cond.(*ssa.BinOp)
			if !ok || (bo.Op != token.GTR && bo.Op != token.GEQ && bo.Op != token.LSS && bo.Op != token.LEQ) {
				return false
			}
			isLen := func(v ssa.Value) bool {
				call, ok := v.(*ssa.Call)
				if !ok {
					return false
				}
				b, ok := call.Call.Value.(*ssa.Builtin)
				if !ok || b.Name() != "len" {
					return false
				}
				_, ok = isLoadOfField(call.Call.Args[0], "FileHandleMap", "handles")
				return ok
			}
			return isLen(bo.X) || isLen(bo.Y)
		}})
		c.verdictIf(resB.OK, P, "bound", key, p.instrPos(i.mu), "capacity test follows on every path", "a path from the insertion returns without testing len(handles) against the limit: the table can grow without bound")
		// dedup: reverse mapping recorded with the same id
		rev := false
		for _, b := range alloc.Blocks {
			for _, in := range b.Instrs {
				if mu, ok := in.(*ssa.MapUpdate); ok {
					if _, ok := isLoadOfField(mu.Map, "FileHandleMap", "pathHandles"); ok && mu.Value == i.mu.Key {
						if b == i.mu.Block() || i.mu.Block().Dominates(b) {
							rev = true
						}
					}
				}
			}
		}
		c.verdictIf(rev, P, "dedup", key+" reverse-map", p.instrPos(i.mu), "pathHandles[path] = id recorded after the insertion", "fresh insertion is not followed by pathHandles[path] = id: the next Allocate for the same path issues a second handle")
	}
	if nFresh == 0 {
		c.undecided(P, "live", "fn=Allocate", p.pos(alloc.Pos()), "no fresh insertion into handles found")
	}
	// dedup: hit edge returns stored id, fresh path only on miss
	if pathLookup == nil {
		c.bad(P, "dedup", "lookup=pathHandles", p.pos(alloc.Pos()), "Allocate never consults pathHandles: every call issues a new handle for the same path")
	} else {
		var id, found ssa.Value
		for _, r := range *pathLookup.Referrers() {
			if ex, ok := r.(*ssa.Extract); ok {
				if ex.Index == 0 {
					id = ex
				} else {
					found = ex
				}
			}
		}
		okHit := false
		for _, b := range alloc.Blocks {
			for _, in := range b.Instrs {
				if r, ok := in.(*ssa.Return); ok && len(r.Results) == 1 && retVal(r, 0) == id {
					for _, f := range p.facts(b) {
						if f.V == found && f.Val {
							okHit = true
						}
					}
				}
			}
		}
		c.verdictIf(okHit, P, "dedup", "lookup=pathHandles hit-returns-id", p.instrPos(pathLookup), "found edge returns the stored id", "the pathHandles hit edge does not return the stored id")
		// every fresh insertion must not be reachable on the found edge... (fresh only on miss)
		okMiss := true
		for _, i := range inserts {
			if !i.fresh {
				continue
			}
			// is the insertion block reachable when found==true ?  cut the found==false edges... simpler: facts at insertion do not include found; check reachability avoiding "found true" successor
			cut := map[edge]bool{}
			for _, b := range alloc.Blocks {
				for _, s := range b.Succs {
					for _, f := range edgeFacts(b, s) {
						if f.V == found && !f.Val {
							cut[edge{b, s}] = true
						}
					}
				}
			}
			// paths that avoid every found==false edge and still reach the fresh insertion must have skipped the lookup (non-node file)
			r := reachAvoiding([]*ssa.BasicBlock{pathLookup.Block()}, cut, nil)
			if r[i.mu.Block()] && i.mu.Block() != pathLookup.Block() {
				// reachable from the lookup block without crossing a found==false edge: only acceptable through the found==true return (which ends the path)
				// compute again stopping at return blocks of the hit
				stop := map[*ssa.BasicBlock]bool{}
				for _, b := range alloc.Blocks {
					for _, in := range b.Instrs {
						if rr, ok := in.(*ssa.Return); ok && len(rr.Results) == 1 && retVal(rr, 0) == id {
							stop[b] = true
						}
					}
				}
				r2 := reachAvoiding([]*ssa.BasicBlock{pathLookup.Block()}, cut, stop)
				if r2[i.mu.Block()] {
					okMiss = false
				}
			}
		}
		c.verdictIf(okMiss, P, "dedup", "lookup=pathHandles fresh-only-on-miss", p.instrPos(pathLookup), "fresh id only when the path is not tracked", "a fresh id can be issued although the path lookup hit")
	}
	// evict-exit: the eviction loop is left only when the deletion counter is exhausted
	c.rule(P, "evict-exit", "the eviction loop in Allocate exits only on the deletion counter reaching zero (no other exit can leave the table over its limit)", 1)
	{
		var delBlock *ssa.BasicBlock
		deleters := map[*ssa.Function]bool{}
		for _, fn := range p.SrcFuncs {
			for _, b := range fn.Blocks {
				for _, in := range b.Instrs {
					if _, ok := isDeleteOn(in, "FileHandleMap", "handles"); ok {
						deleters[fn] = true
					}
				}
			}
		}
		deleters = p.transitiveCallers(deleters)
		for _, b := range alloc.Blocks {
			for _, in := range b.Instrs {
				if _, ok := isDeleteOn(in, "FileHandleMap", "handles"); ok && inCycle(b) {
					delBlock = b
				}
				if ci, ok := in.(ssa.CallInstruction); ok && inCycle(b) {
					for _, callee := range p.calleesAt(alloc, ci) {
						if deleters[callee] && callee != alloc {
							delBlock = b
						}
					}
				}
			}
		}
		if delBlock == nil {
			c.bad(P, "evict-exit", "loop=Allocate-eviction", p.pos(alloc.Pos()), "Allocate has no eviction loop deleting from handles")
		} else {
			// loop = blocks that can reach delBlock and are reachable from it
			fromDel := reachAvoiding([]*ssa.BasicBlock{delBlock}, nil, nil)
			inLoop := map[*ssa.BasicBlock]bool{}
			for b := range fromDel {
				if reachAvoiding([]*ssa.BasicBlock{b}, nil, nil)[delBlock] {
					inLoop[b] = true
				}
			}
			good, why := true, ""
			nExit := 0
			for b := range inLoop {
				for _, s := range b.Succs {
					if inLoop[s] {
						continue
					}
					nExit++
					// exit edge: condition must be counter > 0 (false) where counter is a phi decremented by 1 in the loop
					ifi := blockIf(b)
					okExit := false
					if ifi != nil {
						if bo, ok := ifi.Cond.(*ssa.BinOp); ok && (bo.Op == token.GTR || bo.Op == token.NEQ) {
							if k, isC := constInt(bo.Y); isC && k == 0 {
								if phi, ok := bo.X.(*ssa.Phi); ok {
									for _, e := range phi.Edges {
										if sub, ok := e.(*ssa.BinOp); ok && sub.Op == token.SUB {
											if k1, isC1 := constInt(sub.Y); isC1 && k1 == 1 {
												okExit = true
											}
										}
										if p2, ok := e.(*ssa.Phi); ok {
											for _, e2 := range p2.Edges {
												if sub, ok := e2.(*ssa.BinOp); ok && sub.Op == token.SUB {
													okExit = true
												}
											}
										}
									}
								}
							}
						}
					}
					if !okExit {
						good = false
						why = "the eviction loop can also be left at " + p.instrPos(b.Instrs[len(b.Instrs)-1]) + " on a condition other than `evictCount > 0` being false: it may stop before enough handles were evicted, leaving more live handles than the configured maximum"
					}
				}
			}
			if nExit == 0 {
				good, why = false, "eviction loop has no exit"
			}
			c.verdictIf(good, P, "evict-exit", "loop=Allocate-eviction", p.instrPos(delBlock.Instrs[0]), "exits only when the requested number of handles was evicted", why)
		}
	}

	// deleters clear reverse mapping
	for _, fn := range p.SrcFuncs {
		if !strings.HasPrefix(fnKey(fn), "(*FileHandleMap).") {
			continue
		}
		del, clr := false, false
		for _, b := range fn.Blocks {
			for _, in := range b.Instrs {
				if _, ok := isDeleteOn(in, "FileHandleMap", "handles"); ok {
					del = true
				}
				if _, ok := isDeleteOn(in, "FileHandleMap", "pathHandles"); ok {
					clr = true
				}
				if st, ok := in.(*ssa.Store); ok {
					if _, f, ok := fieldAddrOf(st.Addr); ok && f != nil && f.Name() == "pathHandles" {
						clr = true
					}
				}
			}
		}
		if del {
			c.verdictIf(clr, P, "dedup", "deleter="+fnKey(fn), p.pos(fn.Pos()), "also clears pathHandles", "deletes handles but leaves pathHandles entries behind: a later Allocate for that path returns a dead id")
		}
	}
	runC05UnmapPaired(c)
}

func runC06(c *Ctx) {
	p := c.P
	const P = "C06"
	runHeapContract(c, P)
	c.rule(P, "fresh", "the id of a fresh insertion derives only from a monotonic counter field", 1)
	c.rule(P, "noreset", "every non-constructor store to the counter is counter + positive constant", 1)
	c.rule(P, "stale", "the not-found edge of every handle lookup returns status NFS3ERR_STALE before any backend call", 20)
	c.rule(P, "lookup", "lookupNode resolves exactly its handle argument through FileHandleMap.Get and type-asserts *NFSNode", 1)

	alloc := p.Fn("(*FileHandleMap).Allocate")
	if alloc == nil {
		c.undecided(P, "fresh", "fn=Allocate", "", "not found")
	} else {
		fl := newFlow(p)
		n := 0
		for _, b := range alloc.Blocks {
			for _, in := range b.Instrs {
				mu, ok := in.(*ssa.MapUpdate)
				if !ok {
					continue
				}
				if _, ok := isLoadOfField(mu.Map, "FileHandleMap", "handles"); !ok {
					continue
				}
				if ex, ok := mu.Key.(*ssa.Extract); ok {
					if _, ok := ex.Tuple.(*ssa.Lookup); ok {
						continue
					}
				}
				n++
				os := fl.Origins(mu.Key)
				var bad []string
				for _, o := range os {
					if o.Kind == "field" && o.Fld != nil && o.Fld.Name() == "nextHandle" {
						continue
					}
					if o.Kind == "const" {
						continue
					}
					bad = append(bad, o.Desc)
				}
				key := fmt.Sprintf("insert=Allocate:handles#%d", n)
				if len(bad) == 0 {
					c.ok(P, "fresh", key, p.instrPos(in), "id comes from the monotonic counter")
				} else {
					c.bad(P, "fresh", key, p.instrPos(in), "a new object can be given an id that is not fresh ("+strings.Join(bad, ",")+"): a client still holding that value for the evicted/released path is then served the new object")
				}
			}
		}
	}
	// recycle: which methods put ids back into circulation
	c.rule(P, "recycle", "no FileHandleMap method makes an issued id reusable (pushes it onto the free list) unless the free list is discarded again before it returns", 3)
	pushQ := "(*" + absnfsPath + ".uint64MinHeap).PushValue"
	isPush := func(in ssa.Instruction) bool {
		ci, ok := in.(ssa.CallInstruction)
		if !ok || !callsMethod(in, pushQ) {
			return false
		}
		_, ok = isLoadOfField(ci.Common().Args[0], "FileHandleMap", "freeHandles")
		return ok
	}
	pushers := map[*ssa.Function]bool{}
	for _, fn := range p.SrcFuncs {
		for _, b := range fn.Blocks {
			for _, in := range b.Instrs {
				if isPush(in) {
					pushers[fn] = true
				}
			}
		}
	}
	pushers = p.transitiveCallers(pushers)
	for _, fn := range p.SrcFuncs {
		if !strings.HasPrefix(fnKey(fn), "(*FileHandleMap).") || fn.Object() == nil || !fn.Object().Exported() {
			continue
		}
		key := "method=" + fnKey(fn)
		if !pushers[fn] {
			c.ok(P, "recycle", key, p.pos(fn.Pos()), "never recycles an id")
			continue
		}
		// every push (direct or via callee) must be followed by a reset of freeHandles
		good := true
		for _, b := range fn.Blocks {
			for _, in := range b.Instrs {
				ci, isCall := in.(ssa.CallInstruction)
				if !isCall {
					continue
				}
				viaCallee := false
				for _, callee := range p.calleesAt(fn, ci) {
					if pushers[callee] {
						viaCallee = true
					}
				}
				if !isPush(in) && !viaCallee {
					continue
				}
				res := follow(followSpec{Fn: fn, From: in, Closes: func(x ssa.Instruction) bool {
					st, ok := x.(*ssa.Store)
					if !ok {
						return false
					}
					_, f, ok := fieldAddrOf(st.Addr)
					return ok && f != nil && f.Name() == "freeHandles"
				}})
				if !res.OK {
					good = false
				}
			}
		}
		c.verdictIf(good, P, "recycle", key, p.pos(fn.Pos()), "ids it frees are discarded with the free list", fnKey(fn)+" puts issued handle values back on the free list: Allocate hands the smallest of them to the next new path, so a client still holding that value is served a different object instead of NFS3ERR_STALE")
	}

	// noreset
	nh := p.field("FileHandleMap", "nextHandle")
	nst := 0
	for _, fn := range p.SrcFuncs {
		for _, b := range fn.Blocks {
			for _, in := range b.Instrs {
				st, ok := in.(*ssa.Store)
				if !ok {
					continue
				}
				base, f, isFA := fieldAddrOf(st.Addr)
				if !isFA || f != nh {
					continue
				}
				if isFresh(base) {
					continue
				}
				nst++
				key := fmt.Sprintf("store=%s:nextHandle#%d", fnKey(fn), nst)
				good := false
				if bo, ok := st.Val.(*ssa.BinOp); ok && bo.Op == token.ADD {
					_, lf, isLoad := fieldLoad(bo.X)
					k, isC := constInt(bo.Y)
					good = isLoad && lf == nh && isC && k > 0
				}
				c.verdictIf(good, P, "noreset", key, p.instrPos(in), "increment", "the id counter is assigned something other than counter+const: ids can be reissued")
			}
		}
	}
	if nst == 0 {
		c.ok(P, "noreset", "store=none", "", "counter never stored outside constructors")
	}

	// stale
	ent, err := p.entrySet()
	if err != nil {
		c.undecided(P, "stale", "entries", "", err.Error())
		return
	}
	ln := p.Fn("(*NFSProcedureHandler).lookupNode")
	if ln == nil {
		c.undecided(P, "stale", "fn=lookupNode", "", "not found")
		return
	}
	for _, cs := range p.callers[ln] {
		fn := cs.Caller
		key := fmt.Sprintf("site=%s:lookupNode#%d", fnKey(fn), ordinal(fn, cs.Instr))
		var okv ssa.Value
		if v := cs.Instr.Value(); v != nil {
			for _, r := range *v.Referrers() {
				if ex, ok := r.(*ssa.Extract); ok && ex.Index == 1 {
					okv = ex
				}
			}
		}
		if okv == nil {
			c.bad(P, "stale", key, p.instrPos(cs.Instr), "found flag of lookupNode ignored")
			continue
		}
		var miss *ssa.BasicBlock
		for _, r := range *okv.Referrers() {
			if ifi, ok := r.(*ssa.If); ok {
				miss = ifi.Block().Succs[1]
			}
			if u, ok := r.(*ssa.UnOp); ok && u.Op == token.NOT {
				for _, r2 := range *u.Referrers() {
					if ifi, ok := r2.(*ssa.If); ok {
						miss = ifi.Block().Succs[0]
					}
				}
			}
		}
		if miss == nil {
			c.bad(P, "stale", key, p.instrPos(cs.Instr), "no branch on the found flag")
			continue
		}
		good, why := edgeRepliesConst(p, miss, 70)
		c.verdictIf(good, P, "stale", key, p.instrPos(cs.Instr), "miss edge replies NFS3ERR_STALE", why)
	}
	_ = ent
	// lookupNode body
	good := false
	for _, call := range calls(ln) {
		if isCallTo(call, "(*"+absnfsPath+".FileHandleMap).Get") {
			if prm, ok := call.Common().Args[1].(*ssa.Parameter); ok && paramIndex(ln, prm) == 1 {
				good = true
			}
		}
	}
	c.verdictIf(good, P, "lookup", "fn=lookupNode", p.pos(ln.Pos()), "Get(handle) of the argument", "lookupNode does not resolve its own handle argument through FileHandleMap.Get")
}

// edgeRepliesConst: from start every path returns nfsError*(reply, want) before any backend call.
func edgeRepliesConst(p *Prog, start *ssa.BasicBlock, want int64) (bool, string) {
	seen := map[edge]bool{}
	var path []*ssa.BasicBlock
	// the value a phi has on the path walked so far (results of an inlined helper are merged at a join)
	resolve := func(v ssa.Value) ssa.Value {
		for n := 0; n < 8; n++ {
			phi, ok := v.(*ssa.Phi)
			if !ok {
				break
			}
			at := -1
			for i := len(path) - 1; i > 0; i-- {
				if path[i] == phi.Block() {
					at = i
					break
				}
			}
			if at < 1 {
				break
			}
			idx := -1
			for i, pr := range phi.Block().Preds {
				if pr == path[at-1] {
					idx = i
				}
			}
			if idx < 0 || idx >= len(phi.Edges) {
				break
			}
			v = phi.Edges[idx]
		}
		return v
	}
	var walkEnv func(b *ssa.BasicBlock, env phiEnv) (bool, string)
	walkEnv = func(b *ssa.BasicBlock, env phiEnv) (bool, string) {
		var pred *ssa.BasicBlock
		if len(path) > 0 {
			pred = path[len(path)-1]
		}
		if seen[edge{pred, b}] {
			return true, ""
		}
		seen[edge{pred, b}] = true
		path = append(path, b)
		defer func() { path = path[:len(path)-1] }()
		for _, in := range b.Instrs {
			if ci, ok := in.(ssa.CallInstruction); ok && asBackendCall(ci) != nil {
				return false, "backend call " + shortCallee(ci) + " at " + p.instrPos(in) + " on the handle-not-found edge"
			}
			if r, ok := in.(*ssa.Return); ok {
				if len(r.Results) == 0 {
					return false, "bare return on the handle-not-found edge"
				}
				call, ok := resolve(r.Results[0]).(*ssa.Call)
				if !ok {
					// helper style: (nil, 0) after nfsErrorReply(reply, STALE) on the path
					for _, pb := range path {
						for _, in2 := range pb.Instrs {
							if c2, ok := in2.(*ssa.Call); ok {
								if f := staticCallee(c2); f != nil && strings.HasPrefix(f.Name(), "nfsError") && len(c2.Call.Args) > 1 {
									if k, isC := constInt(c2.Call.Args[1]); isC && k == want {
										return true, ""
									}
								}
							}
						}
					}
					return false, "handle-not-found edge returns a reply not built by an nfsError* helper at " + p.instrPos(in)
				}
				f := staticCallee(call)
				if f == nil || !strings.HasPrefix(f.Name(), "nfsError") {
					return false, "handle-not-found edge returns a reply not built by an nfsError* helper at " + p.instrPos(in)
				}
				k, isC := constInt(call.Call.Args[1])
				if !isC || k != want {
					return false, fmt.Sprintf("handle-not-found edge replies status %v, not NFS3ERR_STALE(70), at %s", call.Call.Args[1], p.instrPos(in))
				}
				return true, ""
			}
		}
		succs := feasibleSuccs(b, env)
		if ifi := blockIf(b); ifi != nil && len(succs) == 2 {
			// a nil test on a value merged at a join: decided by the value it has on this path
			if bo, ok := ifi.Cond.(*ssa.BinOp); ok && (bo.Op == token.EQL || bo.Op == token.NEQ) {
				x, y := resolve(bo.X), resolve(bo.Y)
				if isNilConst(x) && isNilConst(y) {
					if bo.Op == token.EQL {
						succs = succs[:1]
					} else {
						succs = succs[1:2]
					}
				}
			}
		}
		for _, s := range succs {
			if ok, why := walkEnv(s, env.enter(b, s)); !ok {
				return false, why
			}
		}
		return true, ""
	}
	return walkEnv(start, phiEnv{})
}
