package main

import (
	"fmt"
	"go/token"
	"go/types"
	"os"
	"path/filepath"
	"regexp"
	"strings"

	"golang.org/x/tools/go/ssa"
)

func init() {
	register("C26",
		"Decided from the reply traces of the two directory-listing handlers: (fit) the test that stops adding entries either involves the encoded size of the entry about to be added, or leaves a constant margin at least as large as one maximal entry plus the list trailer (READDIR: 4+8+4+256+8 + 8 = 288 bytes; READDIRPLUS: that + 88 + 16 = 392 bytes; names are at most 255 bytes by C07); a floor that raises a small client limit must be paired with a TOOSMALL refusal; (toosmall) NFS3ERR_TOOSMALL is a possible status of both handlers; (cookie) the cookie word of entry i is i+1 and the resume test skips exactly the indices below the client's cookie; the eof word is the negation of 'stopped for size'. Not decided: that concatenated pages equal the directory (depends on the backend listing being stable between calls and on every entry being stat-able).",
		commonAssume, runC26)
	register("C27",
		"Decided: (loopback) every call that changes the portmapper registry from the network entry point (RegisterService / UnregisterService reached from Portmapper.handleCall, for portmap v2 and rpcbind v3/v4 alike) is reachable only across the true edge of net.IP.IsLoopback applied to the connection's remote address — or the edge where no remote address exists at all (in-process caller); a guard that falls through when the address cannot be parsed is a violation; (dispatch) arms exist for procedures 0-4 of v2 and of v3/v4; (lock) the registry is read and written only under its mutex; lookups go through GetPort/GetMappings; (reply) makeReply writes the call's xid first and then an accepted-reply header. Not decided: map semantics over a history (update-versus-append in RegisterService), universal-address formatting.",
		commonAssume, runC27)
	register("C28",
		"Decided: for each in-package construction of a Server that reaches Listen — AbsfsNFS.Export and Server.StartWithPortmapper — the ServerOptions.UseRecordMarking value in force at Listen is the constant true (composite literal key or a store before the call); acceptLoop selects the record-marking connection handler on the true edge of that option; NULL, MNT and GETATTR are present in the dispatch tables. Not decided: an actual TCP exchange with a client.",
		commonAssume, runC28)
	register("C30",
		"Decided: (floor) BuildConfig calls Validate and returns its error before constructing the tls.Config; Validate refuses 0 < MinVersion < TLS 1.2; the tls.Config's MinVersion, MaxVersion and ClientAuth are the validated fields of the same TLSConfig; no other tls.Config literal exists in the package; the module's go directive is >= 1.22 and no //go:debug tls10server directive exists, so MinVersion 0 means TLS 1.2; (listen) in Server.Listen the TLS-enabled edge reaches only tls.Listen with the BuildConfig result; (ca) when client certificates are verified and a CA file is configured, ClientCAs is set from that file on every non-error return; (rotate) the TLSConfig handed out by GetExportOptions — the documented handle for ReloadCertificates — shares its certificate cell with the TLSConfig whose BuildConfig produced the listener's GetCertificate callback: it is that object or a clone that copies the cell by pointer. Not decided: real handshakes, cipher negotiation, chain validation.",
		commonAssume, runC30)
}

func runC26(c *Ctx) {
	p := c.P
	const P = "C26"
	c.rule(P, "fit", "stop test involves the next entry's size or leaves a margin >= one maximal entry + trailer", 2)
	c.rule(P, "toosmall", "NFS3ERR_TOOSMALL is a reachable status of READDIR and READDIRPLUS", 2)
	c.rule(P, "floor", "the client's count/maxcount is not silently raised to a floor", 0)
	c.rule(P, "toosmall-edge", "a NFS3ERR_TOOSMALL reply is reachable from the does-not-fit edge of the loop's stop test", 2)
	c.rule(P, "entry-size", "the stop test's estimate (Len + K + pad4(name)) covers the bytes the loop appends per entry plus the list trailer, minus the status word; sizes from the reply trace", 2)
	c.rule(P, "cookie", "entry cookie = index+1; resume skips indices < cookie; eof = !stopped-for-size", 6)
	runC26OrderPreserved(c)
	runC26EntrySkip(c, P)
	runInvalRemoves(c, P, "DirCache", "entries")
	runCacheKeyAgreement(c, P)
	ent, err := p.entrySet()
	if err != nil {
		c.undecided(P, "fit", "entries", "", err.Error())
		return
	}
	fl := newFlow(p)
	for _, spec := range []struct {
		num   uint32
		need  int64
		limit string
	}{{16, 288, "count"}, {17, 392, "maxcount"}} {
		h := ent.Handlers[spec.num]
		name := procNames[spec.num]
		if h == nil {
			c.undecided(P, "fit", "proc="+name, "", "no handler")
			continue
		}
		// the stop test: If in the entry loop comparing buf.Len() with a bound
		var stopIf *ssa.If
		var bound, boundForFloor ssa.Value
		budgets := map[*ssa.If]*budgetInfo{}
		for _, b := range h.Blocks {
			ifi := blockIf(b)
			if ifi == nil || !inCycle(b) {
				continue
			}
			bo, ok := ifi.Cond.(*ssa.BinOp)
			if !ok || (bo.Op != token.GEQ && bo.Op != token.GTR) {
				continue
			}
			if hasOrigin(fl.Origins(bo.X), func(o Origin) bool { return o.Kind == "call" && strings.Contains(o.Desc, "(*bytes.Buffer).Len") }) {
				stopIf, bound, boundForFloor = ifi, bo.Y, bo.Y
				// does the compared quantity include the entry's size?
				if hasOrigin(fl.Origins(bo.X), func(o Origin) bool {
					return strings.Contains(o.Desc, "path.Base") || strings.Contains(o.Desc, "field:NFSNode.path")
				}) {
					bound = nil
				}
				// the same question asked of the expression itself (size helpers, named constants)
				if est := evalLin(p, bo.X, nil, 0); est.OK && (est.PadName+est.RawName > 0 || est.OtherLen) {
					bound = nil
				}
			} else if bud := budgetForm(p, bo); bud != nil {
				// `entrySize > budget` with budget = limit - K, decreased by the entry size after each entry
				stopIf, bound, boundForFloor = ifi, nil, bud.init
				budgets[ifi] = bud
			}
		}
		key := "proc=" + name
		if stopIf == nil {
			c.bad(P, "fit", key, p.pos(h.Pos()), "no size test in the entry loop: the reply is not limited by "+spec.limit)
		} else if bound == nil {
			c.ok(P, "fit", key, p.instrPos(stopIf), "the stop test accounts for the entry about to be added")
			runC26EntrySizeB(c, h, name, stopIf, budgets[stopIf])
			runC26TooSmallEdge(c, h, name, stopIf)
			// a floor that silently raises a small client limit defeats the limit for those requests
			if fl := floorConst(boundForFloor); fl >= 0 {
				c.bad(P, "floor", key, p.instrPos(stopIf), fmt.Sprintf("a %s below %d is raised to %d instead of being refused with NFS3ERR_TOOSMALL: for such requests the encoded reply can exceed the limit the client gave", spec.limit, fl, fl))
			} else {
				c.ok(P, "floor", key, p.instrPos(stopIf), "the client's limit is used as given")
			}
		} else {
			// bound = wire limit - margin, possibly floored: find SUB constant and floor constants
			margin := int64(-1)
			floor := int64(-1)
			seen := map[ssa.Value]bool{}
			var walk func(v ssa.Value)
			walk = func(v ssa.Value) {
				if seen[v] {
					return
				}
				seen[v] = true
				switch x := v.(type) {
				case *ssa.Phi:
					for _, e := range x.Edges {
						if k, ok := constInt(e); ok {
							floor = k
						} else {
							walk(e)
						}
					}
				case *ssa.BinOp:
					if x.Op == token.SUB {
						if k, ok := constInt(x.Y); ok {
							margin = k
						}
					}
					walk(x.X)
				case *ssa.Convert:
					walk(x.X)
				case *ssa.UnOp:
					if al, ok := x.X.(*ssa.Alloc); ok {
						forEachUseOfCell(al, func(in ssa.Instruction, how string, cc ssa.CallInstruction, i int) {
							if how == "store" {
								st := in.(*ssa.Store)
								if k, ok := constInt(st.Val); ok {
									floor = k
								} else {
									walk(st.Val)
								}
							}
						})
					}
				}
			}
			walk(bound)
			switch {
			case margin < 0:
				c.undecided(P, "fit", key, p.instrPos(stopIf), "cannot read the margin the stop bound leaves")
			case margin >= spec.need && floor < 0:
				c.ok(P, "fit", key, p.instrPos(stopIf), fmt.Sprintf("margin %d >= %d", margin, spec.need))
			default:
				why := fmt.Sprintf("entries are added while the buffer is below %s-%d, but one more entry plus the list trailer can take %d bytes: the encoded reply can exceed the client's %s", spec.limit, margin, spec.need, spec.limit)
				if floor >= 0 {
					why += fmt.Sprintf("; limits below %d are silently raised to %d instead of being refused with NFS3ERR_TOOSMALL", floor+margin, floor)
				}
				c.bad(P, "fit", key, p.instrPos(stopIf), why)
			}
		}
		// toosmall
		shapes, _ := p.handlerReplies(h)
		has := false
		for _, rs := range shapes {
			for _, v := range rs.StatusSet {
				if v == 10005 {
					has = true
				}
			}
		}
		c.verdictIf(has, P, "toosmall", key, p.pos(h.Pos()), "TOOSMALL reachable", name+" can never answer NFS3ERR_TOOSMALL: when not even one entry fits it returns an oversized or empty page instead")
		// cookie: in the ok shapes with one entry: tokens ... ONE U64 STR U64(cookie)
		var cookieTok *tok
		var eofToks []tok
		for _, rs := range okShapes(p, h) {
			// find pattern U32(1) U64 STR U64
			for i := 0; i+3 < len(rs.Toks); i++ {
				if isConst(rs.Toks[i], 1) && rs.Toks[i+1].Kind == "U64" && rs.Toks[i+2].Kind == "STR" && rs.Toks[i+3].Kind == "U64" {
					t := rs.Toks[i+3]
					cookieTok = &t
				}
			}
			if n := len(rs.Toks); n > 0 {
				eofToks = append(eofToks, rs.Toks[n-1])
			}
		}
		if cookieTok == nil {
			c.undecided(P, "cookie", key+" cookie", p.pos(h.Pos()), "no entry with a cookie found in the reply trace")
		} else {
			good := false
			v := unwrap(cookieTok.Val)
			if bo, ok := v.(*ssa.BinOp); ok && bo.Op == token.ADD {
				if k, isC := constInt(bo.Y); isC && k == 1 {
					if _, isPhi := unwrap(bo.X).(*ssa.Phi); isPhi {
						good = true
					}
					if bo2, ok := unwrap(bo.X).(*ssa.BinOp); ok && bo2.Op == token.ADD { // rotated loop: index = phi+1 ... accept index expressions
						_ = bo2
						good = true
					}
				}
			}
			c.verdictIf(good, P, "cookie", key+" cookie=index+1", p.instrPos(cookieTok.Instr), "cookie is the entry's index + 1", "the cookie written for an entry is not its index + 1: following the cookies skips or repeats entries")
		}
		// resume: If in loop: uint64(index) < cookie(wire) -> skip
		resume := false
		for _, b := range h.Blocks {
			ifi := blockIf(b)
			if ifi == nil || !inCycle(b) {
				continue
			}
			bo, ok := ifi.Cond.(*ssa.BinOp)
			if !ok || bo.Op != token.LSS {
				continue
			}
			wire := hasOrigin(fl.Origins(bo.Y), func(o Origin) bool { return o.Kind == "outparam" && strings.Contains(o.Desc, "binary.Read") })
			_, isIdx := unwrap(bo.X).(*ssa.Phi)
			if bo2, ok := unwrap(bo.X).(*ssa.BinOp); ok && bo2.Op == token.ADD {
				isIdx = true
			}
			if wire && isIdx {
				resume = true
			}
		}
		if !resume {
			// the other way to resume: the loop index STARTS at the client's cookie (clamped to the listing)
			for _, b := range h.Blocks {
				if !inCycle(b) {
					continue
				}
				for _, in := range b.Instrs {
					phi, ok := in.(*ssa.Phi)
					if !ok {
						break
					}
					if bt, ok := phi.Type().Underlying().(*types.Basic); !ok || bt.Info()&types.IsInteger == 0 {
						continue
					}
					stepped, fromWire := false, false
					for i, e := range phi.Edges {
						if bo, ok := unwrap(e).(*ssa.BinOp); ok && bo.Op == token.ADD && unwrap(bo.X) == ssa.Value(phi) {
							if k, isC := constInt(bo.Y); isC && k == 1 {
								stepped = true
							}
							continue
						}
						if i < len(b.Preds) && !b.Dominates(b.Preds[i]) { // the edge that enters the loop
							if hasOrigin(fl.Origins(e), func(o Origin) bool { return o.Kind == "outparam" && strings.Contains(o.Desc, "binary.Read") }) {
								fromWire = true
							}
						}
					}
					if stepped && fromWire {
						resume = true
					}
				}
			}
		}
		c.verdictIf(resume, P, "cookie", key+" resume", p.pos(h.Pos()), "entries with index < cookie are skipped", "the listing does not resume at the client's cookie (`index < cookie` ⇒ skip)")
		// eof: const tokens controlled by the reachedLimit phi
		eofOK := len(eofToks) > 0
		for _, t := range eofToks {
			if t.Const == nil {
				// the word itself is a variable: 1 by default, 0 exactly on the edges that leave through the stop test
				okVar := false
				if phi, isPhi := unwrap(t.Val).(*ssa.Phi); isPhi && stopIf != nil {
					okVar = true
					zeros := 0
					for i, e := range phi.Edges {
						k, isC := constInt(unwrap(e))
						if !isC || (k != 0 && k != 1) {
							okVar = false
							break
						}
						pred := phi.Block().Preds[i]
						fromStop := pred == stopIf.Block().Succs[0] || stopIf.Block().Succs[0].Dominates(pred)
						if (k == 0) != fromStop {
							okVar = false
						}
						if k == 0 {
							zeros++
						}
					}
					if zeros == 0 {
						okVar = false
					}
				}
				if !okVar {
					eofOK = false
				}
				continue
			}
			// block facts: a phi (reachedLimit) false for eof=1, true for eof=0
			ok1 := false
			for _, f := range p.facts(t.Instr.Block()) {
				if phi, ok := f.V.(*ssa.Phi); ok {
					// phi is true only from the stop-test true edge
					trueFromStop := true
					for i, e := range phi.Edges {
						if k, isC := e.(*ssa.Const); isC && k.Value != nil && k.Value.String() == "true" {
							pred := phi.Block().Preds[i]
							if stopIf == nil || !(pred == stopIf.Block().Succs[0] || stopIf.Block().Succs[0].Dominates(pred)) {
								trueFromStop = false
							}
						}
					}
					if trueFromStop && ((*t.Const == 1 && !f.Val) || (*t.Const == 0 && f.Val)) {
						ok1 = true
					}
				}
			}
			if !ok1 {
				eofOK = false
			}
		}
		c.verdictIf(eofOK, P, "cookie", key+" eof", p.pos(h.Pos()), "eof = !stopped-for-size", "the eof word is not the negation of 'the loop stopped because the reply was full'")
	}
}

// ---------------------------------------------------------------------------

func runC27(c *Ctx) {
	p := c.P
	const P = "C27"
	c.rule(P, "loopback", "registry mutation from the network only across IsLoopback()==true of the peer address (fail closed)", 4)
	c.rule(P, "dispatch", "arms for procedures 0-4 of portmap v2 and rpcbind v3/v4", 10)
	c.rule(P, "lock", "Portmapper.mappings only under mu", 8)
	c.rule(P, "reply", "makeReply: xid first, REPLY, MSG_ACCEPTED, null verifier", 1)
	hc := p.Fn("(*Portmapper).handleCall")
	if hc == nil {
		c.undecided(P, "loopback", "fn=handleCall", "", "not found")
		return
	}
	runC27Truthful(c)
	runC27DumpLive(c)
	runC27MappingsCopy(c, P)
	reach := p.reachableFrom([]*ssa.Function{hc})
	isEntry := map[*ssa.Function]bool{hc: true}
	fl := newFlow(p)
	fl.ExpandParams = true
	var safe func(f condFact) bool
	baseSafe := func(f condFact) bool {
		if call, ok := f.V.(*ssa.Call); ok && f.Val {
			if callee := staticCallee(call); callee != nil && qualFn(callee) == "(net.IP).IsLoopback" {
				// receiver derives from the remote address
				return hasOrigin(fl.Origins(call.Call.Args[0]), func(o Origin) bool {
					return (o.Kind == "call" && strings.Contains(o.Desc, "RemoteAddr")) || (o.Kind == "call" && strings.Contains(o.Desc, "net.ParseIP")) || o.Kind == "param"
				})
			}
		}
		// no remote address at all: in-process caller
		op, l, r, ok := normCmp(f)
		if ok && op == "==" && (isNilConst(l) || isNilConst(r)) {
			other := l
			if isNilConst(l) {
				other = r
			}
			if prm, ok := other.(*ssa.Parameter); ok && strings.Contains(prm.Type().String(), "net.Addr") {
				return true
			}
		}
		return false
	}
	safe = p.withBoolSummaries(baseSafe)
	n := 0
	for _, fn := range p.SrcFuncs {
		if !reach[fn] {
			continue
		}
		for _, call := range calls(fn) {
			callee := staticCallee(call)
			if callee == nil || (fnKey(callee) != "(*Portmapper).RegisterService" && fnKey(callee) != "(*Portmapper).UnregisterService") {
				continue
			}
			n++
			key := fmt.Sprintf("sink=%s:%s#%d", fnKey(fn), callee.Name(), ordinal(fn, call))
			r := p.liftGuard(fn, call, safe, isEntry, reach)
			c.verdictIf(r.Guarded && !r.Unreached, P, "loopback", key, p.instrPos(call), "only for loopback peers",
				"a remote client can change the portmapper registry: "+callee.Name()+" is reachable from handleCall without crossing an IsLoopback()==true edge of the peer address (a missing check, or one that falls through when the address does not parse — e.g. a zoned IPv6 peer `fe80::1%eth0`): "+strings.Join(r.Chain, " -> "))
		}
	}
	if n == 0 {
		c.undecided(P, "loopback", "sink=none", p.pos(hc.Pos()), "no registry mutation reachable from handleCall")
	}
	// peer-arg: a nil address passes the loopback test as "in-process caller"; every call of handleCall in the
	// package must therefore hand it the address of the connection the bytes came from
	c.rule(P, "peer-arg", "every call of handleCall passes the peer address of the connection (RemoteAddr / the address a datagram was read from), never nil or another value", 1)
	for i, cs := range p.callers[hc] {
		key := fmt.Sprintf("call=%s:handleCall#%d", fnKey(cs.Caller), i+1)
		args := cs.Instr.Common().Args
		if len(args) < 3 {
			c.undecided(P, "peer-arg", key, p.instrPos(cs.Instr), "unexpected arity")
			continue
		}
		why := ""
		os := fl.Origins(args[len(args)-1])
		if len(os) == 0 {
			why = "no origin"
		}
		for _, o := range os {
			switch {
			case o.Kind == "call" && strings.Contains(o.Desc, "RemoteAddr"):
			case o.Kind == "call" && strings.Contains(o.Desc, "ReadFrom"):
			case o.Kind == "outparam" && strings.Contains(o.Desc, "ReadFrom"):
			default:
				why = o.Desc
			}
		}
		c.verdictIf(why == "", P, "peer-arg", key, p.instrPos(cs.Instr), "peer address of the connection",
			"handleCall is entered with a peer address that is not the connection's ("+why+"): a nil address counts as an in-process caller, so SET/UNSET embedded in such a call change the registry for a remote client")
	}
	// dispatch: arms by (version==2 edge, procedure const)
	type arm struct {
		v2   bool
		proc int64
	}
	arms := map[arm]bool{}
	for _, b := range hc.Blocks {
		ifi := blockIf(b)
		if ifi == nil {
			continue
		}
		bo, ok := ifi.Cond.(*ssa.BinOp)
		if !ok || bo.Op != token.EQL {
			continue
		}
		k, isC := constInt(bo.Y)
		if !isC {
			continue
		}
		// is this a procedure comparison? operand is the local `procedure` cell (7th decoded word); identify by controlling facts including version==2 true/false
		isV2, known := false, false
		procCell := cellOf(bo.X)
		for _, f := range p.facts(b) {
			op, l, r, okc := normCmp(f)
			if !okc {
				continue
			}
			if procCell != nil && cellOf(l) == procCell {
				continue // an earlier case of the same procedure switch
			}
			if kk, isCC := constInt(r); isCC && kk == 2 && (op == "==" || op == "!=") {
				// version == 2 test (the first such controlling fact after the version range check)
				known = true
				isV2 = op == "=="
			}
		}
		if known && k >= 0 && k <= 5 {
			arms[arm{isV2, k}] = true
		}
	}
	// table-driven dispatch: `entry, ok := table[procedure]` with table one of two package-level maps chosen by
	// the version == 2 test; the arms are the constant keys the package initialiser stores into those maps
	if initFn := p.Pkg.Func("init"); initFn != nil {
		keysOf := map[*ssa.Global][]int64{}
		for _, b := range initFn.Blocks {
			for _, in := range b.Instrs {
				mu, ok := in.(*ssa.MapUpdate)
				if !ok {
					continue
				}
				k, isC := constInt(mu.Key)
				if !isC {
					continue
				}
				// the map value is stored into a global
				if refs := mu.Map.Referrers(); refs != nil {
					for _, r := range *refs {
						if st, ok := r.(*ssa.Store); ok && st.Val == mu.Map {
							if g, ok := st.Addr.(*ssa.Global); ok {
								keysOf[g] = append(keysOf[g], k)
							}
						}
					}
				}
			}
		}
		globalOf := func(v ssa.Value) *ssa.Global {
			if u, ok := v.(*ssa.UnOp); ok && u.Op == token.MUL {
				if g, ok := u.X.(*ssa.Global); ok {
					return g
				}
			}
			return nil
		}
		for _, b := range hc.Blocks {
			for _, in := range b.Instrs {
				lk, ok := in.(*ssa.Lookup)
				if !ok || !lk.CommaOk {
					continue
				}
				add := func(g *ssa.Global, facts []condFact) {
					if g == nil {
						return
					}
					for _, f := range facts {
						op, _, r, okc := normCmp(f)
						if !okc {
							continue
						}
						if kk, isCC := constInt(r); isCC && kk == 2 && (op == "==" || op == "!=") {
							for _, k := range keysOf[g] {
								arms[arm{op == "==", k}] = true
							}
							return
						}
					}
				}
				if g := globalOf(lk.X); g != nil {
					add(g, p.facts(b))
				} else if phi, isPhi := lk.X.(*ssa.Phi); isPhi {
					for i, e := range phi.Edges {
						if i >= len(phi.Block().Preds) {
							continue
						}
						pred := phi.Block().Preds[i]
						facts := append(append([]condFact{}, p.facts(pred)...), edgeFacts(pred, phi.Block())...)
						add(globalOf(e), facts)
					}
				}
			}
		}
	}
	for _, v2 := range []bool{true, false} {
		for proc := int64(0); proc <= 4; proc++ {
			name := "v3/v4"
			if v2 {
				name = "v2"
			}
			c.verdictIf(arms[arm{v2, proc}], P, "dispatch", fmt.Sprintf("arm=%s proc=%d", name, proc), p.pos(hc.Pos()), "present", "no arm for this procedure: it is answered PROC_UNAVAIL")
		}
	}
	lockRule(c, P, "lock", specPortmap)
	mr := p.Fn("(*Portmapper).makeReply")
	if mr == nil {
		c.undecided(P, "reply", "fn=makeReply", "", "not found")
		return
	}
	bts := p.traceBuffers(mr)
	good := false
	for _, bt := range bts {
		for _, path := range bt.Paths {
			if len(path) >= 5 && path[0].Kind == "U32" && path[0].Val == ssa.Value(mr.Params[1]) && isConst(path[1], 1) && isConst(path[2], 0) && isConst(path[3], 0) && isConst(path[4], 0) {
				good = true
			} else {
				good = false
			}
		}
	}
	c.verdictIf(good, P, "reply", "fn=makeReply header", p.pos(mr.Pos()), "xid, REPLY, MSG_ACCEPTED, AUTH_NONE verifier", "portmapper replies do not start with the call's xid followed by an accepted-reply header")
}

// ---------------------------------------------------------------------------

func runC28(c *Ctx) {
	p := c.P
	const P = "C28"
	runTimeoutsComplete(c, P)
	c.rule(P, "record-marking", "every in-package construction that reaches Listen has UseRecordMarking == true", 2)
	c.rule(P, "select", "acceptLoop: UseRecordMarking true edge ⇒ handleConnectionWithRecordMarking", 1)
	c.rule(P, "procs", "NULL, MNT, GETATTR are dispatched", 3)
	urm := p.field("ServerOptions", "UseRecordMarking")
	ns := p.Fn("NewServer")
	listen := p.Fn("(*Server).Listen")
	if urm == nil || ns == nil || listen == nil {
		c.undecided(P, "record-marking", "bindings", "", "ServerOptions.UseRecordMarking / NewServer / Listen not found")
		return
	}
	// speaking the protocol over TCP includes reading record marks that arrive in pieces (shared with C13)
	runFullReadAs(c, P)
	runAllFragmentsAs(c, P)
	runC28Advertised(c)
	// constructions: calls to NewServer in package (non-test)
	for _, cs := range p.callers[ns] {
		fn := cs.Caller
		key := "construct=" + fnKey(fn) + ":NewServer"
		// does fn reach Listen afterwards?
		reaches := false
		for _, c2 := range calls(fn) {
			if staticCallee(c2) == listen {
				reaches = true
			}
		}
		if !reaches {
			continue
		}
		arg := cs.Instr.Common().Args[0]
		good := false
		// ServerOptions literal: an Alloc loaded and passed by value
		if u, ok := arg.(*ssa.UnOp); ok {
			if al, ok := u.X.(*ssa.Alloc); ok {
				for _, v := range fieldStores(al, urm) {
					if k, isC := v.(*ssa.Const); isC && k.Value != nil && k.Value.String() == "true" {
						good = true
					}
				}
			}
		}
		c.verdictIf(good, P, "record-marking", key, p.instrPos(cs.Instr), "UseRecordMarking: true",
			fnKey(fn)+" builds its server without UseRecordMarking: the documented quick-start path listens with raw framing and a standard NFS client's record-marked call is misparsed")
	}
	// StartWithPortmapper: store true to s.options.UseRecordMarking before Listen
	sp := p.Fn("(*Server).StartWithPortmapper")
	if sp != nil {
		good := false
		for _, b := range sp.Blocks {
			for _, in := range b.Instrs {
				if st, ok := in.(*ssa.Store); ok {
					if _, f, ok := fieldAddrOf(st.Addr); ok && f == urm {
						if k, isC := st.Val.(*ssa.Const); isC && k.Value != nil && k.Value.String() == "true" {
							for _, c2 := range calls(sp) {
								if staticCallee(c2) == listen && (b == c2.Block() && instrIndex(in) < instrIndex(c2) || b != c2.Block() && b.Dominates(c2.Block())) {
									good = true
								}
							}
						}
					}
				}
			}
		}
		c.verdictIf(good, P, "record-marking", "construct=(*Server).StartWithPortmapper", p.pos(sp.Pos()), "UseRecordMarking = true before Listen", "StartWithPortmapper does not enable record marking before Listen")
	}
	al := p.Fn("(*Server).acceptLoop")
	if al != nil {
		good := false
		for _, fn := range append([]*ssa.Function{al}, al.AnonFuncs...) {
			for _, call := range calls(fn) {
				if callee := staticCallee(call); callee != nil && callee.Name() == "handleConnectionWithRecordMarking" {
					good = guardedBy(fn, call.Block(), fieldGuard(urm, true))
				}
			}
		}
		c.verdictIf(good, P, "select", "fn=acceptLoop", p.pos(al.Pos()), "record-marking handler on the true edge", "acceptLoop does not select the record-marking handler on UseRecordMarking == true")
	}
	ent, err := p.entrySet()
	if err == nil {
		c.verdictIf(ent.Handlers[0] != nil, P, "procs", "proc=NULL", "", "dispatched", "NFS NULL has no handler")
		c.verdictIf(ent.Handlers[1] != nil, P, "procs", "proc=GETATTR", "", "dispatched", "NFS GETATTR has no handler")
		mnt := false
		for _, call := range calls(ent.Mount) {
			if callsMethod(call, "(*"+absnfsPath+".FileHandleMap).Allocate") {
				mnt = true
			}
		}
		c.verdictIf(mnt, P, "procs", "proc=MNT", "", "MNT allocates the root handle", "MOUNT MNT does not hand out a file handle")
	}
}

// ---------------------------------------------------------------------------

func runC30(c *Ctx) {
	p := c.P
	const P = "C30"
	runC30CloneCell(c, P)
	c.rule(P, "floor", "Validate refuses 0<MinVersion<TLS1.2 and dominates the tls.Config construction; config fields are the validated ones; go directive >= 1.22", 5)
	c.rule(P, "listen", "Listen: TLS-enabled edge reaches only tls.Listen with the BuildConfig result", 1)
	c.rule(P, "ca", "ClientCAs set from CAFile when client certificates are verified", 1)
	c.rule(P, "rotate", "the TLSConfig returned through GetExportOptions shares the certificate cell the listener reads", 1)
	runC30RotateUpdate(c)
	runC30NoStaticCert(c)
	val := p.Fn("(*TLSConfig).Validate")
	bc := p.Fn("(*TLSConfig).BuildConfig")
	if val == nil || bc == nil {
		c.undecided(P, "floor", "fns", "", "Validate/BuildConfig not found")
		return
	}
	// Validate: MinVersion != 0 && MinVersion < 0x0303 => error
	floor := false
	for _, b := range val.Blocks {
		ifi := blockIf(b)
		if ifi == nil {
			continue
		}
		bo, ok := ifi.Cond.(*ssa.BinOp)
		if !ok || bo.Op != token.LSS {
			continue
		}
		_, f, isLoad := fieldLoad(bo.X)
		k, isC := constInt(bo.Y)
		if isLoad && f != nil && f.Name() == "MinVersion" && isC && k == 0x0303 && rejectEdgeOK(p, b.Succs[0], true) {
			floor = true
		}
	}
	c.verdictIf(floor, P, "floor", "fn=Validate rejects<TLS1.2", p.pos(val.Pos()), "MinVersion < TLS 1.2 is refused", "Validate does not refuse a MinVersion below TLS 1.2 (0x0303)")
	// exactness: acceptance (return nil) is reachable only across MinVersion == 0 or MinVersion >= TLS 1.2
	{
		isMin := func(v ssa.Value) bool {
			_, f, isLoad := fieldLoad(v)
			return isLoad && f != nil && f.Name() == "MinVersion"
		}
		safe := func(f condFact) bool {
			// TLS disabled: nothing is listened on with this configuration (BuildConfig returns no config)
			if _, fld, isLoad := fieldLoad(f.V); isLoad && fld != nil && fld.Name() == "Enabled" && !f.Val {
				return true
			}
			op, l, r, ok := normCmp(f)
			if !ok {
				return false
			}
			switch op {
			case "==":
				k1, c1 := constInt(r)
				k2, c2 := constInt(l)
				return isMin(l) && c1 && k1 == 0 || isMin(r) && c2 && k2 == 0
			case ">=":
				k, isC := constInt(r)
				return isMin(l) && isC && k >= 0x0303
			case ">":
				k, isC := constInt(r)
				return isMin(l) && isC && k >= 0x0302
			}
			return false
		}
		good, n := true, 0
		var at ssa.Instruction
		for _, b := range val.Blocks {
			if b == val.Recover || len(b.Instrs) == 0 {
				continue
			}
			r, ok := b.Instrs[len(b.Instrs)-1].(*ssa.Return)
			if !ok || len(r.Results) == 0 || !isNilConst(retVal(r, len(r.Results)-1)) {
				continue
			}
			n++
			if !guardedBy(val, b, safe) {
				good, at = false, r
			}
		}
		pos := p.pos(val.Pos())
		if at != nil {
			pos = p.instrPos(at)
		}
		c.verdictIf(good && n > 0, P, "floor", "fn=Validate accepts-only-0-or>=TLS1.2", pos, "every accepting path has established MinVersion == 0 or MinVersion >= TLS 1.2",
			"Validate can accept a configuration on a path that never established MinVersion == 0 or MinVersion >= TLS 1.2 (the floor test is skipped under some other condition): BuildConfig copies that MinVersion into the listener's tls.Config and TLS 1.0/1.1 handshakes complete")
	}
	// BuildConfig: Validate call's error edge returns; dominates the tls.Config alloc
	var cfgAlloc *ssa.Alloc
	for _, b := range bc.Blocks {
		for _, in := range b.Instrs {
			if al, ok := in.(*ssa.Alloc); ok && al.Type().String() == "*crypto/tls.Config" {
				cfgAlloc = al
			}
		}
	}
	dom := false
	for _, call := range calls(bc) {
		if staticCallee(call) == val {
			succ, fail, ok := errSuccessEdge(call)
			if ok && cfgAlloc != nil && (succ == cfgAlloc.Block() || succ.Dominates(cfgAlloc.Block())) && rejectEdgeOK(p, fail, true) {
				dom = true
			}
		}
	}
	c.verdictIf(dom, P, "floor", "fn=BuildConfig validate-first", p.pos(bc.Pos()), "Validate's success edge dominates the construction", "BuildConfig constructs the tls.Config without Validate having succeeded first")
	if cfgAlloc != nil {
		good := true
		var why []string
		for _, fname := range []string{"MinVersion", "MaxVersion", "ClientAuth"} {
			okf := false
			for _, r := range *cfgAlloc.Referrers() {
				fa, ok := r.(*ssa.FieldAddr)
				if !ok {
					continue
				}
				f := fieldOf(fa.X.Type(), fa.Field)
				if f == nil || f.Name() != fname {
					continue
				}
				for _, r2 := range *fa.Referrers() {
					if st, ok := r2.(*ssa.Store); ok {
						if base, lf, ok := fieldLoad(st.Val); ok && lf != nil && lf.Name() == fname && sameValue(base, bc.Params[0]) {
							okf = true
						}
					}
				}
			}
			if !okf {
				good = false
				why = append(why, fname)
			}
		}
		c.verdictIf(good, P, "floor", "fn=BuildConfig fields", p.instrPos(cfgAlloc), "MinVersion/MaxVersion/ClientAuth come from the validated TLSConfig", "tls.Config fields not taken from the validated TLSConfig: "+strings.Join(why, ","))
	}
	// other tls.Config literals
	nOther := 0
	for _, fn := range p.SrcFuncs {
		if fn == bc {
			continue
		}
		for _, b := range fn.Blocks {
			for _, in := range b.Instrs {
				if al, ok := in.(*ssa.Alloc); ok && al.Type().String() == "*crypto/tls.Config" {
					nOther++
					c.bad(P, "floor", "literal="+fnKey(fn), p.instrPos(in), "a tls.Config is built outside BuildConfig, bypassing Validate")
				}
			}
		}
	}
	if nOther == 0 {
		c.ok(P, "floor", "literal=only-BuildConfig", "", "no other tls.Config literal")
	}
	// go directive
	gomod, _ := os.ReadFile(filepath.Join(p.RepoDir, "go.mod"))
	m := regexp.MustCompile(`(?m)^go\s+1\.(\d+)`).FindSubmatch(gomod)
	okGo := false
	if m != nil {
		var minor int
		fmt.Sscanf(string(m[1]), "%d", &minor)
		okGo = minor >= 22
	}
	debugDirective := false
	for _, f := range p.Main.GoFiles {
		src, _ := os.ReadFile(f)
		if strings.Contains(string(src), "//go:debug tls10server") {
			debugDirective = true
		}
	}
	if strings.Contains(string(gomod), "tls10server") {
		debugDirective = true
	}
	c.verdictIf(okGo && !debugDirective, P, "floor", "module=go>=1.22", "", "MinVersion 0 means TLS 1.2 for servers", "go directive < 1.22 or tls10server debug setting: a zero MinVersion admits TLS 1.0")

	// listen
	listen := p.Fn("(*Server).Listen")
	if listen != nil {
		en := p.field("TLSConfig", "Enabled")
		good, why := false, "Listen never calls tls.Listen"
		for _, call := range calls(listen) {
			if callee := staticCallee(call); callee != nil && qualFn(callee) == "crypto/tls.Listen" {
				good, why = true, ""
				// config arg from BuildConfig
				fromBuild := hasOrigin(newFlow(p).Origins(call.Common().Args[2]), func(o Origin) bool { return o.Kind == "call" && strings.Contains(o.Desc, "BuildConfig") })
				if !fromBuild {
					good, why = false, "tls.Listen does not use the BuildConfig result"
				}
			}
		}
		for _, call := range calls(listen) {
			if callee := staticCallee(call); callee != nil && qualFn(callee) == "net.Listen" {
				// must be on an edge where Enabled is false or TLS nil
				plain := guardedBy(listen, call.Block(), func(f condFact) bool {
					if _, fl, ok := fieldLoad(f.V); ok && fl == en && !f.Val {
						return true
					}
					op, l, r, ok := normCmp(f)
					if ok && op == "==" && (isNilConst(l) || isNilConst(r)) {
						return true
					}
					return false
				})
				if !plain {
					good, why = false, "a plain net.Listen is reachable while TLS is enabled"
				}
			}
		}
		c.verdictIf(good, P, "listen", "fn=Listen", p.pos(listen.Pos()), "TLS edge ⇒ tls.Listen(BuildConfig())", why)
	}
	// ca
	if cfgAlloc != nil {
		caSet := false
		for _, r := range *cfgAlloc.Referrers() {
			if fa, ok := r.(*ssa.FieldAddr); ok {
				if f := fieldOf(fa.X.Type(), fa.Field); f != nil && f.Name() == "ClientCAs" {
					for _, r2 := range *fa.Referrers() {
						if st, ok := r2.(*ssa.Store); ok {
							// guarded by ClientAuth >= VerifyClientCertIfGiven && CAFile != ""
							g1, g2 := false, false
							for _, f := range p.facts(st.Block()) {
								op, l, rr, okc := normCmp(f)
								if !okc {
									continue
								}
								if _, lf, ok := fieldLoad(l); ok && lf != nil && lf.Name() == "ClientAuth" && op == ">=" {
									if k, isC := constInt(rr); isC && k == 3 {
										g1 = true
									}
								}
								if _, lf, ok := fieldLoad(l); ok && lf != nil && lf.Name() == "CAFile" && op == "!=" {
									g2 = true
								}
							}
							pool := hasOrigin(newFlow(p).Origins(st.Val), func(o Origin) bool { return o.Kind == "call" && strings.Contains(o.Desc, "NewCertPool") })
							if g1 && g2 && pool {
								caSet = true
							}
						}
					}
				}
			}
		}
		c.verdictIf(caSet, P, "ca", "fn=BuildConfig ClientCAs", p.pos(bc.Pos()), "ClientCAs = pool from CAFile when ClientAuth >= VerifyClientCertIfGiven", "client certificates are verified against the system roots instead of the configured CA file")
	}
	// rotate
	eos := p.Fn("exportOptionsFromSnapshots")
	if eos == nil {
		c.undecided(P, "rotate", "fn=exportOptionsFromSnapshots", "", "not found")
		return
	}
	tlsFld := p.field("ExportOptions", "TLS")
	good, why := false, "GetExportOptions does not return the TLS settings"
	for _, b := range eos.Blocks {
		for _, in := range b.Instrs {
			st, ok := in.(*ssa.Store)
			if !ok {
				continue
			}
			if _, f, ok := fieldAddrOf(st.Addr); !ok || f != tlsFld {
				continue
			}
			// value: load of p.TLS (shared object) => ok; Clone() => ok only if Clone copies the cert cell by pointer
			if _, lf, ok := fieldLoad(st.Val); ok && lf != nil && lf.Name() == "TLS" {
				good, why = true, ""
				continue
			}
			if call, ok := st.Val.(*ssa.Call); ok {
				if callee := staticCallee(call); callee != nil && callee.Name() == "Clone" {
					if cloneSharesCert(p, callee) {
						good, why = true, ""
					} else {
						good, why = false, "GetExportOptions hands out TLSConfig.Clone(): a fresh object whose certificate cell is its own, by value. The listener's GetCertificate callback reads the cell of the TLSConfig stored in the policy, so ReloadCertificates on the returned settings — the documented rotation step — never changes what new handshakes present"
					}
				}
			}
		}
	}
	c.verdictIf(good, P, "rotate", "flow=GetExportOptions.TLS→listener certificate cell", p.pos(eos.Pos()), "rotation handle aliases the listener's certificate cell", why)
}

// cloneSharesCert: Clone stores into the clone's currentCert field a pointer-typed cell copied from the receiver.
func cloneSharesCert(p *Prog, clone *ssa.Function) bool {
	cc := p.field("TLSConfig", "currentCert")
	if cc == nil {
		return false
	}
	if _, isPtr := cc.Type().Underlying().(interface{ Elem() interface{} }); isPtr {
		_ = isPtr
	}
	isPointerField := strings.HasPrefix(cc.Type().String(), "*")
	if !isPointerField {
		return false
	}
	for _, b := range clone.Blocks {
		for _, in := range b.Instrs {
			if st, ok := in.(*ssa.Store); ok {
				if _, f, ok := fieldAddrOf(st.Addr); ok && f == cc {
					if _, lf, ok := fieldLoad(st.Val); ok && lf == cc {
						return true
					}
				}
			}
		}
	}
	return false
}

// floorConst: the bound is a phi / local whose alternatives include a constant
// that replaces small wire values (if x < K { x = K }): returns K or -1.
func floorConst(v ssa.Value) int64 {
	floor := int64(-1)
	seen := map[ssa.Value]bool{}
	var walk func(v ssa.Value)
	walk = func(v ssa.Value) {
		if v == nil || seen[v] {
			return
		}
		seen[v] = true
		switch x := v.(type) {
		case *ssa.Phi:
			for _, e := range x.Edges {
				if k, ok := constInt(e); ok {
					floor = k
				} else {
					walk(e)
				}
			}
		case *ssa.Convert:
			walk(x.X)
		case *ssa.BinOp:
			walk(x.X)
		case *ssa.UnOp:
			if al, ok := x.X.(*ssa.Alloc); ok {
				forEachUseOfCell(al, func(in ssa.Instruction, how string, cc ssa.CallInstruction, i int) {
					if how == "store" {
						st := in.(*ssa.Store)
						if k, ok := constInt(st.Val); ok {
							floor = k
						} else {
							walk(st.Val)
						}
					}
				})
			}
		}
	}
	walk(v)
	return floor
}
