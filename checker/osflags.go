package main

// osflags.go: the numeric values of the os.O_* flags differ between operating systems (O_CREATE is 0x40 on
// linux and windows, 0x200 on darwin), and the repository's calls carry them folded into one constant.  The
// values are read from the `os` package of the program being analysed, so that the rules interpret a folded
// flag word the way the analysed configuration does.

import (
	"go/constant"

	"golang.org/x/tools/go/ssa"
)

var (
	oCREATE int64 = 0x40
	oEXCL   int64 = 0x80
	oTRUNC  int64 = 0x200
	oAPPEND int64 = 0x400
	oSYNC   int64 = 0x101000
	// syscall.EFBIG is 27 on unix and an invented application error code on windows
	eFBIG int64 = 27
)

func setOSFlags(p *Prog) {
	if p == nil || p.SSA == nil {
		return
	}
	var ospkg *ssa.Package
	for _, pk := range p.SSA.AllPackages() {
		if pk.Pkg != nil && pk.Pkg.Path() == "os" {
			ospkg = pk
		}
	}
	if ospkg == nil {
		return
	}
	get := func(name string, dst *int64) {
		if k := ospkg.Const(name); k != nil && k.Value != nil && k.Value.Value != nil {
			if v, ok := constant.Int64Val(constant.ToInt(k.Value.Value)); ok && v != 0 {
				*dst = v
			}
		}
	}
	get("O_CREATE", &oCREATE)
	get("O_EXCL", &oEXCL)
	get("O_TRUNC", &oTRUNC)
	get("O_APPEND", &oAPPEND)
	get("O_SYNC", &oSYNC)
	for _, pk := range p.SSA.AllPackages() {
		if pk.Pkg != nil && pk.Pkg.Path() == "syscall" {
			if k := pk.Const("EFBIG"); k != nil && k.Value != nil && k.Value.Value != nil {
				if v, ok := constant.Int64Val(constant.ToInt(k.Value.Value)); ok && v != 0 {
					eFBIG = v
				}
			}
		}
	}
}
