package main

// rules_round5c.go: C11/created-owned (seed C11-d and the defect it pointed at).

import (
	"fmt"

	"golang.org/x/tools/go/ssa"
)

// runC11CreatedOwned: once a request has created an object in the backend, every path to the end of the request
// either gives it an owner (backend Chown/Lchown) or removes it again (rollback), whatever status is replied.
// An error reply after a successful create that leaves the object behind leaves it owned by the server's own
// identity; the client's retry then finds an existing object and never chowns it.
func runC11CreatedOwned(c *Ctx, ent *entries, reach map[*ssa.Function]bool) {
	const P = "C11"
	p := c.P
	c.rule(P, "created-owned", "from the success edge of a creating backend call, every path to the end of the request passes a backend Chown/Lchown of the object or removes it again", 2)
	isEntry := map[*ssa.Function]bool{}
	for _, num := range []uint32{8, 9, 10} {
		if h := ent.Handlers[num]; h != nil {
			isEntry[h] = true
		}
	}
	scope := map[*ssa.Function]bool{}
	var roots []*ssa.Function
	for h := range isEntry {
		roots = append(roots, h)
	}
	for f := range p.reachableFrom(roots) {
		scope[f] = true
	}
	closes := func(in ssa.Instruction) bool {
		call, ok := in.(ssa.CallInstruction)
		if !ok {
			return false
		}
		if _, isDefer := in.(*ssa.Defer); isDefer {
			return false
		}
		bc := asBackendCall(call)
		return bc != nil && !bc.OnFile && (bc.Method == "Chown" || bc.Method == "Lchown" || bc.Method == "Remove" || bc.Method == "RemoveAll")
	}
	// unclosed returns reachable from the start blocks
	unclosed := func(fn *ssa.Function, starts []*ssa.BasicBlock, fromInstr ssa.Instruction) []*ssa.Return {
		var out []*ssa.Return
		seen := map[*ssa.BasicBlock]bool{}
		type item struct {
			b   *ssa.BasicBlock
			idx int
		}
		var stack []item
		if fromInstr != nil {
			stack = append(stack, item{fromInstr.Block(), instrIndex(fromInstr) + 1})
		}
		for _, s := range starts {
			stack = append(stack, item{s, 0})
		}
		for len(stack) > 0 {
			it := stack[len(stack)-1]
			stack = stack[:len(stack)-1]
			if it.idx == 0 {
				if seen[it.b] {
					continue
				}
				seen[it.b] = true
			}
			closed := false
			for i := it.idx; i < len(it.b.Instrs); i++ {
				in := it.b.Instrs[i]
				if closes(in) {
					closed = true
					break
				}
				if r, ok := in.(*ssa.Return); ok {
					out = append(out, r)
				}
			}
			if closed {
				continue
			}
			for _, s := range it.b.Succs {
				stack = append(stack, item{s, 0})
			}
		}
		return out
	}
	n := 0
	for _, fn := range p.SrcFuncs {
		if !scope[fn] && !scope[rootFn(fn)] {
			continue
		}
		for _, call := range calls(fn) {
			bc := asBackendCall(call)
			if bc == nil || bc.OnFile {
				continue
			}
			creating := false
			switch bc.Method {
			case "Mkdir", "MkdirAll", "Symlink", "Create":
				creating = true
			case "OpenFile":
				if fl, ok := openFlagConst(call); ok && fl&oCREATE != 0 {
					creating = true
				}
			}
			if !creating {
				continue
			}
			succ, _, ok := errSuccessEdge(call)
			if !ok || succ == nil {
				continue
			}
			n++
			key := fmt.Sprintf("creator=%s:%s#%d", fnKey(fn), shortCallee(call), ordinal(fn, call))
			// walk up the callers while returns stay unclosed
			type frame struct {
				fn     *ssa.Function
				starts []*ssa.BasicBlock
				from   ssa.Instruction
				okCall ssa.CallInstruction // the callee only leaves the object open on returns with a nil error
			}
			work := []frame{{fn, []*ssa.BasicBlock{succ}, nil, nil}}
			bad := ""
			for depth := 0; depth < 4 && len(work) > 0 && bad == ""; depth++ {
				var next []frame
				for _, fr := range work {
					rets := unclosed(fr.fn, fr.starts, fr.from)
					if len(rets) == 0 {
						continue
					}
					if isEntry[fr.fn] {
						bad = fmt.Sprintf("%s can finish at %s after the object was created without having chowned or removed it", fnKey(fr.fn), p.instrPos(rets[0]))
						break
					}
					okOnly := true
					for _, r := range rets {
						if len(r.Results) == 0 {
							okOnly = false
							continue
						}
						last := retVal(r, len(r.Results)-1)
						if isNilConst(last) {
							continue
						}
						// `return callee(...)`: the error is the callee's, which is nil whenever the object is open
						if ex, isEx := last.(*ssa.Extract); isEx && fr.okCall != nil && ex.Tuple == fr.okCall.Value() {
							continue
						}
						okOnly = false
					}
					for _, cs := range p.callers[fr.fn] {
						if !scope[cs.Caller] && !scope[rootFn(cs.Caller)] {
							continue
						}
						if okOnly {
							if s2, _, ok2 := errSuccessEdge(cs.Instr); ok2 && s2 != nil {
								next = append(next, frame{cs.Caller, []*ssa.BasicBlock{s2}, nil, nil})
								continue
							}
							next = append(next, frame{cs.Caller, nil, cs.Instr, cs.Instr})
							continue
						}
						next = append(next, frame{cs.Caller, nil, cs.Instr, nil})
					}
				}
				work = next
			}
			if bad == "" {
				c.ok(P, "created-owned", key, p.instrPos(call), "every path after the creation chowns the object or rolls the creation back")
			} else {
				c.bad(P, "created-owned", key, p.instrPos(call), "after "+shortCallee(call)+" succeeded, "+bad+": the new object stays in the backend owned by the server's identity instead of the caller's effective identity (and a retried CREATE finds it existing and does not chown it either)")
			}
		}
	}
	if n == 0 {
		c.undecided(P, "created-owned", "creators", "", "no creating backend call found under CREATE/MKDIR/SYMLINK")
	}
}
