package main

// rules_round5c.go: C11/created-owned (seed C11-d and the defect it pointed at).

import (
	"fmt"
	"go/token"

	"golang.org/x/tools/go/ssa"
)

// runC11CreatedOwned: once a request has created an object in the backend, every path to the end of the request
// either gives it an owner (backend Chown/Lchown) or removes it again (rollback), whatever status is replied.
// An error reply after a successful create that leaves the object behind leaves it owned by the server's own
// identity; the client's retry then finds an existing object and never chowns it.
func runC11CreatedOwned(c *Ctx, ent *entries, reach map[*ssa.Function]bool) {
	const P = "C11"
	p := c.P
	c.rule(P, "created-owned", "from the success edge of a creating backend call, every path to the end of the request passes a backend Chown/Lchown of the object or removes it again", 2)
	isEntry := map[*ssa.Function]bool{}
	for _, num := range []uint32{8, 9, 10} {
		if h := ent.Handlers[num]; h != nil {
			isEntry[h] = true
		}
	}
	scope := map[*ssa.Function]bool{}
	var roots []*ssa.Function
	for h := range isEntry {
		roots = append(roots, h)
	}
	for f := range p.reachableFrom(roots) {
		scope[f] = true
	}
	closes := func(in ssa.Instruction) bool {
		call, ok := in.(ssa.CallInstruction)
		if !ok {
			return false
		}
		if _, isDefer := in.(*ssa.Defer); isDefer {
			return false
		}
		bc := asBackendCall(call)
		return bc != nil && !bc.OnFile && (bc.Method == "Chown" || bc.Method == "Lchown" || bc.Method == "Remove" || bc.Method == "RemoveAll")
	}
	// unclosed returns reachable from the start blocks
	// arrivals[r]: the predecessor blocks through which an unclosed path entered r's block (nil entry: the walk
	// started inside the block)
	arrivals := map[*ssa.Return][]*ssa.BasicBlock{}
	unclosed := func(fn *ssa.Function, starts []*ssa.BasicBlock, fromInstr ssa.Instruction) []*ssa.Return {
		var out []*ssa.Return
		seenRet := map[*ssa.Return]bool{}
		seen := map[edge]bool{}
		type item struct {
			b    *ssa.BasicBlock
			idx  int
			pred *ssa.BasicBlock
		}
		var stack []item
		if fromInstr != nil {
			stack = append(stack, item{fromInstr.Block(), instrIndex(fromInstr) + 1, nil})
		}
		for _, s := range starts {
			var pr *ssa.BasicBlock
			if len(s.Preds) == 1 {
				pr = s.Preds[0]
			}
			stack = append(stack, item{s, 0, pr})
		}
		for len(stack) > 0 {
			it := stack[len(stack)-1]
			stack = stack[:len(stack)-1]
			if it.idx == 0 {
				if seen[edge{it.pred, it.b}] {
					continue
				}
				seen[edge{it.pred, it.b}] = true
			}
			closed := false
			for i := it.idx; i < len(it.b.Instrs); i++ {
				in := it.b.Instrs[i]
				if closes(in) {
					closed = true
					break
				}
				if r, ok := in.(*ssa.Return); ok {
					if !seenRet[r] {
						seenRet[r] = true
						out = append(out, r)
						arrivals[r] = nil
					}
					arrivals[r] = append(arrivals[r], it.pred)
				}
			}
			if closed {
				continue
			}
			for _, s := range it.b.Succs {
				stack = append(stack, item{s, 0, it.b})
			}
		}
		return out
	}
	// errIsNilOn: the error r returns is nil (or the forwarded error of okCall) on every unclosed arrival
	errIsNilOn := func(r *ssa.Return, okCall ssa.CallInstruction) bool {
		okVal := func(v ssa.Value) bool {
			if isNilConst(v) {
				return true
			}
			if ex, isEx := v.(*ssa.Extract); isEx && okCall != nil && ex.Tuple == okCall.Value() {
				return true
			}
			return false
		}
		last := retVal(r, len(r.Results)-1)
		if okVal(last) {
			return true
		}
		phi, isPhi := last.(*ssa.Phi)
		if !isPhi || phi.Block() != r.Block() {
			return false
		}
		for _, pr := range arrivals[r] {
			if pr == nil {
				return false
			}
			found := false
			for i, bp := range phi.Block().Preds {
				if bp == pr && i < len(phi.Edges) {
					found = true
					if !okVal(phi.Edges[i]) {
						return false
					}
				}
			}
			if !found {
				return false
			}
		}
		return len(arrivals[r]) > 0
	}
	n := 0
	for _, fn := range p.SrcFuncs {
		if !scope[fn] && !scope[rootFn(fn)] {
			continue
		}
		for _, call := range calls(fn) {
			bc := asBackendCall(call)
			if bc == nil || bc.OnFile {
				continue
			}
			creating := false
			switch bc.Method {
			case "Mkdir", "MkdirAll", "Symlink", "Create":
				creating = true
			case "OpenFile":
				if fl, ok := openFlagConst(call); ok && fl&oCREATE != 0 {
					creating = true
				}
			}
			if !creating {
				continue
			}
			succ, _, ok := errSuccessEdge(call)
			if !ok || succ == nil {
				continue
			}
			n++
			key := fmt.Sprintf("creator=%s:%s#%d", fnKey(fn), shortCallee(call), ordinal(fn, call))
			// walk up the callers while returns stay unclosed
			type frame struct {
				fn     *ssa.Function
				starts []*ssa.BasicBlock
				from   ssa.Instruction
				okCall ssa.CallInstruction // the callee only leaves the object open on returns with a nil error
			}
			work := []frame{{fn, []*ssa.BasicBlock{succ}, nil, nil}}
			bad := ""
			for depth := 0; depth < 4 && len(work) > 0 && bad == ""; depth++ {
				var next []frame
				for _, fr := range work {
					rets := unclosed(fr.fn, fr.starts, fr.from)
					// a deferred literal that chowns/removes whenever the named error result is non-nil
					// closes every return that may carry an error
					if covers := deferredCloseOnError(fr.fn, closes); covers != nil {
						kept := rets[:0:0]
						for _, r := range rets {
							if !covers(r) {
								kept = append(kept, r)
							}
						}
						rets = kept
					}
					if len(rets) == 0 {
						continue
					}
					if isEntry[fr.fn] {
						bad = fmt.Sprintf("%s can finish at %s after the object was created without having chowned or removed it", fnKey(fr.fn), p.instrPos(rets[0]))
						break
					}
					okOnly := true
					for _, r := range rets {
						if len(r.Results) == 0 {
							okOnly = false
							continue
						}
						if errIsNilOn(r, fr.okCall) {
							continue
						}
						okOnly = false
					}
					for _, cs := range p.callers[fr.fn] {
						if !scope[cs.Caller] && !scope[rootFn(cs.Caller)] {
							continue
						}
						if okOnly {
							if s2, _, ok2 := errSuccessEdge(cs.Instr); ok2 && s2 != nil {
								next = append(next, frame{cs.Caller, []*ssa.BasicBlock{s2}, nil, nil})
								continue
							}
							next = append(next, frame{cs.Caller, nil, cs.Instr, cs.Instr})
							continue
						}
						next = append(next, frame{cs.Caller, nil, cs.Instr, nil})
					}
				}
				work = next
			}
			if bad == "" {
				c.ok(P, "created-owned", key, p.instrPos(call), "every path after the creation chowns the object or rolls the creation back")
			} else {
				c.bad(P, "created-owned", key, p.instrPos(call), "after "+shortCallee(call)+" succeeded, "+bad+": the new object stays in the backend owned by the server's identity instead of the caller's effective identity (and a retried CREATE finds it existing and does not chown it either)")
			}
		}
	}
	if n == 0 {
		c.undecided(P, "created-owned", "creators", "", "no creating backend call found under CREATE/MKDIR/SYMLINK")
	}
}

// deferredCloseOnError: fn defers a function literal in which a closing call (chown/remove) runs on the true
// edge of `err != nil`, err being fn's named error result.  The returned predicate tells whether a return of fn
// is covered: the defer was registered on every path to it and the error it returns is not the constant nil
// (a return with a nil error is not closed by such a literal).
func deferredCloseOnError(fn *ssa.Function, closes func(ssa.Instruction) bool) func(*ssa.Return) bool {
	type reg struct{ d *ssa.Defer }
	var regs []reg
	for _, b := range fn.Blocks {
		for _, in := range b.Instrs {
			d, ok := in.(*ssa.Defer)
			if !ok {
				continue
			}
			mc, ok := d.Call.Value.(*ssa.MakeClosure)
			if !ok {
				continue
			}
			af, ok := mc.Fn.(*ssa.Function)
			if !ok {
				continue
			}
			good := false
			for _, ab := range af.Blocks {
				for _, ain := range ab.Instrs {
					if !closes(ain) {
						continue
					}
					for _, ifi := range controlEdges(ab) {
						cond, neg := stripNot(ifi.Cond)
						bo, isB := cond.(*ssa.BinOp)
						if !isB || (bo.Op != token.NEQ && bo.Op != token.EQL) {
							continue
						}
						var x ssa.Value
						if isNilConst(bo.Y) {
							x = bo.X
						} else if isNilConst(bo.X) {
							x = bo.Y
						} else {
							continue
						}
						bind, deref := freeBinding(af, x)
						al, isAl := bind.(*ssa.Alloc)
						if !deref || !isAl || !isNamedErrorResult(fn, al) {
							continue
						}
						// which successor of the test leads to ab?
						onTrue := ifi.Block().Succs[0] == ab || ifi.Block().Succs[0].Dominates(ab)
						wantTrue := (bo.Op == token.NEQ) != neg
						if onTrue == wantTrue {
							good = true
						}
					}
				}
			}
			if good {
				regs = append(regs, reg{d})
			}
		}
	}
	if len(regs) == 0 {
		return nil
	}
	return func(r *ssa.Return) bool {
		if len(r.Results) == 0 {
			return false
		}
		if isNilConst(retVal(r, len(r.Results)-1)) {
			return false
		}
		for _, rg := range regs {
			db, rb := rg.d.Block(), r.Block()
			if db == rb || db.Dominates(rb) {
				return true
			}
		}
		return false
	}
}

// isNamedErrorResult: al is the cell the last result of fn's returns is loaded from.
func isNamedErrorResult(fn *ssa.Function, al *ssa.Alloc) bool {
	for _, b := range fn.Blocks {
		for _, in := range b.Instrs {
			if r, ok := in.(*ssa.Return); ok && len(r.Results) > 0 {
				if u, ok := r.Results[len(r.Results)-1].(*ssa.UnOp); ok && u.Op == token.MUL && u.X == ssa.Value(al) {
					return true
				}
			}
		}
	}
	return false
}
