package main

import (
	"fmt"
	"go/token"
	"go/types"
	"strings"

	"golang.org/x/tools/go/ssa"
)

func init() {
	register("C18",
		"Decided (structure of the token bucket, not its arithmetic): (lock) tokens/lastRefill and the limiter maps are touched only under their mutex; (order) in Allow/AllowN on every path: refill by elapsed×rate since lastRefill, cap to maxTokens, store lastRefill = the same `now`, then test tokens >= n and consume only on the true edge, returning true exactly there; (refill-pair) every function that credits tokens from elapsed time also advances lastRefill before returning (directly or at all its call sites), so time is never credited twice; Tokens() does not write bucket state; (init) a new bucket starts with tokens = maxTokens = burst and lastRefill = now; (cleanup-guard) limiter-map deletions in the cleanup passes are control-dependent on Tokens() >= burst for the deleted entry, so a deleted-and-recreated limiter is indistinguishable from the old one; (op-table) every OperationType constant has a rate and a burst, and each is consulted by its procedure before the backend work. Not decided: the inequality burst + rate×elapsed for arbitrary timings and fractional rates (floating point and time are outside this technique).",
		commonAssume, runC18)
	register("C19",
		"Decided: the property's mechanism verbatim, as an ordering rule on RateLimiter.AllowRequest (the only function combining limiters, called only from the connection loop): no path consumes a token from the global bucket and afterwards takes the refusing edge of a narrower (per-IP or per-connection) limiter — i.e. every narrower Allow call precedes the global one — for every configuration, because the rule is per call. Not decided: the resulting admission counts.",
		commonAssume, runC19)
}

func fieldStoreIn(in ssa.Instruction, owner, field string) (*ssa.Store, bool) {
	st, ok := in.(*ssa.Store)
	if !ok {
		return nil, false
	}
	base, f, ok := fieldAddrOf(st.Addr)
	if !ok || f == nil || f.Name() != field || recvTypeName(base.Type()) != owner {
		return nil, false
	}
	return st, true
}

func runC18(c *Ctx) {
	p := c.P
	const P = "C18"
	c.rule(P, "lock", "TokenBucket.tokens/lastRefill and limiter maps only under their mu", 15)
	c.rule(P, "order", "Allow/AllowN: refill → cap → lastRefill=now → test tokens>=n → consume on the true edge only", 8)
	c.rule(P, "refill-pair", "crediting tokens from elapsed time is always paired with advancing lastRefill; Tokens() writes nothing", 2)
	c.rule(P, "init", "NewTokenBucket: tokens = maxTokens = burst, lastRefill = now", 1)
	c.rule(P, "cleanup-guard", "limiter deletions in cleanup are guarded by Tokens() >= burst of the deleted entry", 2)
	c.rule(P, "op-table", "every OperationType constant has a rate and a burst and is consulted by its procedure(s)", 8)

	lockRule(c, P, "lock", specBucket)
	lockRule(c, P, "lock", specPerIP)
	lockRule(c, P, "lock", specPerOp)
	fl := newFlow(p)

	for _, name := range []string{"(*TokenBucket).Allow", "(*TokenBucket).AllowN"} {
		fn := p.Fn(name)
		if fn == nil {
			c.undecided(P, "order", "fn="+name, "", "not found")
			continue
		}
		var refill, capSt, consume, last *ssa.Store
		var nowVal ssa.Value
		var mergedAdd *ssa.BinOp
		var mergedPhi *ssa.Phi
		mergedMaxIdx := -1
		key := "fn=" + name
		// delegation: Allow() { return tb.AllowN(1) } is decided by AllowN's own obligations
		if name == "(*TokenBucket).Allow" {
			if an := p.Fn("(*TokenBucket).AllowN"); an != nil {
				delegates := false
				nCalls := 0
				for _, call := range calls(fn) {
					nCalls++
					if staticCallee(call) == an && len(call.Common().Args) == 2 && len(fn.Params) > 0 && call.Common().Args[0] == ssa.Value(fn.Params[0]) {
						if k, isC := constInt(call.Common().Args[1]); isC && k == 1 {
							delegates = true
						}
					}
				}
				if delegates && nCalls == 1 {
					for _, part := range []string{" refill", " cap", " sequence", " consume"} {
						c.ok(P, "order", key+part, p.pos(fn.Pos()), "Allow is AllowN(1)")
					}
					continue
				}
			}
		}
		for _, b := range fn.Blocks {
			for _, in := range b.Instrs {
				if st, ok := fieldStoreIn(in, "TokenBucket", "lastRefill"); ok {
					last = st
					nowVal = st.Val
				}
				st, ok := fieldStoreIn(in, "TokenBucket", "tokens")
				if !ok {
					continue
				}
				if bo, ok := st.Val.(*ssa.BinOp); ok && bo.Op == token.ADD {
					refill = st
				} else if phi, ok := st.Val.(*ssa.Phi); ok && len(phi.Edges) == 2 {
					// refill and cap computed in a local and stored once: tokens = (t > max ? max : t), t = tokens + …
					for i, e := range phi.Edges {
						add, isAdd := e.(*ssa.BinOp)
						_, mf, isMax := fieldLoad(phi.Edges[1-i])
						if isAdd && add.Op == token.ADD && isMax && mf != nil && mf.Name() == "maxTokens" {
							refill, capSt = st, st
							mergedAdd, mergedPhi, mergedMaxIdx = add, phi, 1-i
						}
					}
				} else if bo, ok := st.Val.(*ssa.BinOp); ok && bo.Op == token.SUB {
					consume = st
				} else if _, f, ok := fieldLoad(st.Val); ok && f != nil && f.Name() == "maxTokens" {
					capSt = st
				}
			}
		}
		if refill == nil || capSt == nil || consume == nil || last == nil {
			c.bad(P, "order", key+" steps", p.pos(fn.Pos()), fmt.Sprintf("missing step (refill=%v cap=%v lastRefill=%v consume=%v)", refill != nil, capSt != nil, last != nil, consume != nil))
			continue
		}
		// refill value: tokens + elapsed*rate with elapsed = now.Sub(lastRefill).Seconds()
		ros := fl.Origins(refill.Val)
		refOK := hasOrigin(ros, func(o Origin) bool { return o.Kind == "field" && o.Fld != nil && o.Fld.Name() == "refillRate" }) &&
			hasOrigin(ros, func(o Origin) bool { return o.Kind == "call" && strings.Contains(o.Desc, "Seconds") }) &&
			hasOrigin(ros, func(o Origin) bool { return o.Kind == "field" && o.Fld != nil && o.Fld.Name() == "tokens" })
		// elapsed computed from the same now that is stored, against lastRefill
		sameNow := false
		for _, call := range calls(fn) {
			if callsMethod(call, "(time.Time).Sub") {
				if call.Common().Args[0] == nowVal || sameValue(call.Common().Args[0], nowVal) {
					if _, f, ok := fieldLoad(call.Common().Args[1]); ok && f != nil && f.Name() == "lastRefill" {
						sameNow = true
					}
				}
			}
		}
		c.verdictIf(refOK && sameNow, P, "order", key+" refill", p.instrPos(refill), "tokens += now.Sub(lastRefill).Seconds()×refillRate, lastRefill = that now", "refill is not tokens + elapsed×rate with elapsed measured from lastRefill to the `now` that is stored back")
		// cap: on the true edge of tokens > maxTokens
		capOK := false
		for _, f := range p.facts(capSt.Block()) {
			op, l, r, ok := normCmp(f)
			if ok && op == ">" {
				_, lf, ok1 := fieldLoad(l)
				_, rf, ok2 := fieldLoad(r)
				if ok1 && ok2 && lf.Name() == "tokens" && rf.Name() == "maxTokens" {
					capOK = true
				}
			}
		}
		if mergedPhi != nil && mergedMaxIdx < len(mergedPhi.Block().Preds) {
			// merged form: the maxTokens edge of the phi is taken exactly when the refilled value exceeds maxTokens
			pred := mergedPhi.Block().Preds[mergedMaxIdx]
			for _, f := range append(append([]condFact{}, p.facts(pred)...), edgeFacts(pred, mergedPhi.Block())...) {
				op, l, r, ok := normCmp(f)
				if ok && op == ">" && l == ssa.Value(mergedAdd) {
					if _, rf, ok2 := fieldLoad(r); ok2 && rf.Name() == "maxTokens" {
						capOK = true
					}
				}
			}
		}
		c.verdictIf(capOK, P, "order", key+" cap", p.instrPos(capSt), "capped to maxTokens when above", "the bucket is not capped on `tokens > maxTokens`")
		// order by dominance: refill ≺ cap-test ≺ lastRefill/consume-test
		before := func(a, b ssa.Instruction) bool {
			return (a.Block() == b.Block() && instrIndex(a) < instrIndex(b)) || (a.Block() != b.Block() && a.Block().Dominates(b.Block()))
		}
		capTestBlock := capSt.Block()
		if len(capTestBlock.Preds) > 0 {
			capTestBlock = capTestBlock.Preds[0]
		}
		ordOK := before(refill, capSt) && before(refill, consume) && capTestBlock.Dominates(consume.Block()) && before(last, consume)
		if mergedPhi != nil {
			ordOK = before(refill, consume) && before(last, consume)
		}
		c.verdictIf(ordOK, P, "order", key+" sequence", p.pos(fn.Pos()), "refill, cap, stamp, then consume", "the steps do not occur in the order refill → cap → lastRefill → consume on every path")
		// consume on true edge of tokens >= n; return true only there
		consOK := false
		for _, f := range p.facts(consume.Block()) {
			op, l, _, ok := normCmp(f)
			if ok && op == ">=" {
				if _, lf, ok1 := fieldLoad(l); ok1 && lf.Name() == "tokens" {
					consOK = true
				}
			}
		}
		retOK := true
		for _, b := range fn.Blocks {
			if b == fn.Recover {
				continue
			}
			for _, in := range b.Instrs {
				if r, ok := in.(*ssa.Return); ok {
					k, isC := retVal(r, 0).(*ssa.Const)
					if !isC || k.Value == nil {
						retOK = false
						continue
					}
					isTrue := k.Value.String() == "true"
					inConsume := b == consume.Block() || consume.Block().Dominates(b)
					if isTrue != inConsume {
						retOK = false
					}
				}
			}
		}
		c.verdictIf(consOK && retOK, P, "order", key+" consume", p.instrPos(consume), "consumed and admitted only when tokens >= n", "a request is admitted without the `tokens >= n` test having succeeded, or tokens are consumed when it failed")
	}

	// refill-pair: functions crediting tokens from time must store lastRefill
	tb := "(*TokenBucket)."
	for _, fn := range p.SrcFuncs {
		credits := false
		stamps := false
		var at ssa.Instruction
		for _, b := range fn.Blocks {
			for _, in := range b.Instrs {
				if st, ok := fieldStoreIn(in, "TokenBucket", "tokens"); ok {
					if hasOrigin(fl.Origins(st.Val), func(o Origin) bool { return o.Kind == "call" && strings.Contains(o.Desc, "Seconds") }) {
						credits = true
						at = in
					}
				}
				if _, ok := fieldStoreIn(in, "TokenBucket", "lastRefill"); ok {
					stamps = true
				}
			}
		}
		if !credits {
			continue
		}
		key := "fn=" + fnKey(fn)
		if stamps {
			c.ok(P, "refill-pair", key, p.instrPos(at), "credits elapsed time and advances lastRefill")
			continue
		}
		// helper: every caller must stamp after the call
		good := len(p.callers[fn]) > 0
		why := "credits tokens for the time since lastRefill without advancing lastRefill: the same interval is credited again by the next call"
		for _, cs := range p.callers[fn] {
			res := follow(followSpec{Fn: cs.Caller, From: cs.Instr, Closes: func(in ssa.Instruction) bool {
				_, ok := fieldStoreIn(in, "TokenBucket", "lastRefill")
				return ok
			}})
			if !res.OK {
				good = false
				why = fnKey(cs.Caller) + " calls " + fnKey(fn) + ", which credits tokens for the elapsed time, but does not advance lastRefill afterwards: the interval is credited again on the next call (limit exceeded)"
			}
		}
		c.verdictIf(good, P, "refill-pair", key, p.instrPos(at), "every caller advances lastRefill", why)
	}
	tk := p.Fn(tb[0:len(tb)-1] + ".Tokens")
	if tk == nil {
		tk = p.Fn("(*TokenBucket).Tokens")
	}
	if tk != nil {
		pure := true
		reach := p.reachableFrom([]*ssa.Function{tk})
		for fn := range reach {
			for _, b := range fn.Blocks {
				for _, in := range b.Instrs {
					if _, ok := fieldStoreIn(in, "TokenBucket", "tokens"); ok {
						pure = false
					}
					if _, ok := fieldStoreIn(in, "TokenBucket", "lastRefill"); ok {
						pure = false
					}
				}
			}
		}
		c.verdictIf(pure, P, "refill-pair", "fn=(*TokenBucket).Tokens read-only", p.pos(tk.Pos()), "Tokens() does not modify the bucket", "Tokens() — called by every cleanup pass and stats read — writes bucket state: observing a bucket changes later admit/deny decisions")
	}

	// init
	nb := p.Fn("NewTokenBucket")
	if nb == nil {
		c.undecided(P, "init", "fn=NewTokenBucket", "", "not found")
	} else {
		okInit := map[string]bool{}
		for _, b := range nb.Blocks {
			for _, in := range b.Instrs {
				for _, fname := range []string{"tokens", "maxTokens", "lastRefill", "refillRate"} {
					if st, ok := fieldStoreIn(in, "TokenBucket", fname); ok {
						os := fl.Origins(st.Val)
						switch fname {
						case "tokens", "maxTokens":
							okInit[fname] = allOrigins(os, func(o Origin) bool { return o.Kind == "param" && strings.HasSuffix(o.Desc, ".burst") })
						case "lastRefill":
							okInit[fname] = allOrigins(os, func(o Origin) bool { return o.Kind == "call" && strings.Contains(o.Desc, "time.Now") })
						case "refillRate":
							okInit[fname] = allOrigins(os, func(o Origin) bool { return o.Kind == "param" && strings.HasSuffix(o.Desc, ".rate") })
						}
					}
				}
			}
		}
		c.verdictIf(okInit["tokens"] && okInit["maxTokens"] && okInit["lastRefill"] && okInit["refillRate"], P, "init", "fn=NewTokenBucket", p.pos(nb.Pos()), "starts exactly full at time now", fmt.Sprintf("a new bucket does not start with tokens=maxTokens=burst, lastRefill=now (%v)", okInit))
	}

	// cleanup-guard
	for _, name := range []string{"(*PerIPLimiter).cleanup", "(*PerOperationLimiter).cleanup"} {
		fn := p.Fn(name)
		if fn == nil {
			c.undecided(P, "cleanup-guard", "fn="+name, "", "not found")
			continue
		}
		good, why := checkCleanupGuard(p, fn)
		c.verdictIf(good, P, "cleanup-guard", "fn="+name, p.pos(fn.Pos()), "only full buckets are dropped", why)
	}

	// op-table
	ot := p.namedType("OperationType")
	if ot == nil {
		c.undecided(P, "op-table", "type=OperationType", "", "not found")
		return
	}
	consts := p.constsOfType("OperationType")
	npl := p.Fn("NewPerOperationLimiter")
	keys := map[string]map[string]bool{"float64": {}, "int": {}}
	if npl != nil {
		for _, b := range npl.Blocks {
			for _, in := range b.Instrs {
				if mu, ok := in.(*ssa.MapUpdate); ok {
					if s, ok := constStr(mu.Key); ok {
						vt := mu.Value.Type().String()
						if keys[vt] == nil {
							keys[vt] = map[string]bool{}
						}
						keys[vt][s] = true
						// one table of records instead of two parallel maps: the record carries both numbers
						if st, ok := mu.Value.Type().Underlying().(*types.Struct); ok {
							for i := 0; i < st.NumFields(); i++ {
								if b, ok := st.Field(i).Type().Underlying().(*types.Basic); ok {
									if b.Kind() == types.Float64 {
										keys["float64"][s] = true
									}
									if b.Kind() == types.Int {
										keys["int"][s] = true
									}
								}
							}
						}
					}
				}
			}
		}
	}
	users := map[string][]string{}
	for _, fn := range p.SrcFuncs {
		for _, call := range calls(fn) {
			if callsMethod(call, "(*"+absnfsPath+".RateLimiter).AllowOperation") {
				if s, ok := constStr(call.Common().Args[2]); ok {
					users[s] = append(users[s], fnKey(fn))
				}
			}
		}
	}
	wantUsers := map[string][]string{"read_large": {"handleRead"}, "write_large": {"handleWrite"}, "readdir": {"handleReaddir", "handleReaddirplus"}, "mount": {"handleMountCall"}}
	for name, val := range consts {
		c.verdictIf(keys["float64"][val] && keys["int"][val], P, "op-table", "const="+name+" rate+burst", "", "has a rate and a burst", "OperationType "+name+" has no rate or no burst entry: its buckets are created with rate 0 / burst 0")
		var missing []string
		for _, w := range wantUsers[val] {
			found := false
			for _, u := range users[val] {
				if strings.HasSuffix(u, "."+w) {
					found = true
				}
			}
			if !found {
				missing = append(missing, w)
			}
		}
		c.verdictIf(len(missing) == 0 && len(wantUsers[val]) > 0, P, "op-table", "const="+name+" consulted", "", "consulted by "+strings.Join(wantUsers[val], ","), "limit "+name+" is not consulted by "+strings.Join(missing, ","))
	}
}

func checkCleanupGuard(p *Prog, fn *ssa.Function) (bool, string) {
	// Every delete(limiters, k): either guarded directly by a Tokens()>=burst fact, or k ranges over a
	// slice that is only appended under such a fact, or guarded by a boolean phi that is false on every
	// edge coming from a Tokens() < burst test.
	isFullFact := func(f condFact) bool {
		op, l, _, ok := normCmp(f)
		if !ok || op != ">=" {
			return false
		}
		call, ok := l.(*ssa.Call)
		return ok && callsMethod(call, "(*"+absnfsPath+".TokenBucket).Tokens")
	}
	isNotFullEdge := func(from, to *ssa.BasicBlock) bool {
		for _, f := range edgeFacts(from, to) {
			op, _, r, ok := normCmp(f)
			if ok && op == ">" { // burst > Tokens()
				if call, ok := r.(*ssa.Call); ok && callsMethod(call, "(*"+absnfsPath+".TokenBucket).Tokens") {
					return true
				}
			}
		}
		return false
	}
	nDel := 0
	for _, b := range fn.Blocks {
		for _, in := range b.Instrs {
			key, ok := isDeleteOnAny(in, "limiters")
			if !ok {
				continue
			}
			nDel++
			guarded := false
			for _, f := range p.facts(b) {
				if isFullFact(f) {
					guarded = true
				}
				// boolean flag phi
				if phi, ok := f.V.(*ssa.Phi); ok && f.Val {
					okPhi := true
					for i, e := range phi.Edges {
						k, isC := e.(*ssa.Const)
						if !isC || k.Value == nil {
							okPhi = false
							continue
						}
						pred := phi.Block().Preds[i]
						if k.Value.String() == "true" {
							// a `true` edge must not come from a block reached across a not-full edge
							for _, pp := range pred.Preds {
								if isNotFullEdge(pp, pred) {
									okPhi = false
								}
							}
						}
					}
					// and some edge must carry false from a not-full test
					hasFalse := false
					for i, e := range phi.Edges {
						if k, isC := e.(*ssa.Const); isC && k.Value != nil && k.Value.String() == "false" {
							pred := phi.Block().Preds[i]
							for _, pp := range pred.Preds {
								if isNotFullEdge(pp, pred) {
									hasFalse = true
								}
							}
							if len(pred.Preds) == 0 {
								_ = pred
							}
						}
					}
					if okPhi && hasFalse {
						guarded = true
					}
				}
			}
			if !guarded {
				// key ranges over a slice appended only under the full fact
				fl := newFlow(p)
				for _, o := range fl.Origins(key) {
					if o.Kind == "builtin" || o.Kind == "zero" || o.Kind == "const" {
						continue
					}
				}
				appOK, nApp := true, 0
				for _, b2 := range fn.Blocks {
					for _, in2 := range b2.Instrs {
						call, ok := in2.(*ssa.Call)
						if !ok {
							continue
						}
						if bi, ok := call.Call.Value.(*ssa.Builtin); ok && bi.Name() == "append" {
							nApp++
							g := false
							for _, f := range p.facts(b2) {
								if isFullFact(f) {
									g = true
								}
							}
							if !g {
								appOK = false
							}
						}
					}
				}
				if nApp > 0 && appOK {
					guarded = true
				}
			}
			if !guarded {
				return false, "a limiter is deleted at " + p.instrPos(in) + " without `Tokens() >= burst` for that entry: a client whose bucket is partly drained gets a fresh full bucket on its next request"
			}
		}
	}
	if nDel == 0 {
		return false, "no deletion found in " + fnKey(fn)
	}
	return true, ""
}

func isDeleteOnAny(in ssa.Instruction, field string) (ssa.Value, bool) {
	c, isCall := in.(ssa.CallInstruction)
	if !isCall {
		return nil, false
	}
	b, isB := c.Common().Value.(*ssa.Builtin)
	if !isB || b.Name() != "delete" {
		return nil, false
	}
	args := c.Common().Args
	_, f, ok := fieldLoad(args[0])
	if !ok || f == nil || f.Name() != field {
		return nil, false
	}
	return args[1], true
}

func runC19(c *Ctx) {
	p := c.P
	const P = "C19"
	c.rule(P, "order", "in AllowRequest no narrower (per-IP / per-connection) Allow is reachable after the global bucket's Allow", 1)
	c.rule(P, "who-calls", "AllowRequest is the only combiner of limiters and is called only from the connection loop", 1)
	ar := p.Fn("(*RateLimiter).AllowRequest")
	if ar == nil {
		c.undecided(P, "order", "fn=AllowRequest", "", "not found")
		return
	}
	classify := func(in ssa.Instruction) string {
		ci, ok := in.(ssa.CallInstruction)
		if !ok {
			return ""
		}
		if callsMethod(in, "(*"+absnfsPath+".PerIPLimiter).Allow") {
			return "per-ip"
		}
		if callsMethod(in, "(*"+absnfsPath+".TokenBucket).Allow") || callsMethod(in, "(*"+absnfsPath+".TokenBucket).AllowN") {
			recv := ci.Common().Args[0]
			if _, f, ok := fieldLoad(recv); ok && f != nil && f.Name() == "globalLimiter" {
				return "global"
			}
			return "per-connection"
		}
		return ""
	}
	nGlobal := 0
	for _, call := range calls(ar) {
		if classify(call) != "global" {
			continue
		}
		nGlobal++
		res := follow(followSpec{Fn: ar, From: call, Closes: func(ssa.Instruction) bool { return false }, ExitOK: func(*ssa.Return) bool { return true },
			Bad: func(in ssa.Instruction) bool { k := classify(in); return k == "per-ip" || k == "per-connection" }})
		key := fmt.Sprintf("call=globalLimiter.Allow#%d", nGlobal)
		if res.OK {
			c.ok(P, "order", key, p.instrPos(call), "the global token is taken last")
		} else {
			c.bad(P, "order", key, p.instrPos(call), "the global bucket is charged first and the "+classify(res.At)+" limiter at "+p.instrPos(res.At)+" can still refuse the request: traffic refused by a client's own limit drains the capacity shared with all other clients")
		}
	}
	if nGlobal == 0 {
		c.undecided(P, "order", "call=globalLimiter.Allow", p.pos(ar.Pos()), "AllowRequest does not consult the global bucket")
	}
	good := true
	why := ""
	for _, cs := range p.callers[ar] {
		if fnKey(cs.Caller) != "(*Server).handleConnectionLoop" {
			good, why = false, "AllowRequest is also called from "+fnKey(cs.Caller)
		}
	}
	// no other function calls both a global and a narrower limiter
	for _, fn := range p.SrcFuncs {
		if fn == ar {
			continue
		}
		kinds := map[string]bool{}
		for _, call := range calls(fn) {
			if k := classify(call); k != "" {
				kinds[k] = true
			}
		}
		if kinds["global"] && (kinds["per-ip"] || kinds["per-connection"]) {
			good, why = false, fnKey(fn)+" combines the global and a narrower limiter outside AllowRequest"
		}
	}
	c.verdictIf(good, P, "who-calls", "fn=AllowRequest", p.pos(ar.Pos()), "single combiner, single caller", why)
	runC19GlobalPrivate(c, P)
}
