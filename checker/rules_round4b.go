package main

// rules_round4b.go: C20/received-resolved (seed C20-c).

import (
	"go/token"

	"golang.org/x/tools/go/ssa"
)

// runC20ReceivedResolved: in the worker, a task taken off the queue is executed and its result delivered on
// every path before the worker returns or waits for the next task.  A task that has been received is no longer
// in the queue, so neither Stop's nor Resize's drain can resolve it: any path that drops it after the receive
// leaves its submitter waiting forever.
func runC20ReceivedResolved(c *Ctx, w *ssa.Function) {
	const P = "C20"
	p := c.P
	c.rule(P, "received-resolved", "worker: from the receive of a task, every path executes it and delivers the result (or finds ResultChan nil) before returning or selecting again", 2)
	qf := p.field("WorkerPool", "taskQueue")
	rc := p.field("Task", "ResultChan")
	if qf == nil || rc == nil {
		c.undecided(P, "received-resolved", "fields", "", "WorkerPool.taskQueue / Task.ResultChan not found")
		return
	}
	isFieldVal := func(v ssa.Value, name string) bool {
		v = unwrap(v)
		if _, f, ok := fieldLoad(v); ok && f != nil && f.Name() == name {
			return true
		}
		if f, ok := v.(*ssa.Field); ok {
			if fv := fieldOf(f.X.Type(), f.Field); fv != nil && fv.Name() == name {
				return true
			}
		}
		return false
	}
	// the receiving select / receive
	type recvSite struct {
		in    ssa.Instruction
		sel   *ssa.Select
		qcase int
	}
	var sites []recvSite
	for _, b := range w.Blocks {
		for _, in := range b.Instrs {
			switch x := in.(type) {
			case *ssa.Select:
				for i, st := range x.States {
					if st.Dir == 2 /* types.RecvOnly */ && isFieldVal(st.Chan, "taskQueue") {
						sites = append(sites, recvSite{in, x, i})
					}
				}
			case *ssa.UnOp:
				if x.Op == token.ARROW && isFieldVal(x.X, "taskQueue") {
					sites = append(sites, recvSite{in, nil, -1})
				}
			}
		}
	}
	if len(sites) == 0 {
		c.undecided(P, "received-resolved", "fn=worker receive", p.pos(w.Pos()), "no receive from WorkerPool.taskQueue found in the worker")
		return
	}
	isExec := func(in ssa.Instruction) bool {
		call, ok := in.(ssa.CallInstruction)
		return ok && isFieldOfValue(call.Common().Value, "Task", "Execute")
	}
	for _, s := range sites {
		// edges on which no task was received: another select case fired, or the queue was closed (ok == false)
		notReceived := func(from, to *ssa.BasicBlock) bool {
			for _, f := range edgeFacts(from, to) {
				if bo, ok := f.V.(*ssa.BinOp); ok && s.sel != nil && (bo.Op == token.EQL || bo.Op == token.NEQ) {
					ex, isEx := bo.X.(*ssa.Extract)
					k, isK := constInt(bo.Y)
					if isEx && isK && ex.Tuple == ssa.Value(s.sel) && ex.Index == 0 {
						eq := f.Val == (bo.Op == token.EQL)
						if eq && int(k) != s.qcase {
							return true
						}
						if !eq && int(k) == s.qcase {
							return true
						}
					}
				}
				if ex, ok := f.V.(*ssa.Extract); ok && !f.Val {
					// recvOk of the select (index 1) or of a comma-ok receive
					if s.sel != nil && ex.Tuple == ssa.Value(s.sel) && ex.Index == 1 {
						return true
					}
					if u, ok := ex.Tuple.(*ssa.UnOp); ok && ssa.Instruction(u) == s.in && ex.Index == 1 {
						return true
					}
				}
			}
			return false
		}
		out := follow(followSpec{Fn: w, From: s.in, Closes: isExec, StopEdge: notReceived,
			Bad: func(in ssa.Instruction) bool { return in == s.in }})
		if out.OK {
			c.ok(P, "received-resolved", "fn=worker executes-received", p.instrPos(s.in), "every path from the receive reaches Execute")
		} else {
			c.bad(P, "received-resolved", "fn=worker executes-received", p.instrPos(s.in),
				"a task received from the queue can be dropped without being executed ("+p.pathString(out.Witness)+"): it is no longer in the queue, so neither Stop nor Resize resolves it, its result channel is never written or closed, and its submitter waits forever")
		}
	}
	// from Execute: the result is sent on ResultChan, or ResultChan is nil
	for _, call := range calls(w) {
		if !isExec(call) {
			continue
		}
		isSend := func(in ssa.Instruction) bool {
			switch x := in.(type) {
			case *ssa.Send:
				return isFieldVal(x.Chan, "ResultChan")
			case *ssa.Select:
				for _, st := range x.States {
					if st.Dir == 1 /* types.SendOnly */ && isFieldVal(st.Chan, "ResultChan") {
						return true
					}
				}
			}
			return false
		}
		nilChan := nilFieldStop(func(v ssa.Value) bool { return isFieldVal(v, "ResultChan") })
		out := follow(followSpec{Fn: w, From: call, Closes: isSend, StopEdge: nilChan,
			Bad: func(in ssa.Instruction) bool {
				for _, s := range sites {
					if in == s.in {
						return true
					}
				}
				return false
			}})
		if out.OK {
			c.ok(P, "received-resolved", "fn=worker delivers-result", p.instrPos(call), "every path from Execute sends the result (or ResultChan is nil)")
		} else {
			c.bad(P, "received-resolved", "fn=worker delivers-result", p.instrPos(call),
				"after Execute the worker can return or wait for the next task without sending the result on ResultChan ("+p.pathString(out.Witness)+"): the submitter waits forever for a task that did run")
		}
	}
}
