package main

// replies.go: enumerate the reply bodies a handler can produce.

import (
	"strings"

	"golang.org/x/tools/go/ssa"
)

type replyShape struct {
	Fn        *ssa.Function
	Toks      []tok // status first; END stripped
	Status    ssa.Value
	StatusSet []int64
	StatusSrc map[int64][]string
	StatusOK  bool // status set resolved to constants
	At        ssa.Instruction
	Via       string
}

func (p *Prog) resolveStatus(rs *replyShape, v ssa.Value, at ssa.Instruction) {
	if v == nil {
		return
	}
	vals, src, ok := statusConstsSrc(p, v, fnKey(rs.Fn))
	if ok && at != nil {
		vals = excludeByFacts(p, v, vals, at.Block())
	}
	rs.StatusSet, rs.StatusSrc, rs.StatusOK = vals, src, ok
}

// handlerReplies lists every reply body handler fn can build: nfsError*
// helper calls and local buffers that are finished with Bytes().
func (p *Prog) handlerReplies(fn *ssa.Function) (shapes []replyShape, undecided []string) {
	// helpers
	for _, call := range calls(fn) {
		callee := staticCallee(call)
		if callee == nil || !strings.HasPrefix(callee.Name(), "nfsError") || callee.Pkg != p.Pkg {
			continue
		}
		paths, ok := p.helperTrace(callee)
		if !ok || len(paths) != 1 {
			undecided = append(undecided, "helper "+callee.Name()+" does not have a single straight-line trace")
			continue
		}
		arg := call.Common().Args[1]
		toks := append([]tok{}, paths[0]...)
		if len(toks) == 0 || toks[len(toks)-1].Kind != "END" {
			undecided = append(undecided, "helper "+callee.Name()+" trace does not end with Bytes()")
			continue
		}
		toks = toks[:len(toks)-1]
		// substitute the status parameter
		if len(toks) > 0 && toks[0].Kind == "U32" {
			if prm, ok := toks[0].Val.(*ssa.Parameter); ok && prm == callee.Params[1] {
				toks[0].Val = arg
				toks[0].Const = nil
				if k, ok := constInt(arg); ok {
					toks[0].Const = ci(k)
				}
			}
		}
		rs := replyShape{Fn: fn, Toks: toks, Status: arg, At: call, Via: "helper:" + callee.Name()}
		p.resolveStatus(&rs, arg, call)
		shapes = append(shapes, rs)
	}
	// buffers
	for _, bt := range p.traceBuffers(fn) {
		if len(bt.Paths) == 0 {
			continue
		}
		if bt.Trunc {
			undecided = append(undecided, "path enumeration truncated for a reply buffer")
		}
		for _, u := range bt.Unknown {
			undecided = append(undecided, "unrecognised write to the reply buffer at "+p.instrPos(u)+": "+instrName(u))
		}
		for _, path := range bt.Paths {
			toks := path[:len(path)-1]
			rs := replyShape{Fn: fn, Toks: toks, Via: "buffer"}
			if len(toks) > 0 {
				rs.At = toks[0].Instr
				if toks[0].Kind == "U32" {
					rs.Status = toks[0].Val
					if toks[0].Const != nil {
						rs.StatusSet, rs.StatusOK = []int64{*toks[0].Const}, true
						rs.StatusSrc = map[int64][]string{*toks[0].Const: {fnKey(fn)}}
					} else if toks[0].Val != nil {
						p.resolveStatus(&rs, toks[0].Val, toks[0].Instr)
					}
				}
			}
			shapes = append(shapes, rs)
		}
	}
	return
}

func itoa(i int) string {
	if i == 0 {
		return "0"
	}
	neg := i < 0
	if neg {
		i = -i
	}
	var b []byte
	for i > 0 {
		b = append([]byte{byte('0' + i%10)}, b...)
		i /= 10
	}
	if neg {
		b = append([]byte{'-'}, b...)
	}
	return string(b)
}
