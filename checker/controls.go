package main

// controls.go: positive controls.  A rule that matches nothing passes
// vacuously; to show on every thorough run that the rules of a property can
// still fire, each kept seeded change of that property (/verif/seeded/<name>:
// a realistic breaking patch with a demonstration) is applied to a scratch
// COPY of the repository under the system temp directory, the checker is run
// on the copy (still purely static), and the obligations that become violated
// are compared with the ones recorded when the seed was kept.  The copy is
// removed straight afterwards.  Results go into the evidence file; they never
// change the verdict on /repo itself.  `absnfs-lint -selftest` runs all of
// them and exits 2 when an applicable control does not fire.

import (
	"encoding/json"
	"fmt"
	"io"
	"io/fs"
	"os"
	"os/exec"
	"path/filepath"
	"sort"
	"strings"
	"sync"
)

type seedMeta struct {
	Seed       string          `json:"seed"`
	Property   string          `json:"property"`
	DetectedBy json.RawMessage `json:"detected_by"`
}

type controlResult struct {
	Seed     string   `json:"seed"`
	Property string   `json:"property"`
	Applied  bool     `json:"patch_applies_to_current_tree"`
	Expected []string `json:"expected_to_fire,omitempty"`
	Fired    []string `json:"fired"`
	Own      int      `json:"fired_under_own_property"`
	OK       bool     `json:"as_expected"`
	Note     string   `json:"note,omitempty"`
}

func copyTree(src, dst string) error {
	return filepath.WalkDir(src, func(path string, d fs.DirEntry, err error) error {
		if err != nil {
			return err
		}
		rel, _ := filepath.Rel(src, path)
		if rel == ".git" || strings.HasPrefix(rel, ".git"+string(filepath.Separator)) {
			if d.IsDir() {
				return filepath.SkipDir
			}
			return nil
		}
		target := filepath.Join(dst, rel)
		if d.IsDir() {
			return os.MkdirAll(target, 0o755)
		}
		if !d.Type().IsRegular() {
			return nil
		}
		in, err := os.Open(path)
		if err != nil {
			return err
		}
		defer in.Close()
		out, err := os.Create(target)
		if err != nil {
			return err
		}
		defer out.Close()
		_, err = io.Copy(out, in)
		return err
	})
}

// violatedKeys runs this binary on dir and returns the non-discharged obligations "P/rule [key]".
func violatedKeys(dir, props, known string) (map[string]bool, string) {
	self, err := os.Executable()
	if err != nil {
		return nil, err.Error()
	}
	ev, _ := os.MkdirTemp("", "absnfs-ctl-ev-")
	defer os.RemoveAll(ev)
	cmd := exec.Command(self, "-repo", dir, "-prop", props, "-tier", "quick", "-out", ev, "-known", known, "-list")
	// two threads per analysis: wall time is the same as with sixteen, CPU time a third
	cmd.Env = append(os.Environ(), "VERIF_TIER=quick", "GOMAXPROCS=2")
	outB, _ := cmd.CombinedOutput()
	keys := map[string]bool{}
	note := ""
	for _, l := range strings.Split(string(outB), "\n") {
		f := strings.Fields(l)
		if strings.Contains(l, "LOAD FAILURE") || strings.Contains(l, "checker panic") {
			note = strings.TrimSpace(l)
		}
		if len(f) < 3 || (f[0] != "violated" && f[0] != "undecided") || !strings.HasPrefix(l, "  ") {
			continue
		}
		// "  violated   C01/setsize [key] pos msg"
		i := strings.Index(l, "[")
		j := strings.Index(l, "] ")
		if i < 0 || j < i {
			j = strings.LastIndex(l, "]")
		}
		if i < 0 || j < i {
			continue
		}
		keys[f[1]+" "+l[i:j+1]] = true
	}
	return keys, note
}

func runControls(repo, seedsDir, known string, props []string) []controlResult {
	want := map[string]bool{}
	for _, p := range props {
		want[p] = true
	}
	ents, err := os.ReadDir(seedsDir)
	if err != nil {
		return nil
	}
	type job struct {
		dir  string
		meta seedMeta
	}
	var jobs []job
	for _, e := range ents {
		d := filepath.Join(seedsDir, e.Name())
		b, err := os.ReadFile(filepath.Join(d, "meta.json"))
		if err != nil {
			continue
		}
		var m seedMeta
		if json.Unmarshal(b, &m) != nil || !want[m.Property] {
			continue
		}
		if m.Seed == "" {
			m.Seed = e.Name()
		}
		jobs = append(jobs, job{d, m})
	}
	if len(jobs) == 0 {
		return nil
	}
	base, _ := violatedKeys(repo, "all", known)
	res := make([]controlResult, len(jobs))
	sem := make(chan struct{}, 4)
	var wg sync.WaitGroup
	for i, j := range jobs {
		wg.Add(1)
		go func(i int, j job) {
			defer wg.Done()
			sem <- struct{}{}
			defer func() { <-sem }()
			r := controlResult{Seed: j.meta.Seed, Property: j.meta.Property}
			var det struct {
				Own  []string `json:"own_property"`
				Note string   `json:"note"`
			}
			json.Unmarshal(j.meta.DetectedBy, &det)
			for _, l := range det.Own {
				f := strings.Fields(l)
				i0 := strings.Index(l, "[")
				if len(f) >= 2 && i0 > 0 {
					r.Expected = append(r.Expected, f[1]+" "+l[i0:])
				}
			}
			tmp, err := os.MkdirTemp("", "absnfs-ctl-")
			if err != nil {
				r.Note = err.Error()
				res[i] = r
				return
			}
			defer os.RemoveAll(tmp)
			if err := copyTree(repo, tmp); err != nil {
				r.Note = "copy failed: " + err.Error()
				res[i] = r
				return
			}
			ap := exec.Command("git", "apply", "--whitespace=nowarn", filepath.Join(j.dir, "patch.diff"))
			ap.Dir = tmp
			ap.Env = append(os.Environ(), "GIT_CEILING_DIRECTORIES="+filepath.Dir(tmp))
			if out, err := ap.CombinedOutput(); err != nil {
				r.Applied = false
				r.OK = true // not applicable to this tree: nothing to expect
				r.Note = "patch does not apply to the current tree (written for another revision): " + firstLine(string(out))
				res[i] = r
				return
			}
			r.Applied = true
			got, note := violatedKeys(tmp, "all", known)
			r.Note = note
			for k := range got {
				if !base[k] {
					r.Fired = append(r.Fired, k)
					if strings.HasPrefix(k, j.meta.Property+"/") {
						r.Own++
					}
				}
			}
			sort.Strings(r.Fired)
			r.OK = r.Own > 0
			res[i] = r
		}(i, j)
	}
	wg.Wait()
	return res
}

func firstLine(s string) string {
	s = strings.TrimSpace(s)
	if i := strings.Index(s, "\n"); i >= 0 {
		s = s[:i]
	}
	return s
}

func selftest(repo, seedsDir, known string, only []string) int {
	props := only
	if len(props) == 0 {
		for id := range registry {
			props = append(props, id)
		}
	}
	res := runControls(repo, seedsDir, known, props)
	bad := 0
	for _, r := range res {
		st := "fires"
		switch {
		case !r.Applied:
			st = "n/a  "
		case !r.OK:
			st = "SILENT"
			bad++
		}
		fmt.Printf("%-7s %-6s %s own=%d fired=%v %s\n", st, r.Seed, r.Property, r.Own, r.Fired, r.Note)
	}
	fmt.Printf("selftest: %d controls, %d silent\n", len(res), bad)
	if len(only) == 0 {
		neg := runNegControls(repo, filepath.Join(filepath.Dir(seedsDir), "benign"), known, "all", nil)
		noisy := 0
		for _, r := range neg {
			st := "silent"
			switch {
			case !r.Applied:
				st = "n/a   "
			case !r.Silent:
				st = "NOISY "
				noisy++
			}
			fmt.Printf("%-7s %-8s fired=%v %s\n", st, r.Patch, r.Fired, r.Note)
		}
		fmt.Printf("selftest: %d behaviour-preserving refactorings, %d raise an alarm\n", len(neg), noisy)
		bad += noisy
	}
	if bad > 0 {
		return 2
	}
	return 0
}
