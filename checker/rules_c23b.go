package main

import (
	"go/token"

	"golang.org/x/tools/go/ssa"
)

// nonIncreasing: v is computed from configuration fields and constants only by
// operations that cannot make it larger than its non-constant input
// (conversions, selection between alternatives, constant caps, division,
// subtraction, right shift, masking).  Used for "the advertised maximum never
// exceeds the enforced one": addition, multiplication, rounding up etc. fail.
func nonIncreasing(v ssa.Value, d int) (bool, ssa.Value) {
	if d > 12 {
		return false, v
	}
	switch x := v.(type) {
	case *ssa.Const:
		return true, nil
	case *ssa.Convert:
		return nonIncreasing(x.X, d+1)
	case *ssa.ChangeType:
		return nonIncreasing(x.X, d+1)
	case *ssa.Phi:
		for _, e := range x.Edges {
			if e == ssa.Value(x) {
				continue
			}
			if ok, at := nonIncreasing(e, d+1); !ok {
				return false, at
			}
		}
		return true, nil
	case *ssa.UnOp:
		if x.Op != token.MUL {
			return false, v
		}
		if _, f, ok := fieldLoad(x); ok && f != nil {
			return true, nil
		}
		if sv := singleStore(x.X); sv != nil {
			return nonIncreasing(sv, d+1)
		}
		return false, v
	case *ssa.BinOp:
		switch x.Op {
		case token.QUO, token.REM, token.SHR, token.SUB, token.AND:
			if _, isC := x.Y.(*ssa.Const); isC {
				return nonIncreasing(x.X, d+1)
			}
		}
		return false, v
	}
	return false, v
}
