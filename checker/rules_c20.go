package main

import (
	"fmt"
	"go/token"
	"sort"
	"strings"

	"golang.org/x/tools/go/ssa"
)

func init() {
	register("C20",
		"Decided (channel protocol and lock discipline of the pool): (signal) a submitter tells 'executed' from 'not executed' only by whether the result channel delivers a value or is closed, so every send on a task's result channel must carry the value returned by that task's Execute and a task resolved without execution must be resolved by close; SubmitWait reports not-executed only when Submit refused the task or the channel was closed; (once) the worker calls Execute exactly once per received task and sends that result on a channel of capacity 1; Execute is called nowhere else in the pool; (fallback) ExecuteWithWorker runs the task itself exactly on the not-executed edge; (drain) every function that makes queued tasks unreachable (cancels the worker context and closes or replaces the queue) drains the old queue and resolves each drained task, itself or in every caller; (close-race) every send on the task queue holds closeMu.RLock and every close of it holds closeMu.Lock; (width) worker goroutines are started only by Start, in a loop bounded by maxWorkers, and Resize stops before it starts. Not decided: interleavings; that a drained-and-requeued task is not also executed by an old worker.",
		commonAssume, runC20)
}

func isFieldOfValue(v ssa.Value, owner, field string) bool {
	v = unwrap(v)
	switch x := v.(type) {
	case *ssa.UnOp:
		_, f, ok := fieldLoad(x)
		return ok && f != nil && f.Name() == field
	case *ssa.Field:
		f := fieldOf(x.X.Type(), x.Field)
		return f != nil && f.Name() == field
	}
	return false
}

func runC20(c *Ctx) {
	p := c.P
	const P = "C20"
	c.rule(P, "signal", "sends on Task.ResultChan carry the result of that task's Execute; unexecuted tasks are resolved by close; SubmitWait's not-executed signal comes only from Submit==nil or a closed channel", 2)
	c.rule(P, "once", "worker: one Execute per received task, result sent on the cap-1 channel; Execute called nowhere else", 3)
	c.rule(P, "fallback", "ExecuteWithWorker calls task() itself exactly when SubmitWait reports not-executed", 1)
	c.rule(P, "drain", "functions that cancel the workers and close/replace the queue resolve every task left in it", 2)
	c.rule(P, "close-race", "sends on taskQueue under closeMu.RLock; close(taskQueue) under closeMu.Lock", 3)
	c.rule(P, "width", "workers started only in Start, bounded by maxWorkers; Resize: Stop precedes Start", 2)

	li := p.lockInfo()
	// --- signal: all sends/closes on ResultChan
	nSend := map[string]int{}
	for _, fn := range p.SrcFuncs {
		for _, b := range fn.Blocks {
			for _, in := range b.Instrs {
				var ch, val ssa.Value
				switch x := in.(type) {
				case *ssa.Send:
					ch, val = x.Chan, x.X
				case *ssa.Select:
					for _, st := range x.States {
						if st.Dir == 1 /* SendOnly */ && isFieldOfValue(st.Chan, "Task", "ResultChan") {
							ch, val = st.Chan, st.Send
						}
					}
				}
				if ch == nil || !isFieldOfValue(ch, "Task", "ResultChan") {
					continue
				}
				nSend[fnKey(fn)]++
				key := fmt.Sprintf("send=%s:ResultChan#%d", fnKey(fn), nSend[fnKey(fn)])
				// value must be the result of a dynamic call of the same task's Execute field
				good := false
				if call, ok := unwrap(val).(*ssa.Call); ok {
					if isFieldOfValue(call.Call.Value, "Task", "Execute") {
						good = true
					}
				}
				c.verdictIf(good, P, "signal", key, p.instrPos(in), "carries the task's own result",
					"a value that is not the task's Execute result is sent on its result channel: SubmitWait reports the task as executed (ok=true) although it never ran, and the request it carried is silently dropped")
			}
		}
	}
	sw := p.Fn("(*WorkerPool).SubmitWait")
	if sw == nil {
		c.undecided(P, "signal", "fn=SubmitWait", "", "not found")
	} else {
		good, why := true, ""
		for _, b := range sw.Blocks {
			if b == sw.Recover {
				continue
			}
			for _, in := range b.Instrs {
				r, ok := in.(*ssa.Return)
				if !ok || len(r.Results) != 2 {
					continue
				}
				v := retVal(r, 1)
				if k, isC := v.(*ssa.Const); isC && k.Value != nil {
					if k.Value.String() == "false" {
						// must be on the Submit()==nil edge
						okEdge := false
						for _, f := range p.facts(b) {
							op, l, rr, okc := normCmp(f)
							if okc && op == "==" && (isNilConst(l) || isNilConst(rr)) {
								other := l
								if isNilConst(l) {
									other = rr
								}
								if call, ok := other.(*ssa.Call); ok && callsMethod(call, "(*"+absnfsPath+".WorkerPool).Submit") {
									okEdge = true
								}
							}
						}
						if !okEdge {
							good, why = false, "SubmitWait returns ok=false at "+p.instrPos(in)+" although the task was accepted and its channel was not closed: the submitter runs the task itself while a worker may still run it too (executed twice)"
						}
					}
					continue
				}
				// must be the commaOk of a receive from the result channel
				if ex, ok := v.(*ssa.Extract); ok && ex.Index == 1 {
					if u, ok := ex.Tuple.(*ssa.UnOp); ok && u.Op == token.ARROW && u.CommaOk {
						continue
					}
				}
				good, why = false, "SubmitWait's ok result at "+p.instrPos(in)+" is neither the receive's ok flag nor the Submit==nil case"
			}
		}
		c.verdictIf(good, P, "signal", "fn=SubmitWait not-executed-signal", p.pos(sw.Pos()), "ok=false only for refused submission or closed channel", why)
	}

	// --- once
	w := p.Fn("(*WorkerPool).worker")
	if w == nil {
		c.undecided(P, "once", "fn=worker", "", "not found")
	} else {
		nExec := 0
		for _, call := range calls(w) {
			if isFieldOfValue(call.Common().Value, "Task", "Execute") {
				nExec++
			}
		}
		c.verdictIf(nExec == 1, P, "once", "fn=worker one-Execute", p.pos(w.Pos()), "exactly one Execute call site in the worker loop", fmt.Sprintf("%d Execute call sites in the worker", nExec))
		runC20ReceivedResolved(c, w)
	}
	other := 0
	for _, fn := range p.SrcFuncs {
		if fn == w {
			continue
		}
		for _, call := range calls(fn) {
			if isFieldOfValue(call.Common().Value, "Task", "Execute") {
				other++
				c.bad(P, "once", "extra-Execute="+fnKey(fn), p.instrPos(call), "a task's Execute is invoked outside the worker loop: it can run twice")
			}
		}
	}
	if other == 0 {
		c.ok(P, "once", "extra-Execute=none", "", "Execute only in worker")
	}
	sub := p.Fn("(*WorkerPool).Submit")
	if sub != nil {
		cap1 := false
		for _, b := range sub.Blocks {
			for _, in := range b.Instrs {
				if mc, ok := in.(*ssa.MakeChan); ok {
					if k, isC := constInt(mc.Size); isC && k >= 1 {
						cap1 = true
					}
				}
			}
		}
		c.verdictIf(cap1, P, "once", "fn=Submit result-chan-capacity", p.pos(sub.Pos()), "result channel has capacity ≥ 1: the worker's non-blocking send cannot drop the result", "result channel is unbuffered: the worker's non-blocking send drops the result when the submitter is not yet receiving")
	}

	// --- fallback
	ew := p.Fn("(*AbsfsNFS).ExecuteWithWorker")
	if ew == nil {
		c.undecided(P, "fallback", "fn=ExecuteWithWorker", "", "not found")
	} else {
		good, why := false, "ExecuteWithWorker does not call SubmitWait"
		for _, call := range calls(ew) {
			if !callsMethod(call, "(*"+absnfsPath+".WorkerPool).SubmitWait") {
				continue
			}
			var okv ssa.Value
			for _, r := range *call.Value().Referrers() {
				if ex, ok := r.(*ssa.Extract); ok && ex.Index == 1 {
					okv = ex
				}
			}
			good, why = true, ""
			// every direct task() call after SubmitWait must be on ok==false; the ok==true edge returns the result
			for _, c2 := range calls(ew) {
				if _, isP := c2.Common().Value.(*ssa.Parameter); !isP || staticCallee(c2) != nil {
					continue
				}
				if !(call.Block().Dominates(c2.Block()) || call.Block() == c2.Block() && instrIndex(call) < instrIndex(c2)) {
					continue
				}
				onFalse := guardedBy(ew, c2.Block(), func(f condFact) bool { return f.V == okv && !f.Val }) || !reachAvoidingTrue(ew, call.Block(), c2.Block(), okv)
				if !onFalse {
					good, why = false, "task() is also called on the executed edge: the task runs twice"
				}
			}
			// on ok==false a direct call must follow
			var falseSucc *ssa.BasicBlock
			for _, r := range *okv.Referrers() {
				if ifi, ok := r.(*ssa.If); ok {
					falseSucc = ifi.Block().Succs[1]
				}
			}
			if falseSucc == nil {
				good, why = false, "the ok flag of SubmitWait is not branched on"
			} else {
				res := follow(followSpec{Fn: ew, Start: []*ssa.BasicBlock{falseSucc}, Closes: func(in ssa.Instruction) bool {
					ci, ok := in.(ssa.CallInstruction)
					if !ok {
						return false
					}
					_, isP := ci.Common().Value.(*ssa.Parameter)
					return isP && staticCallee(ci) == nil
				}})
				if !res.OK {
					good, why = false, "on the not-executed edge the task is not run directly: the request is dropped"
				}
			}
		}
		c.verdictIf(good, P, "fallback", "fn=ExecuteWithWorker", p.pos(ew.Pos()), "direct execution exactly on ok==false", why)
	}

	// --- drain: functions that call cancel and close(taskQueue) (directly or via Stop)
	stop := p.Fn("(*WorkerPool).Stop")
	// stoppers: the functions whose body (or function literal) closes the pool's current queue
	stoppers := map[*ssa.Function]bool{}
	for _, fn := range p.SrcFuncs {
		for _, call := range calls(fn) {
			if bi, ok := call.Common().Value.(*ssa.Builtin); ok && bi.Name() == "close" && isFieldOfValue(call.Common().Args[0], "WorkerPool", "taskQueue") {
				stoppers[rootFn(fn)] = true
			}
		}
	}
	if stop == nil || len(stoppers) == 0 {
		c.undecided(P, "drain", "fn=Stop", "", "no function closes WorkerPool.taskQueue")
	} else {
		drains := func(fn *ssa.Function) bool {
			// receives from the queue (range/recv) and closes or re-sends each task
			recv := false
			resolve := false
			for _, b := range fn.Blocks {
				for _, in := range b.Instrs {
					if u, ok := in.(*ssa.UnOp); ok && u.Op == token.ARROW && inCycle(b) {
						recv = true
					}
					if ci, ok := in.(ssa.CallInstruction); ok {
						if bi, ok := ci.Common().Value.(*ssa.Builtin); ok && bi.Name() == "close" && isFieldOfValue(ci.Common().Args[0], "Task", "ResultChan") {
							resolve = true
						}
					}
					if s, ok := in.(*ssa.Send); ok && isFieldOfValue(s.Chan, "WorkerPool", "taskQueue") {
						resolve = true
					}
					if s, ok := in.(*ssa.Send); ok && isFieldOfValue(s.Chan, "Task", "ResultChan") {
						resolve = true
					}
					if sel, ok := in.(*ssa.Select); ok {
						for _, st := range sel.States {
							if st.Dir == 1 && isFieldOfValue(st.Chan, "WorkerPool", "taskQueue") {
								resolve = true
							}
						}
					}
				}
			}
			return recv && resolve
		}
		var ss []*ssa.Function
		for s := range stoppers {
			ss = append(ss, s)
		}
		sort.Slice(ss, func(i, j int) bool { return fnKey(ss[i]) < fnKey(ss[j]) })
		for _, s := range ss {
			if drains(s) {
				c.ok(P, "drain", "fn="+fnKey(s), p.pos(s.Pos()), "drains and resolves queued tasks itself")
				continue
			}
			if len(p.callers[s]) == 0 {
				c.bad(P, "drain", "fn="+fnKey(s), p.pos(s.Pos()), fnKey(s)+" stops the pool but nobody drains the queue: tasks accepted by Submit and still queued are never executed and their result channels are never written or closed, so their submitters wait forever in SubmitWait")
			}
			seenCaller := map[string]bool{}
			for _, cs := range p.callers[s] {
				key := "caller=" + fnKey(cs.Caller) + " of " + s.Name()
				if seenCaller[key] {
					continue
				}
				seenCaller[key] = true
				c.verdictIf(drains(cs.Caller), P, "drain", key, p.instrPos(cs.Instr), "caller drains the old queue and resolves each task",
					fnKey(cs.Caller)+" stops the pool but nobody drains the queue: tasks accepted by Submit and still queued are never executed and their result channels are never written or closed, so their submitters wait forever in SubmitWait")
			}
		}
	}

	// --- close-race
	// locks held exclusively at every close of the current queue (helpers inherit their callers' locks)
	stateWithParent := func(fn *ssa.Function, in ssa.Instruction) lockState {
		st := lockState{}
		for id, m := range li.stateAt(in) {
			st[id] = m
		}
		if fn.Parent() != nil {
			for _, cs := range p.callers[fn] {
				for id, m := range li.stateAt(cs.Instr) {
					st[id] = m
				}
			}
		}
		return st
	}
	var closeClasses map[string]bool
	for _, fn := range p.SrcFuncs {
		for _, call := range calls(fn) {
			if bi, ok := call.Common().Value.(*ssa.Builtin); !ok || bi.Name() != "close" || !isFieldOfValue(call.Common().Args[0], "WorkerPool", "taskQueue") || !isDirectFieldLoad(call.Common().Args[0]) {
				continue
			}
			cur := map[string]bool{}
			for id, m := range stateWithParent(fn, call) {
				if m == 'W' {
					cur[id.Class] = true
				}
			}
			if closeClasses == nil {
				closeClasses = cur
			} else {
				for k := range closeClasses {
					if !cur[k] {
						delete(closeClasses, k)
					}
				}
			}
		}
	}
	n := 0
	for _, fn := range p.SrcFuncs {
		for _, b := range fn.Blocks {
			for _, in := range b.Instrs {
				isSend := false
				switch x := in.(type) {
				case *ssa.Send:
					isSend = isFieldOfValue(x.Chan, "WorkerPool", "taskQueue")
				case *ssa.Select:
					for _, st := range x.States {
						if st.Dir == 1 && isFieldOfValue(st.Chan, "WorkerPool", "taskQueue") {
							isSend = true
						}
					}
				}
				isClose := false
				if ci, ok := in.(ssa.CallInstruction); ok {
					if bi, ok := ci.Common().Value.(*ssa.Builtin); ok && bi.Name() == "close" {
						a := ci.Common().Args[0]
						if isFieldOfValue(a, "WorkerPool", "taskQueue") {
							isClose = true
						}
					}
				}
				if !isSend && !isClose {
					continue
				}
				n++
				// closures (Stop's func literal) run synchronously inside the critical section: use the state at their call site
				st := stateWithParent(fn, in)
				held := byte(0)
				for id, m := range st {
					if id.Class == "WorkerPool.closeMu" {
						held = m
					}
				}
				if isSend && held == 0 {
					// any other lock that every close of the current queue holds exclusively excludes the close as well
					for id, m := range st {
						if closeClasses[id.Class] {
							held = m
						}
					}
				}
				kind := "send"
				if isClose {
					kind = "close"
				}
				key := fmt.Sprintf("%s=%s:taskQueue#%d", kind, fnKey(fn), n)
				if isSend {
					c.verdictIf(held != 0, P, "close-race", key, p.instrPos(in), "under closeMu", "send on taskQueue without closeMu held: a concurrent Stop can close the queue under it (send on closed channel panics)")
				} else {
					// close of the *current* queue needs the write lock; close of a saved old queue reference that Stop already closed is exempt when inside a recover closure
					c.verdictIf(held == 'W' || closesLocalCopy(in), P, "close-race", key, p.instrPos(in), "under closeMu.Lock (or a local old-queue reference guarded by recover)", "close(taskQueue) without closeMu.Lock held")
				}
			}
		}
	}

	// --- width
	start := p.Fn("(*WorkerPool).Start")
	goSites := 0
	okWidth := true
	why := ""
	for _, fn := range p.SrcFuncs {
		for _, b := range fn.Blocks {
			for _, in := range b.Instrs {
				g, ok := in.(*ssa.Go)
				if !ok || staticCallee(g) != w {
					continue
				}
				goSites++
				if fn != start {
					okWidth, why = false, "worker goroutines are also started in "+fnKey(fn)
					continue
				}
				// loop bound: a controlling/loop condition compares the index with maxWorkers
				bound := false
				for _, bb := range fn.Blocks {
					ifi := blockIf(bb)
					if ifi == nil {
						continue
					}
					if bo, ok := ifi.Cond.(*ssa.BinOp); ok && bo.Op == token.LSS {
						if _, f, ok := fieldLoad(bo.Y); ok && f != nil && f.Name() == "maxWorkers" {
							bound = true
						}
					}
				}
				if !bound {
					okWidth, why = false, "the worker start loop is not bounded by maxWorkers"
				}
			}
		}
	}
	c.verdictIf(okWidth && goSites > 0, P, "width", "go=worker only-in-Start bounded", "", "workers are started only by Start, i < maxWorkers", why)
	runC20Join(c)
	rz := p.Fn("(*WorkerPool).Resize")
	if rz != nil && start != nil && stop != nil {
		good := true
		for _, cs := range calls(rz) {
			if staticCallee(cs) == start {
				// a Stop call must dominate
				dom := false
				for _, c2 := range calls(rz) {
					if callee := staticCallee(c2); callee != nil && (callee == stop || stoppers[callee]) && (c2.Block().Dominates(cs.Block()) || reachAvoiding([]*ssa.BasicBlock{c2.Block()}, nil, nil)[cs.Block()]) {
						dom = true
					}
				}
				// Start is only on the wasRunning edge, as is Stop
				if !dom {
					good = false
				}
			}
		}
		c.verdictIf(good, P, "width", "fn=Resize stop-before-start", p.pos(rz.Pos()), "old workers are stopped (and waited for) before new ones start", "Resize starts new workers without first stopping the old ones: more than max(old,new) tasks can run")
	}
}

// reachAvoidingTrue: is `to` reachable from `from` without crossing an edge where okv is false?
func reachAvoidingTrue(fn *ssa.Function, from, to *ssa.BasicBlock, okv ssa.Value) bool {
	cut := map[edge]bool{}
	for _, b := range fn.Blocks {
		for _, s := range b.Succs {
			for _, f := range edgeFacts(b, s) {
				if f.V == okv && !f.Val {
					cut[edge{b, s}] = true
				}
			}
		}
	}
	return reachAvoiding([]*ssa.BasicBlock{from}, cut, nil)[to]
}

// closesLocalCopy: close(x) where x is a local copy of the queue (oldQueue := p.taskQueue) inside a closure that defers recover.
func closesLocalCopy(in ssa.Instruction) bool {
	ci, ok := in.(ssa.CallInstruction)
	if !ok {
		return false
	}
	fn := in.Parent()
	if fn.Parent() == nil {
		return false
	}
	for _, b := range fn.Blocks {
		for _, x := range b.Instrs {
			if d, ok := x.(*ssa.Defer); ok {
				if mc, ok := d.Call.Value.(*ssa.MakeClosure); ok {
					for _, cc := range calls(mc.Fn.(*ssa.Function)) {
						if bi, ok := cc.Common().Value.(*ssa.Builtin); ok && bi.Name() == "recover" {
							_ = ci
							return true
						}
					}
				}
				if f, ok := d.Call.Value.(*ssa.Function); ok {
					for _, cc := range calls(f) {
						if bi, ok := cc.Common().Value.(*ssa.Builtin); ok && bi.Name() == "recover" {
							return true
						}
					}
				}
			}
		}
	}
	return false
}

var _ = strings.Contains

// isDirectFieldLoad: v is `*(&x.f)` computed in place (not a saved copy, parameter or captured variable).
func isDirectFieldLoad(v ssa.Value) bool {
	u, ok := v.(*ssa.UnOp)
	if !ok || u.Op != token.MUL {
		return false
	}
	_, isFA := u.X.(*ssa.FieldAddr)
	return isFA
}
