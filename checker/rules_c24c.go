package main

// rules_c24c.go: C24/in-force.  "GetExportOptions reports the configuration in
// force": a tuning field that the constructor uses to BUILD or CONFIGURE a
// component (cache sizes, the directory cache itself, the worker pool) is in
// force after a runtime update only if applyTuningSideEffects looks at it too.
// Fields that requests read from the tuning snapshot at each use need nothing.
// Rule: every TuningOptions field New reads is also read from the updated
// record in applyTuningSideEffects.

import (
	"sort"

	"golang.org/x/tools/go/ssa"
)

func tuningFieldsRead(fn *ssa.Function, only func(base ssa.Value) bool) map[string]ssa.Instruction {
	out := map[string]ssa.Instruction{}
	for _, b := range fn.Blocks {
		for _, in := range b.Instrs {
			u, ok := in.(*ssa.UnOp)
			if !ok {
				continue
			}
			base, f, isLoad := fieldLoad(u)
			if !isLoad || f == nil || recvTypeName(base.Type()) != "TuningOptions" {
				continue
			}
			if only != nil && !only(base) {
				continue
			}
			if _, seen := out[f.Name()]; !seen {
				out[f.Name()] = in
			}
		}
	}
	return out
}

func runC24InForce(c *Ctx) {
	p := c.P
	const P = "C24"
	c.rule(P, "in-force", "every TuningOptions field the constructor uses to build or configure a component is also consulted by applyTuningSideEffects", 7)
	nw := p.Fn("New")
	ap := p.Fn("(*AbsfsNFS).applyTuningSideEffects")
	if nw == nil || ap == nil || len(ap.Params) < 3 {
		c.undecided(P, "in-force", "fns", "", "New / applyTuningSideEffects not found")
		return
	}
	ctor := tuningFieldsRead(nw, nil)
	updated := ap.Params[2]
	applied := tuningFieldsRead(ap, func(base ssa.Value) bool { return unwrap(base) == ssa.Value(updated) })
	var names []string
	for f := range ctor {
		names = append(names, f)
	}
	sort.Strings(names)
	for _, f := range names {
		_, ok := applied[f]
		c.verdictIf(ok, P, "in-force", "field=TuningOptions."+f, p.instrPos(ctor[f]), "applied by applyTuningSideEffects",
			"New uses TuningOptions."+f+" to build or configure a component, but applyTuningSideEffects never looks at it: after UpdateTuningOptions/UpdateExportOptions changes it, GetExportOptions reports the new value while the server keeps behaving according to the old one")
	}
}
