package main

// rules_round3c.go: further rules from the third seeding round.

import (
	"fmt"
	"go/token"
	"strings"

	"golang.org/x/tools/go/ssa"
)

// --- C23/record-limit --------------------------------------------------------
// FSINFO's cap on wtmax is derived from the constant DefaultMaxRecordSize; the
// limit ReadRecord enforces must be that constant for every connection.  A
// per-connection limit computed from configuration at accept time goes stale
// when TransferSize is raised at run time: a WRITE FSINFO invites is then
// dropped as an oversized record.
func runC23RecordLimit(c *Ctx) {
	p := c.P
	const P = "C23"
	c.rule(P, "record-limit", "RecordMarkingReader.MaxRecordSize is only ever set to the constant the FSINFO cap is derived from (no per-connection, configuration-derived limit)", 1)
	fld := p.field("RecordMarkingReader", "MaxRecordSize")
	if fld == nil {
		c.undecided(P, "record-limit", "binding:RecordMarkingReader.MaxRecordSize", "", "field not found")
		return
	}
	limit := int64(1 << 20)
	if v, ok := p.constVal("DefaultMaxRecordSize"); ok {
		limit = v
	}
	n := 0
	for _, fn := range p.SrcFuncs {
		if fn.Pkg != p.Pkg {
			continue
		}
		for _, b := range fn.Blocks {
			for _, in := range b.Instrs {
				st, ok := in.(*ssa.Store)
				if !ok {
					continue
				}
				_, f, isFA := fieldAddrOf(st.Addr)
				if !isFA || f != fld {
					continue
				}
				n++
				key := fmt.Sprintf("store=%s:MaxRecordSize#%d", fnKey(fn), n)
				k, isC := constInt(unwrap(st.Val))
				c.verdictIf(isC && k >= limit, P, "record-limit", key, p.instrPos(in), fmt.Sprintf("constant %d", k),
					"the record limit of a connection is set to a value that is not the constant DefaultMaxRecordSize (computed when the connection is accepted): after TransferSize is raised at run time FSINFO advertises a wtmax whose WRITE no longer fits the limit of connections opened earlier, and such a WRITE is dropped with the connection")
			}
		}
	}
	if n == 0 {
		c.undecided(P, "record-limit", "store=none", "", "RecordMarkingReader.MaxRecordSize is never set")
	}
}

// --- C26/toosmall-on-stop-edge -----------------------------------------------
// The TOOSMALL answer must be taken where it is known that the NEXT entry does
// not fit and none has been added: a TOOSMALL reply is reachable from the
// "does not fit" edge of the loop's stop test.  A TOOSMALL test hoisted before
// the loop cannot know the size of the entry a later page starts with; the
// loop then answers NFS3_OK with no entries and eof=false and the client asks
// for the same page forever.
func runC26TooSmallEdge(c *Ctx, h *ssa.Function, name string, stopIf *ssa.If) {
	p := c.P
	const P = "C26"
	key := "proc=" + name
	over := stopIf.Block().Succs[0]
	region := reachAvoiding([]*ssa.BasicBlock{over}, nil, nil)
	found := false
	for blk := range region {
		for _, in := range blk.Instrs {
			ci, ok := in.(ssa.CallInstruction)
			if !ok {
				continue
			}
			callee := staticCallee(ci)
			if callee == nil || !strings.HasPrefix(callee.Name(), "nfsError") || len(ci.Common().Args) < 2 {
				continue
			}
			if k, isC := constInt(ci.Common().Args[1]); isC && k == 10005 {
				// and not through the loop back-edge into a pre-loop block: the reply must not dominate the stop test
				if !blk.Dominates(stopIf.Block()) {
					found = true
				}
			}
		}
	}
	c.verdictIf(found, P, "toosmall-edge", key, p.instrPos(stopIf), "TOOSMALL is decided where the entry is found not to fit",
		name+" cannot answer NFS3ERR_TOOSMALL from the edge on which the next entry does not fit: when a page starts at an entry too large for the client's limit it returns NFS3_OK with no entries and eof=false, and a client following the cookie repeats the same request forever")
}

// --- C27/dump-live ------------------------------------------------------------
// DUMP (both variants) report exactly the current registrations: every return
// of the DUMP handlers has read the mapping table in this call (directly or via
// GetMappings).  A reply served from a cached encoding can miss an update.
func runC27DumpLive(c *Ctx) {
	p := c.P
	const P = "C27"
	c.rule(P, "dump-live", "every return of the DUMP handlers has read Portmapper.mappings during this call", 2)
	mf := p.field("Portmapper", "mappings")
	readsMappings := map[*ssa.Function]bool{}
	for _, fn := range p.SrcFuncs {
		for _, b := range fn.Blocks {
			for _, in := range b.Instrs {
				if u, ok := in.(*ssa.UnOp); ok {
					if _, f, isLoad := fieldLoad(u); isLoad && f == mf && mf != nil {
						readsMappings[fn] = true
					}
				}
			}
		}
	}
	for _, name := range []string{"(*Portmapper).handleDump", "(*Portmapper).handleRpcbDump"} {
		fn := p.Fn(name)
		if fn == nil {
			c.undecided(P, "dump-live", "fn="+name, "", "not found")
			continue
		}
		res := follow(followSpec{Fn: fn, Start: []*ssa.BasicBlock{fn.Blocks[0]}, Closes: func(in ssa.Instruction) bool {
			if u, ok := in.(*ssa.UnOp); ok {
				if _, f, isLoad := fieldLoad(u); isLoad && f == mf && mf != nil {
					return true
				}
			}
			if ci, ok := in.(ssa.CallInstruction); ok {
				if _, isDefer := in.(*ssa.Defer); isDefer {
					return false
				}
				if callee := staticCallee(ci); callee != nil && readsMappings[callee] {
					return true
				}
			}
			return false
		}})
		pos := p.pos(fn.Pos())
		if res.At != nil {
			pos = p.instrPos(res.At)
		}
		c.verdictIf(res.OK, P, "dump-live", "fn="+name, pos, "the reply is built from the table read in this call",
			name+" can return a reply without reading the mapping table in this call (a kept encoding): after a registration is changed in place DUMP keeps reporting the old port while GETPORT reports the new one")
	}
}

// --- C13/all-fragments (shared with C15, C28) ---------------------------------
// Every fragment ReadRecord reads ends up in what it returns: from the success
// edge of the fragment's ReadFull, every path to a data-carrying return either
// appends the fragment to the buffer whose bytes are returned or returns the
// fragment itself.
func runAllFragmentsAs(c *Ctx, P string) {
	p := c.P
	c.rule(P, "all-fragments", "ReadRecord: every fragment read is appended to the returned buffer (or is itself the returned value) on every path to a successful return", 1)
	rr := p.Fn("(*RecordMarkingReader).ReadRecord")
	if rr == nil {
		c.undecided(P, "all-fragments", "fn=ReadRecord", "", "not found")
		return
	}
	n := 0
	for _, call := range calls(rr) {
		if !isCallTo(call, "io.ReadFull") || len(call.Common().Args) < 2 {
			continue
		}
		frag := unwrap(call.Common().Args[1])
		// skip header reads (fixed 4-byte arrays)
		if sl, ok := frag.(*ssa.Slice); ok {
			if _, isAlloc := sl.X.(*ssa.Alloc); isAlloc {
				continue
			}
		}
		n++
		key := fmt.Sprintf("fragment=ReadRecord:ReadFull#%d", n)
		sameFrag := func(v ssa.Value) bool {
			v = unwrap(v)
			if v == frag {
				return true
			}
			// loads of the same local cell
			if u, ok := v.(*ssa.UnOp); ok && u.Op == token.MUL {
				if fu, ok := frag.(*ssa.UnOp); ok && fu.Op == token.MUL && fu.X == u.X {
					return true
				}
			}
			// phi of the fragment (allocated before the conditional read)
			if ph, ok := v.(*ssa.Phi); ok {
				for _, e := range ph.Edges {
					if unwrap(e) == frag {
						return true
					}
				}
			}
			if fp, ok := frag.(*ssa.Phi); ok {
				for _, e := range fp.Edges {
					if unwrap(e) == v {
						return true
					}
				}
			}
			return false
		}
		sp := followSpec{Fn: rr, Closes: func(in ssa.Instruction) bool {
			if ci, ok := in.(ssa.CallInstruction); ok {
				if callee := staticCallee(ci); callee != nil && qualFn(callee) == "(*bytes.Buffer).Write" && len(ci.Common().Args) >= 2 && sameFrag(ci.Common().Args[1]) {
					return true
				}
			}
			if r, ok := in.(*ssa.Return); ok && len(r.Results) > 0 && sameFrag(retVal(r, 0)) {
				return true
			}
			return false
		}, ExitOK: func(r *ssa.Return) bool {
			return len(r.Results) > 0 && !isNilConst(retVal(r, len(r.Results)-1))
		}}
		if succ, _, ok := errSuccessEdge(call); ok {
			sp.Start = []*ssa.BasicBlock{succ}
		} else {
			sp.From = call
		}
		res := follow(sp)
		pos := p.instrPos(call)
		if res.At != nil {
			pos = p.instrPos(res.At)
		}
		c.verdictIf(res.OK, P, "all-fragments", key, pos, "appended or returned on every successful path",
			"a fragment read by ReadRecord can be left out of the record it returns ("+p.pathString(res.Witness)+"): a call sent as several record-marking fragments is truncated, fails to decode and the connection is closed without a reply")
	}
	if n == 0 {
		c.undecided(P, "all-fragments", "fn=ReadRecord", p.pos(rr.Pos()), "no fragment ReadFull found in ReadRecord")
	}
}

// --- C30/no-static-cert --------------------------------------------------------
// The listener's tls.Config serves certificates only through GetCertificate
// (which reads the rotating cell).  A static Certificates list is used by
// crypto/tls for every ClientHello without SNI, so those clients never see a
// reloaded certificate.
func runC30NoStaticCert(c *Ctx) {
	p := c.P
	const P = "C30"
	c.rule(P, "no-static-cert", "BuildConfig's tls.Config has no static Certificates next to GetCertificate", 1)
	bc := p.Fn("(*TLSConfig).BuildConfig")
	if bc == nil {
		c.undecided(P, "no-static-cert", "fn=BuildConfig", "", "not found")
		return
	}
	var bad ssa.Instruction
	hasGet := false
	for _, fn := range append([]*ssa.Function{bc}, bc.AnonFuncs...) {
		for _, b := range fn.Blocks {
			for _, in := range b.Instrs {
				st, ok := in.(*ssa.Store)
				if !ok {
					continue
				}
				base, f, isFA := fieldAddrOf(st.Addr)
				if !isFA || f == nil || !strings.HasSuffix(base.Type().String(), "crypto/tls.Config") {
					continue
				}
				switch f.Name() {
				case "Certificates", "NameToCertificate":
					if !isNilConst(st.Val) {
						bad = in
					}
				case "GetCertificate":
					hasGet = true
				}
			}
		}
	}
	pos := p.pos(bc.Pos())
	if bad != nil {
		pos = p.instrPos(bad)
	}
	c.verdictIf(bad == nil && hasGet, P, "no-static-cert", "fn=BuildConfig certificates-only-via-callback", pos, "certificates come only from the GetCertificate callback",
		"the tls.Config carries a static certificate list (or has no GetCertificate callback): crypto/tls answers every ClientHello without a server name from that list, so after ReloadCertificates clients that connect by IP address keep getting the old certificate")
}
