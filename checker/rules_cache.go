package main

// rules_cache.go: C01/inval and C02/inval, C02/neg-put — cache invalidation
// after every backend mutation the server itself completes.

import (
	"fmt"
	"go/types"
	"strings"

	"golang.org/x/tools/go/ssa"
)

type mutation struct {
	Fn    *ssa.Function
	Call  ssa.CallInstruction
	Class string   // "data" | "ns-create" | "ns-remove" | "ns-rename"
	Paths []*pexpr // affected paths (child paths)
	Desc  string
}

// backendPathArg returns the index of path arguments of an FS-level method.
func nsMutationPaths(bc *backendCall) (class string, idx []int) {
	switch bc.Method {
	case "Create", "Mkdir", "MkdirAll":
		return "ns-create", []int{0}
	case "OpenFile":
		fl, ok := openFlagConst(bc.Instr)
		if ok && fl&oCREATE != 0 {
			return "ns-create", []int{0}
		}
		if !ok {
			return "ns-create", []int{0} // non-constant flag: assume it may create
		}
		return "", nil
	case "Symlink":
		return "ns-create", []int{1}
	case "Remove", "RemoveAll":
		return "ns-remove", []int{0}
	case "Rename":
		return "ns-rename", []int{0, 1}
	}
	return "", nil
}

// filePathOf: for a call on an absfs.File receiver, the path expression the
// file was opened with (arg 0 of the OpenFile/Create/Open that produced it).
func filePathOf(p *Prog, recv ssa.Value) *pexpr {
	fl := newFlow(p)
	for _, o := range fl.Origins(recv) {
		if o.Kind == "call" && o.Call != nil {
			if bc := asBackendCall(o.Call); bc != nil && !bc.OnFile && (bc.Method == "OpenFile" || bc.Method == "Create" || bc.Method == "Open") {
				return mkExpr(bc.Instr.Common().Args[0])
			}
		}
	}
	return nil
}

func (p *Prog) enumerateMutations(reach map[*ssa.Function]bool) []mutation {
	var out []mutation
	for _, fn := range p.SrcFuncs {
		if !reach[fn] {
			continue
		}
		for _, call := range calls(fn) {
			bc := asBackendCall(call)
			if bc == nil {
				continue
			}
			args := call.Common().Args
			if bc.OnFile {
				if mutatingFile[bc.Method] {
					m := mutation{Fn: fn, Call: call, Class: "data", Desc: "File." + bc.Method}
					if e := filePathOf(p, call.Common().Value); e != nil {
						m.Paths = []*pexpr{e}
					}
					out = append(out, m)
				}
				continue
			}
			if bc.Method == "Truncate" {
				out = append(out, mutation{Fn: fn, Call: call, Class: "data", Desc: "FS.Truncate", Paths: []*pexpr{mkExpr(args[0])}})
				continue
			}
			if bc.Method == "OpenFile" {
				if fl, ok := openFlagConst(call); ok && fl&oTRUNC != 0 { // O_TRUNC
					out = append(out, mutation{Fn: fn, Call: call, Class: "data", Desc: "FS.OpenFile(O_TRUNC)", Paths: []*pexpr{mkExpr(args[0])}})
				}
			}
			class, idx := nsMutationPaths(bc)
			if class == "" {
				continue
			}
			m := mutation{Fn: fn, Call: call, Class: class, Desc: "FS." + bc.Method}
			for _, i := range idx {
				m.Paths = append(m.Paths, mkExpr(args[i]))
			}
			out = append(out, m)
		}
	}
	return out
}

type closerSpec struct {
	Name   string
	Callee string // qualified method name, e.g. (*absnfs.AttrCache).Invalidate
	Alt    string // alternative callee accepted (e.g. InvalidateNegativeInDir) or ""
	Arg    *pexpr
	NilOK  bool // optional component: `if x != nil` guard accepted
}

func init() {
	register("C01",
		"Decided (structure only): (inval) every backend data mutation reachable from a procedure handler (File.Write/WriteAt/WriteString/Truncate, FS.Truncate, truncating opens) is followed on every path from its success edge to the reply by AttrCache.Invalidate of the same path, before any attribute-cache read, also across wrapper calls; (wcount) the WRITE3resok count word derives from the integer the backend write returned and not from the request; (rdata) the READ3resok count, opaque length and bytes are one slice that derives from the backend ReadAt result, clamped by TransferSize and by size-offset; (eof) the eof word is selected by a comparison of offset+len(data) against the post-read size with >=; (trunc-first) SETATTR applies size before other attributes. Not decided: byte-for-byte equality with a file model, the numeric value of min(...), sparse/overlapping write histories, offsets near 2^63 — these quantify over run-time values and belong to a model-based technique.",
		commonAssume, runC01)
	register("C02",
		"Decided (structure only): (inval) after every namespace mutation the server completes (Create, OpenFile|O_CREATE, Mkdir(All), Symlink, Remove(All), Rename) every path from the mutation's success edge to the handler's reply invalidates the attribute-cache entry of each affected child path (which also removes a negative entry) and of each parent directory, and the directory-cache entry of each parent (nil-guard idiom accepted), before any cache read on that path; obligations a function leaves open move to its callers with parameters substituted; (neg-put) negative entries are created only on an is-not-exist edge of a backend Lstat failure; (neg-hit) a negative hit is reported as not-exist; (dir-put) DirCache.Put stores only what the backend Readdir just returned. after a Rename additionally the whole cached subtree at or below the old and the new name is dropped from both caches (InvalidateTree), since a renamed directory takes its descendants with it. Not decided: agreement of every reply with a POSIX tree model, TTL behaviour.",
		commonAssume, runC02)
}

func cacheReaderSet(p *Prog) map[*ssa.Function]bool {
	t := map[*ssa.Function]bool{}
	for _, k := range []string{"(*AttrCache).Get", "(*DirCache).Get"} {
		if f := p.Fn(k); f != nil {
			t[f] = true
		}
	}
	return p.transitiveCallers(t)
}

func runC01(c *Ctx) {
	c.rule("C01", "inval", "T-PAIR: backend data mutation ⇒ AttrCache.Invalidate(same path) on every path from the success edge to the reply, before any cache read; lifted through wrappers", 2)
	runInval(c, "C01", "data")
	runC01Slots(c)
	runC01AttrFresh(c, "C01")
	runReadSize(c, "C01")
	runC01TruncAsked(c, "C01")
}

func runC02(c *Ctx) {
	c.rule("C02", "inval", "T-PAIR: namespace mutation ⇒ AttrCache.Invalidate(child), AttrCache.Invalidate(parent), DirCache.Invalidate(parent) on every path from the success edge to the reply, before any cache read; lifted through wrappers", 15)
	runInval(c, "C02", "ns")
	runC02Extra(c)
	// the node behind a handle is a per-handle cache of the object's type (shared with C05)
	runC05Atomic(c, "C02")
	runC02TreeScan(c, "C02")
	runCacheKeyAgreement(c, "C02")
}

func runInval(c *Ctx, prop, family string) {
	p := c.P
	ent, err := p.entrySet()
	if err != nil {
		c.undecided(prop, "inval", "entries", "", err.Error())
		return
	}
	isEntry := map[*ssa.Function]bool{}
	for _, f := range ent.procEntries() {
		isEntry[f] = true
	}
	reach := p.reachableFrom(ent.procEntries())
	readers := cacheReaderSet(p)
	dirCacheFld := p.field("AbsfsNFS", "dirCache")
	if dirCacheFld == nil {
		c.undecided(prop, "inval", "binding:AbsfsNFS.dirCache", "", "field not found")
		return
	}
	isDirCacheLoad := func(v ssa.Value) bool {
		_, f, ok := fieldLoad(v)
		return ok && f == dirCacheFld
	}
	attrInv := "(*" + absnfsPath + ".AttrCache).Invalidate"
	dirInv := "(*" + absnfsPath + ".DirCache).Invalidate"
	attrTree := "(*" + absnfsPath + ".AttrCache).InvalidateTree"
	dirTree := "(*" + absnfsPath + ".DirCache).InvalidateTree"

	for _, m := range p.enumerateMutations(reach) {
		if (family == "data") != (m.Class == "data") {
			continue
		}
		baseKey := fmt.Sprintf("mut=%s:%s#%d", fnKey(m.Fn), shortCallee(m.Call), ordinal(m.Fn, m.Call))
		if len(m.Paths) == 0 {
			c.undecided(prop, "inval", baseKey, p.instrPos(m.Call), "cannot determine which path this "+m.Desc+" affects")
			continue
		}
		// rollback idiom: Remove(p) of a path this function itself created earlier (dominating creator of the same path expression)
		if m.Class == "ns-remove" && isRollbackOfOwnCreate(p, m) {
			c.ok(prop, "inval", baseKey+" rollback", p.instrPos(m.Call), "removes the object this request created moments earlier (dominating creator of the same path); no cache entry can have been made in between")
			continue
		}
		var closers []closerSpec
		for i, child := range m.Paths {
			tag := ""
			if len(m.Paths) > 1 {
				tag = fmt.Sprintf("[%d]", i)
			}
			closers = append(closers, closerSpec{Name: "attr(child" + tag + ")", Callee: attrInv, Alt: attrTree, Arg: child})
			if bc := asBackendCall(m.Call); family == "ns" && bc != nil && bc.Method == "Rename" {
				// a renamed directory takes its subtree with it: everything cached at or below both names goes
				closers = append(closers, closerSpec{Name: "attr-subtree(child" + tag + ")", Callee: attrTree, Arg: child})
				closers = append(closers, closerSpec{Name: "dir-subtree(child" + tag + ")", Callee: dirTree, Arg: child, NilOK: true})
			}
			if family == "ns" {
				par := child.parentOf()
				if par == nil {
					c.undecided(prop, "inval", baseKey+" parent"+tag, p.instrPos(m.Call), "mutated path "+child.String()+" is not built as Join/sanitizePath(dir, name): parent directory unknown")
					continue
				}
				closers = append(closers, closerSpec{Name: "attr(parent" + tag + ")", Callee: attrInv, Arg: par})
				closers = append(closers, closerSpec{Name: "dir(parent" + tag + ")", Callee: dirInv, Arg: par, NilOK: true})
			}
		}
		for _, cl := range closers {
			key := baseKey + " need=" + cl.Name
			res := p.checkCloser(m.Fn, m.Call, cl, readers, isDirCacheLoad, isEntry, reach, 0)
			if res.ok {
				c.ok(prop, "inval", key, p.instrPos(m.Call), m.Desc+" of "+cl.Arg.String()+": invalidated on all success paths"+res.note)
			} else {
				c.bad(prop, "inval", key, p.instrPos(m.Call), m.Desc+" succeeds but "+res.why)
			}
		}
	}
}

type closerResult struct {
	ok   bool
	why  string
	note string
}

func isRollbackOfOwnCreate(p *Prog, m mutation) bool {
	// the removal sits in a function literal of the creating function (a deferred rollback): every
	// registration or call of the literal must come after a creator of the same captured path
	if par := m.Fn.Parent(); par != nil && len(m.Call.Common().Args) > 0 {
		bind, deref := freeBinding(m.Fn, m.Call.Common().Args[0])
		if bind == nil {
			return false
		}
		for _, call := range calls(par) {
			bc := asBackendCall(call)
			if bc == nil || bc.OnFile {
				continue
			}
			class, idx := nsMutationPaths(bc)
			if class != "ns-create" || len(idx) == 0 {
				continue
			}
			arg := call.Common().Args[idx[0]]
			same := arg == bind
			if deref {
				u, isU := arg.(*ssa.UnOp)
				same = isU && u.X == bind
			}
			if !same {
				continue
			}
			after, uses := true, 0
			for _, mc := range closuresOf(par, m.Fn) {
				for _, r := range *mc.Referrers() {
					var ub *ssa.BasicBlock
					switch u := r.(type) {
					case *ssa.Defer:
						ub = u.Block()
					case *ssa.Call:
						ub = u.Block()
					case *ssa.DebugRef:
						continue
					default:
						after = false
						continue
					}
					uses++
					cb := call.Block()
					if !(cb == ub && instrIndex(call) < instrIndex(r) || cb != ub && cb.Dominates(ub)) {
						after = false
					}
				}
			}
			if after && uses > 0 {
				return true
			}
		}
		return false
	}
	for _, call := range calls(m.Fn) {
		if call == m.Call {
			continue
		}
		bc := asBackendCall(call)
		if bc == nil || bc.OnFile {
			continue
		}
		class, idx := nsMutationPaths(bc)
		if class != "ns-create" {
			continue
		}
		if !mkExpr(call.Common().Args[idx[0]]).equal(m.Paths[0]) {
			continue
		}
		cb, mb := call.Block(), m.Call.Block()
		if cb == mb && instrIndex(call) < instrIndex(m.Call) || cb != mb && cb.Dominates(mb) {
			return true
		}
	}
	return false
}

// checkCloser: must-follow of one closer after `call` in fn; lifts to callers
// when the function returns without it and the path is parameter-rooted.
func (p *Prog) checkCloser(fn *ssa.Function, call ssa.CallInstruction, cl closerSpec, readers map[*ssa.Function]bool, isDirCacheLoad func(ssa.Value) bool, isEntry, reach map[*ssa.Function]bool, depth int) closerResult {
	var closesIn func(ci ssa.CallInstruction, want *pexpr, d int) bool
	closesIn = func(ci ssa.CallInstruction, want *pexpr, d int) bool {
		f := staticCallee(ci)
		if f == nil {
			return false
		}
		args := ci.Common().Args
		if qualFn(f) == cl.Callee || cl.Alt != "" && qualFn(f) == cl.Alt {
			return len(args) >= 2 && mkExpr(args[1]).equal(want)
		}
		// helper summary: an in-package callee that performs the invalidation of a
		// parameter-rooted path on all of its paths
		if d >= 2 || p.byName[fnKey(f)] != f || len(f.Blocks) == 0 {
			return false
		}
		m := map[ssa.Value]*pexpr{}
		for i, prm := range f.Params {
			if i < len(args) {
				m[prm] = mkExpr(args[i])
			}
		}
		inner := func(in ssa.Instruction) bool {
			c2, ok := in.(ssa.CallInstruction)
			if !ok {
				return false
			}
			f2 := staticCallee(c2)
			if f2 == nil {
				return false
			}
			a2 := c2.Common().Args
			if qualFn(f2) == cl.Callee || cl.Alt != "" && qualFn(f2) == cl.Alt {
				return len(a2) >= 2 && mkExpr(a2[1]).subst(m).equal(want)
			}
			return false
		}
		has := false
		for _, b := range f.Blocks {
			for _, in := range b.Instrs {
				if inner(in) {
					has = true
				}
			}
		}
		if !has {
			return false
		}
		sp := followSpec{Fn: f, Start: []*ssa.BasicBlock{f.Blocks[0]}, Closes: inner}
		if cl.NilOK {
			sp.StopEdge = nilFieldStop(isDirCacheLoad)
		}
		return follow(sp).OK
	}
	closes := func(in ssa.Instruction) bool {
		ci, ok := in.(ssa.CallInstruction)
		if !ok {
			return false
		}
		return closesIn(ci, cl.Arg, 0)
	}
	bad := func(in ssa.Instruction) bool {
		ci, ok := in.(ssa.CallInstruction)
		if !ok {
			return false
		}
		return p.callsInto(fn, ci, readers)
	}
	sp := followSpec{Fn: fn, Closes: closes, Bad: bad}
	nilStop := nilFieldStop(isDirCacheLoad)
	faultStop := p.backendFaultEdge(call)
	sp.StopEdge = func(from, to *ssa.BasicBlock) bool {
		if cl.NilOK && nilStop(from, to) {
			return true
		}
		return faultStop(from, to)
	}
	if succ, _, ok := errSuccessEdge(call); ok {
		sp.Start = []*ssa.BasicBlock{succ}
	} else {
		sp.From = call
	}
	out := follow(sp)
	if out.OK {
		return closerResult{ok: true}
	}
	where := ""
	if out.At != nil {
		where = " at " + p.instrPos(out.At)
	}
	if out.Why == "bad" {
		return closerResult{why: fmt.Sprintf("the caches are read (%s%s) before %s.%s(%s) on path %s — the reply can be computed from the stale entry", instrName(out.At), where, shortQual(cl.Callee), "", cl.Arg.String(), p.pathString(out.Witness))}
	}
	// exit without closer: lift if possible
	if !isEntry[fn] && cl.Arg.paramRooted(fn) && depth < 6 {
		sites := 0
		for _, cs := range p.callers[fn] {
			if !reach[cs.Caller] {
				continue
			}
			sites++
			m := map[ssa.Value]*pexpr{}
			args := cs.Instr.Common().Args
			for i, prm := range fn.Params {
				if i < len(args) {
					m[prm] = mkExpr(args[i])
				}
			}
			lifted := cl
			lifted.Arg = cl.Arg.subst(m)
			r := p.checkCloser(cs.Caller, cs.Instr, lifted, readers, isDirCacheLoad, isEntry, reach, depth+1)
			if !r.ok {
				return closerResult{why: r.why + " (obligation lifted from " + fnKey(fn) + ")"}
			}
		}
		if sites > 0 {
			return closerResult{ok: true, note: fmt.Sprintf(" (discharged at %d call site(s) of %s)", sites, fnKey(fn))}
		}
	}
	return closerResult{why: fmt.Sprintf("a path from its success edge returns%s without %s(%s): %s — a following request can be answered from the stale cache entry", where, shortQual(cl.Callee), cl.Arg.String(), p.pathString(out.Witness))}
}

// backendFaultEdge: the failure edge (err != nil) of a backend call other than
// `self`.  The cache properties quantify over histories and configurations,
// not over backend faults, so paths that need a later backend call to fail
// are outside the obligation.
func (p *Prog) backendFaultEdge(self ssa.CallInstruction) func(from, to *ssa.BasicBlock) bool {
	fl := newFlow(p)
	return func(from, to *ssa.BasicBlock) bool {
		for _, f := range edgeFacts(from, to) {
			bo, ok := f.V.(*ssa.BinOp)
			if !ok {
				continue
			}
			var v ssa.Value
			if isNilConst(bo.X) {
				v = bo.Y
			} else if isNilConst(bo.Y) {
				v = bo.X
			} else {
				continue
			}
			nonNil := (bo.Op.String() == "!=" && f.Val) || (bo.Op.String() == "==" && !f.Val)
			if !nonNil {
				continue
			}
			if _, isErr := v.Type().Underlying().(*types.Interface); !isErr || v.Type().String() != "error" {
				continue
			}
			os := fl.Origins(v)
			all := len(os) > 0
			for _, o := range os {
				if o.Kind == "const" || o.Kind == "zero" {
					continue
				}
				if o.Kind == "call" && o.Call != nil && o.Call != self && asBackendCall(o.Call) != nil {
					continue
				}
				all = false
			}
			if all {
				return true
			}
			// error kept in a local cell (`err` captured by a deferred closure): only the
			// stores that can execute after the mutation succeeded matter — the mutation's
			// own error is nil on these paths
			if cell := cellOf(v); cell != nil {
				var after map[*ssa.BasicBlock]bool
				if succ, _, ok := errSuccessEdge(self); ok {
					after = reachAvoiding([]*ssa.BasicBlock{succ}, nil, nil)
				}
				n, okAll := 0, true
				forEachUseOfCell(cell, func(in ssa.Instruction, how string, c ssa.CallInstruction, argIdx int) {
					if how != "store" || after == nil || !after[in.Block()] || in.Parent() != self.Parent() {
						return
					}
					st := in.(*ssa.Store)
					if st.Block() == self.Block() && instrIndex(st) <= instrIndex(self)+3 {
						// the store of the mutation's own result right after the call
						for _, o := range fl.Origins(st.Val) {
							if o.Call == self {
								return
							}
						}
					}
					n++
					for _, o := range fl.Origins(st.Val) {
						if !(o.Kind == "call" && o.Call != nil && o.Call != self && asBackendCall(o.Call) != nil) {
							okAll = false
						}
					}
				})
				if n > 0 && okAll {
					return true
				}
			}
		}
		return false
	}
}

func shortQual(q string) string {
	q = strings.ReplaceAll(q, absnfsPath+".", "")
	return q
}

func instrName(in ssa.Instruction) string {
	if ci, ok := in.(ssa.CallInstruction); ok {
		return shortCallee(ci)
	}
	if in == nil {
		return "?"
	}
	return in.String()
}

// ---------------------------------------------------------------------------
// C02 extra rules

func runC02Extra(c *Ctx) {
	p := c.P
	const P = "C02"
	c.rule(P, "neg-put", "every AttrCache.PutNegative call is on the true edge of os.IsNotExist / errors.Is(err, ErrNotExist) of a failed backend Lstat/Stat", 1)
	c.rule(P, "neg-hit", "in LookupWithContext the negative-hit edge (found && attrs==nil) returns an error wrapping os.ErrNotExist and performs no backend call", 1)
	c.rule(P, "dir-put", "every DirCache.Put stores a value that originates from a backend Readdir call of the same directory path", 1)

	putNeg := "(*" + absnfsPath + ".AttrCache).PutNegative"
	n := 0
	for _, fn := range p.SrcFuncs {
		if strings.HasPrefix(fnKey(fn), "(*AttrCache)") {
			continue
		}
		for _, call := range calls(fn) {
			if !isCallTo(call, putNeg) {
				continue
			}
			n++
			key := fmt.Sprintf("site=%s:PutNegative#%d", fnKey(fn), ordinal(fn, call))
			ok := guardedBy(fn, call.Block(), func(f condFact) bool {
				if !f.Val {
					return false
				}
				ci, isCall := f.V.(*ssa.Call)
				if !isCall {
					return false
				}
				callee := staticCallee(ci)
				if callee == nil {
					return false
				}
				q := qualFn(callee)
				isTest := q == "os.IsNotExist"
				if q == "errors.Is" && len(ci.Call.Args) == 2 {
					if g, ok := unwrapLoadGlobal(ci.Call.Args[1]); ok && (g == "ErrNotExist") {
						isTest = true
					}
				}
				if !isTest || len(ci.Call.Args) == 0 {
					return false
				}
				// the error must be that of a backend Lstat: Stat follows links (a dangling link "does not
				// exist"), and a failed Remove/Open says nothing about what a later LOOKUP would find
				fl := newFlow(p)
				fl.ExpandParams = true
				os := fl.Origins(ci.Call.Args[0])
				if len(os) == 0 {
					return false
				}
				for _, o := range os {
					if o.Call == nil {
						return false
					}
					bc := asBackendCall(o.Call)
					if bc == nil || bc.OnFile || bc.Method != "Lstat" {
						return false
					}
				}
				return true
			})
			c.verdictIf(ok, P, "neg-put", key, p.instrPos(call), "only on the is-not-exist edge", "a negative entry can be stored for something other than the not-exist error of a backend Lstat of the name (another error, or the error of a link-following Stat or of a failed Remove): later lookups would report ENOENT for an existing object, e.g. a dangling symbolic link")
		}
	}

	// neg-hit: in LookupWithContext, find the AttrCache.Get call; the edge found==true && attrs==nil must return error containing os.ErrNotExist
	lw := p.Fn("(*AbsfsNFS).LookupWithContext")
	if lw == nil {
		c.undecided(P, "neg-hit", "fn=LookupWithContext", "", "function not found")
	} else {
		verdict, msg := checkNegHit(p, lw)
		switch verdict {
		case Discharged:
			c.ok(P, "neg-hit", "fn=LookupWithContext", p.pos(lw.Pos()), msg)
		case Violated:
			c.bad(P, "neg-hit", "fn=LookupWithContext", p.pos(lw.Pos()), msg)
		default:
			c.undecided(P, "neg-hit", "fn=LookupWithContext", p.pos(lw.Pos()), msg)
		}
	}

	// dir-put
	dirPut := "(*" + absnfsPath + ".DirCache).Put"
	fl := newFlow(p)
	for _, fn := range p.SrcFuncs {
		for _, call := range calls(fn) {
			if !isCallTo(call, dirPut) {
				continue
			}
			key := fmt.Sprintf("site=%s:DirCache.Put#%d", fnKey(fn), ordinal(fn, call))
			args := call.Common().Args
			os := fl.Origins(args[2])
			good := len(os) > 0
			var from *backendCall
			for _, o := range os {
				if o.Kind == "zero" || o.Kind == "const" {
					continue
				}
				if o.Kind == "call" && o.Call != nil {
					if bc := asBackendCall(o.Call); bc != nil && bc.OnFile && bc.Method == "Readdir" {
						from = bc
						continue
					}
				}
				good = false
			}
			if good && from != nil {
				// same directory: the file was opened with the same path as the Put key
				fp := filePathOf(p, from.Instr.Common().Value)
				if fp == nil || !fp.equal(mkExpr(args[1])) {
					good = false
				}
			} else {
				good = false
			}
			c.verdictIf(good, P, "dir-put", key, p.instrPos(call), "entries come from Readdir of the same directory", "directory cache is filled with something other than the backend listing of that directory: origins "+strings.Join(originDescs(os), ","))
		}
	}
}

func unwrapLoadGlobal(v ssa.Value) (string, bool) {
	v = unwrap(v)
	if u, ok := v.(*ssa.UnOp); ok {
		if g, ok := u.X.(*ssa.Global); ok {
			return g.Name(), true
		}
	}
	return "", false
}

func checkNegHit(p *Prog, fn *ssa.Function) (string, string) {
	getQ := "(*" + absnfsPath + ".AttrCache).Get"
	for _, call := range calls(fn) {
		if !isCallTo(call, getQ) {
			continue
		}
		cv := call.Value()
		if cv == nil {
			continue
		}
		var attrs, found ssa.Value
		for _, r := range *cv.Referrers() {
			if ex, ok := r.(*ssa.Extract); ok {
				if ex.Index == 0 {
					attrs = ex
				} else {
					found = ex
				}
			}
		}
		if attrs == nil || found == nil {
			return Undecided, "Get results not both used"
		}
		// find block(s) where facts found==true and attrs==nil hold
		n := 0
		for _, b := range fn.Blocks {
			facts := controllingFacts(fn, b)
			hasFound, hasNil := false, false
			for _, f := range facts {
				if f.V == found && f.Val {
					hasFound = true
				}
				if bo, ok := f.V.(*ssa.BinOp); ok && (bo.X == attrs && isNilConst(bo.Y) || bo.Y == attrs && isNilConst(bo.X)) {
					if (bo.Op.String() == "==" && f.Val) || (bo.Op.String() == "!=" && !f.Val) {
						hasNil = true
					}
				}
			}
			if !(hasFound && hasNil) {
				continue
			}
			n++
			for _, in := range b.Instrs {
				if ci, ok := in.(ssa.CallInstruction); ok && asBackendCall(ci) != nil {
					return Violated, "backend call on the negative-hit edge"
				}
				if r, ok := in.(*ssa.Return); ok {
					if len(r.Results) != 2 || isNilConst(r.Results[1]) {
						return Violated, "negative cache hit does not return an error at " + p.instrPos(in)
					}
					// error must wrap os.ErrNotExist: look for load of global os.ErrNotExist among origins
					fl := newFlow(p)
					okv := false
					for _, o := range fl.Origins(r.Results[1]) {
						if o.Kind == "call" && o.Call != nil {
							for _, a := range variadicArgs(o.Call.(*ssa.Call)) {
								for _, oo := range fl.Origins(a) {
									if oo.Desc == "global:ErrNotExist" {
										okv = true
									}
								}
							}
						}
						if o.Desc == "global:ErrNotExist" {
							okv = true
						}
					}
					if !okv {
						return Violated, "negative cache hit returns an error that does not wrap os.ErrNotExist at " + p.instrPos(in) + ": LOOKUP would map it to a status other than NOENT"
					}
				}
			}
		}
		if n == 0 {
			return Undecided, "no block controlled by (found && attrs == nil) after AttrCache.Get"
		}
		return Discharged, "negative hit returns an error wrapping os.ErrNotExist without touching the backend"
	}
	return Undecided, "no AttrCache.Get call in LookupWithContext"
}
