package main

// linear.go: tiny linear-form normaliser over SSA integer values, used where a rule needs to recognise the
// same arithmetic fact written in different ways (remaining == n  vs  len(data)-offset == n  vs
// offset+n == len(data)).

import (
	"go/token"

	"golang.org/x/tools/go/ssa"
)

type symKey struct {
	v     ssa.Value
	isLen bool // len(v)
}

type linForm struct {
	terms map[symKey]int64
	k     int64
}

func (a linForm) add(b linForm, sign int64) linForm {
	out := linForm{terms: map[symKey]int64{}, k: a.k + sign*b.k}
	for s, c := range a.terms {
		out.terms[s] += c
	}
	for s, c := range b.terms {
		out.terms[s] += sign * c
	}
	for s, c := range out.terms {
		if c == 0 {
			delete(out.terms, s)
		}
	}
	return out
}

func linOf(v ssa.Value, depth int) linForm {
	v = unwrap(v)
	if k, ok := constInt(v); ok {
		return linForm{terms: map[symKey]int64{}, k: k}
	}
	if depth < 8 {
		switch x := v.(type) {
		case *ssa.BinOp:
			if x.Op == token.ADD {
				return linOf(x.X, depth+1).add(linOf(x.Y, depth+1), 1)
			}
			if x.Op == token.SUB {
				return linOf(x.X, depth+1).add(linOf(x.Y, depth+1), -1)
			}
		case *ssa.Call:
			if b, ok := x.Call.Value.(*ssa.Builtin); ok && b.Name() == "len" && len(x.Call.Args) == 1 {
				return linForm{terms: map[symKey]int64{{unwrap(x.Call.Args[0]), true}: 1}}
			}
		}
	}
	return linForm{terms: map[symKey]int64{{v, false}: 1}}
}

// exhaustsLinear: does `l op r` say "the data left equals this fragment"?  Recognised shapes, with L = len(p)
// of a parameter, O an offset phi (0, then O+F), R a remaining phi (L, then R-F) and F any value:
//
//	R - F == 0        L - O - F == 0        (and the one-sided forms O+F >= L, L-O <= F, R <= F)
func exhaustsLinear(l, r ssa.Value, op string) bool {
	d := linOf(l, 0).add(linOf(r, 0), -1) // l - r
	if d.k != 0 {
		return false
	}
	try := func(sign int64) bool {
		// want sign*d == (rest) - F with rest = R or L - O
		var lens, phisPos, neg []symKey
		for s, c := range d.terms {
			c *= sign
			switch {
			case c == 1 && s.isLen:
				lens = append(lens, s)
			case c == 1:
				phisPos = append(phisPos, s)
			case c == -1 && !s.isLen:
				neg = append(neg, s)
			default:
				return false
			}
		}
		isParam := func(v ssa.Value) bool { _, ok := v.(*ssa.Parameter); return ok }
		// R - F
		if len(lens) == 0 && len(phisPos) == 1 && len(neg) == 1 {
			R, F := phisPos[0].v, neg[0].v
			if phi, ok := R.(*ssa.Phi); ok {
				dec, init := false, false
				for _, e := range phi.Edges {
					le := linOf(e, 0)
					if len(le.terms) == 1 && le.k == 0 {
						for s := range le.terms {
							if s.isLen && isParam(s.v) {
								init = true
							}
						}
					}
					want := linForm{terms: map[symKey]int64{{R, false}: 1, {F, false}: -1}}
					if diff := le.add(want, -1); len(diff.terms) == 0 && diff.k == 0 {
						dec = true
					}
				}
				return dec && init
			}
			return false
		}
		// len(S) - F with S the not yet written rest of the data: S = phi(param, S[F:])
		if len(lens) == 1 && !isParam(lens[0].v) && len(phisPos) == 0 && len(neg) == 1 {
			S, F := lens[0].v, neg[0].v
			if phi, ok := S.(*ssa.Phi); ok {
				init, adv := false, false
				for _, e := range phi.Edges {
					e = unwrap(e)
					if isParam(e) {
						init = true
						continue
					}
					if sl, ok := e.(*ssa.Slice); ok && unwrap(sl.X) == S && sl.High == nil && sl.Low != nil {
						if diff := linOf(sl.Low, 0).add(linForm{terms: map[symKey]int64{{F, false}: 1}}, -1); len(diff.terms) == 0 && diff.k == 0 {
							adv = true
						}
					}
				}
				return init && adv
			}
			return false
		}
		// L - O - F
		if len(lens) == 1 && isParam(lens[0].v) && len(phisPos) == 0 && len(neg) == 2 {
			for i := 0; i < 2; i++ {
				O, F := neg[i].v, neg[1-i].v
				phi, ok := O.(*ssa.Phi)
				if !ok {
					continue
				}
				zero, inc := false, false
				for _, e := range phi.Edges {
					le := linOf(e, 0)
					if len(le.terms) == 0 && le.k == 0 {
						zero = true
					}
					want := linForm{terms: map[symKey]int64{{O, false}: 1, {F, false}: 1}}
					if diff := le.add(want, -1); len(diff.terms) == 0 && diff.k == 0 {
						inc = true
					}
				}
				if zero && inc {
					return true
				}
			}
		}
		return false
	}
	switch op {
	case "==":
		return try(1) || try(-1)
	case "<=": // l - r <= 0 : rest - F <= 0
		return try(1)
	case ">=": // l - r >= 0 : F - rest >= 0
		return try(-1)
	}
	return false
}
