package main

import (
	"fmt"
	"strings"

	"golang.org/x/tools/go/ssa"
)

func init() {
	register("C16",
		"Decided (the lock discipline that implements drain-and-swap): (admit) in HandleCall every path from the success edge of policyRWMu.TryRLock releases the read lock exactly once — by RUnlock before returning, or by handing it to the single worker goroutine whose first deferred call is RUnlock — never both, never neither, and nothing in HandleCall itself (directly, deferred, or through a function value such as sync.OnceFunc) releases it after the hand-off, so the lock is held until the goroutine's backend work ends; the failing edge builds its retry-later reply without reading policy; (swap) policy.Store and stores to the rate limiter happen only in UpdatePolicyOptions (and constructors), with policyMu and policyRWMu.Lock held and no return while the write lock is held; (snapshot) the stored PolicyOptions gets fresh copies of AllowedIPs, RateLimitConfig and TLS; (limiter-read) the plain pointer AbsfsNFS.rateLimiter — rewritten under the write lock — is read only inside the admitted extent of a request (functions reachable only through the worker goroutine), so a connection opened before an update cannot keep using an older limiter or none, and the read cannot race with the update; (policy-read) procedure handlers and operations load the atomic policy only inside that extent. Not decided: the bounded-interleaving exploration itself, timing of the retry window, fairness of sync.RWMutex.",
		commonAssume, runC16)
}

// atomicPtrOp: call is (*sync/atomic.Pointer[T]).<op>
func atomicPtrOp(ci ssa.CallInstruction, op string) bool {
	f := staticCallee(ci)
	if f == nil {
		return false
	}
	return qualFn(f) == "(*sync/atomic.Pointer)."+op
}

// isPolicyRWMu: receiver is &handler.policyRWMu
func isMutexField(v ssa.Value, field string) bool {
	fa, ok := v.(*ssa.FieldAddr)
	if !ok {
		return false
	}
	f := fieldOf(fa.X.Type(), fa.Field)
	return f != nil && f.Name() == field
}

// releaseKind classifies an instruction as a release of policyRWMu's read lock.
// direct: (*sync.RWMutex).RUnlock(&x.policyRWMu); indirect: call of a function
// value whose origins include a bound RUnlock method value or sync.OnceFunc.
func releaseKind(p *Prog, in ssa.Instruction) string {
	ci, ok := in.(ssa.CallInstruction)
	if !ok {
		return ""
	}
	cc := ci.Common()
	if f := staticCallee(ci); f != nil {
		if qualFn(f) == "(*sync.RWMutex).RUnlock" && len(cc.Args) > 0 && isMutexField(cc.Args[0], "policyRWMu") {
			return "direct"
		}
		if f.Synthetic != "" && strings.Contains(f.Name(), "RUnlock") { // bound method wrapper
			return "direct"
		}
		return ""
	}
	if cc.IsInvoke() {
		return ""
	}
	if _, isB := cc.Value.(*ssa.Builtin); isB {
		return ""
	}
	// dynamic call of a func value
	for _, o := range newFlow(p).Origins(cc.Value) {
		if strings.Contains(o.Desc, "RUnlock") || strings.Contains(o.Desc, "sync.OnceFunc") || strings.Contains(o.Desc, "sync.Once") {
			return "indirect"
		}
	}
	return ""
}

func runC16(c *Ctx) { runC16As(c, "C16") }

// runC16As evaluates the drain-and-swap rules, reporting them under property P
// (C08 borrows admit+swap: its guard rule assumes the policy cannot change
// while a request runs).
func runC16As(c *Ctx, P string) {
	p := c.P
	c.rule(P, "admit", "T-PAIR: from TryRLock success, exactly one release per path (RUnlock before return, or hand-off to the goroutine whose first defer is RUnlock); no release in HandleCall after the hand-off; failing edge does not read policy", 3)
	c.rule(P, "swap", "policy.Store / rateLimiter stores only in UpdatePolicyOptions under policyMu + policyRWMu.Lock, no return while the write lock is held", 4)
	c.rule(P, "snapshot", "stored policy owns fresh copies of AllowedIPs, RateLimitConfig, TLS", 3)
	c.rule(P, "limiter-read", "AbsfsNFS.rateLimiter is read only inside the admitted extent of a request", 5)
	c.rule(P, "policy-read", "handlers/operations load the policy pointer only inside the admitted extent", 10)
	runC16AdmitFirst(c, P)

	ent, err := p.entrySet()
	if err != nil {
		c.undecided(P, "admit", "entries", "", err.Error())
		return
	}
	hc := ent.HandleCall
	// --- admit
	var try *ssa.Call
	for _, call := range calls(hc) {
		if f := staticCallee(call); f != nil && qualFn(f) == "(*sync.RWMutex).TryRLock" && isMutexField(call.Common().Args[0], "policyRWMu") {
			try, _ = call.(*ssa.Call)
		}
	}
	if try == nil {
		c.bad(P, "admit", "call=TryRLock", p.pos(hc.Pos()), "HandleCall does not try-acquire policyRWMu: requests are not excluded during a policy swap")
	} else {
		var succ, fail *ssa.BasicBlock
		for _, r := range *try.Referrers() {
			if ifi, ok := r.(*ssa.If); ok {
				succ, fail = ifi.Block().Succs[0], ifi.Block().Succs[1]
			}
			if u, ok := r.(*ssa.UnOp); ok {
				for _, r2 := range *u.Referrers() {
					if ifi, ok := r2.(*ssa.If); ok {
						succ, fail = ifi.Block().Succs[1], ifi.Block().Succs[0]
					}
				}
			}
		}
		if succ == nil {
			c.bad(P, "admit", "call=TryRLock", p.instrPos(try), "result of TryRLock is not branched on")
		} else {
			isGo := func(in ssa.Instruction) bool { _, ok := in.(*ssa.Go); return ok }
			isRel := func(in ssa.Instruction) bool { return releaseKind(p, in) != "" }
			// at least one
			res := follow(followSpec{Fn: hc, Start: []*ssa.BasicBlock{succ}, Closes: func(in ssa.Instruction) bool {
				if _, isDefer := in.(*ssa.Defer); isDefer {
					return false
				}
				return isGo(in) || isRel(in)
			}})
			c.verdictIf(res.OK, P, "admit", "path=at-least-one-release", p.instrPos(try), "every admitted path releases or hands off the read lock", "a path from TryRLock success returns without releasing the policy read lock (and without handing it to the worker): the next policy update blocks forever — "+p.pathString(res.Witness))
			// at most one: after each closer nothing else
			n := 0
			for _, b := range hc.Blocks {
				for _, in := range b.Instrs {
					if _, isDefer := in.(*ssa.Defer); isDefer {
						if isRel(in) {
							c.bad(P, "admit", "defer=release-in-HandleCall", p.instrPos(in), "HandleCall defers a release of the policy read lock: on the timeout path it is dropped while the worker goroutine is still executing backend operations, so an update can return while an older request still runs")
						}
						continue
					}
					if !(isGo(in) || isRel(in)) {
						continue
					}
					n++
					kind := "RUnlock"
					if isGo(in) {
						kind = "hand-off"
					}
					r2 := follow(followSpec{Fn: hc, From: in, Closes: func(ssa.Instruction) bool { return false }, ExitOK: func(*ssa.Return) bool { return true },
						Bad: func(x ssa.Instruction) bool {
							if _, isDefer := x.(*ssa.Defer); isDefer {
								return false
							}
							return isGo(x) || isRel(x)
						}})
					key := fmt.Sprintf("after=%s#%d", kind, n)
					c.verdictIf(r2.OK, P, "admit", key, p.instrPos(in), "nothing else releases the lock afterwards", "after the "+kind+" the read lock can be released again in HandleCall (at "+p.instrPos(r2.At)+"): the worker goroutine then runs without the lock that makes policy updates wait for it")
				}
			}
			// the goroutine: first deferred call is RUnlock
			for _, b := range hc.Blocks {
				for _, in := range b.Instrs {
					g, ok := in.(*ssa.Go)
					if !ok {
						continue
					}
					clo := p.funcValue(g.Call.Value)
					good := false
					if clo != nil && len(clo.Blocks) > 0 {
						for _, x := range clo.Blocks[0].Instrs {
							if _, isCall := x.(ssa.CallInstruction); !isCall {
								continue
							}
							if d, isDefer := x.(*ssa.Defer); isDefer && releaseKind(p, d) == "direct" {
								good = true
							}
							break // only the first call instruction counts
						}
						// no other release inside the closure
						for _, cb := range clo.Blocks {
							for _, x := range cb.Instrs {
								if _, isDefer := x.(*ssa.Defer); !isDefer && releaseKind(p, x) != "" {
									good = false
								}
							}
						}
					}
					c.verdictIf(good, P, "admit", "goroutine=first-defer-RUnlock", p.instrPos(in), "worker owns the lock until its work ends", "the worker goroutine does not start with `defer policyRWMu.RUnlock()` (or releases earlier): the lock is not held for the duration of the backend work")
				}
			}
			// failing edge: no snapshotOptions / policy load
			badFail := ""
			seen := map[*ssa.BasicBlock]bool{}
			var walk func(b *ssa.BasicBlock)
			walk = func(b *ssa.BasicBlock) {
				if seen[b] {
					return
				}
				seen[b] = true
				for _, in := range b.Instrs {
					if ci, ok := in.(ssa.CallInstruction); ok {
						// a blocking RLock of the policy lock admits the request after the drain: from here on it is an admitted path
						if f := staticCallee(ci); f != nil && qualFn(f) == "(*sync.RWMutex).RLock" && len(ci.Common().Args) > 0 && isMutexField(ci.Common().Args[0], "policyRWMu") {
							return
						}
						if f := staticCallee(ci); f != nil && (f.Name() == "snapshotOptions" || atomicPtrOp(ci, "Load")) {
							badFail = p.instrPos(in)
						}
						if isGo(in) {
							badFail = p.instrPos(in)
						}
					}
					if _, ok := in.(*ssa.Return); ok {
						return
					}
				}
				for _, s := range b.Succs {
					walk(s)
				}
			}
			walk(fail)
			c.verdictIf(badFail == "", P, "admit", "edge=TryRLock-failed", p.instrPos(try), "retry-later reply without reading policy or starting work", "the not-admitted edge reads policy or starts work at "+badFail)
		}
	}

	// --- swap
	li := p.lockInfo()
	upd := p.Fn("(*AbsfsNFS).UpdatePolicyOptions")
	rlFld := p.field("AbsfsNFS", "rateLimiter")
	nStore := 0
	for _, fn := range p.SrcFuncs {
		for _, b := range fn.Blocks {
			for _, in := range b.Instrs {
				isPolicyStore := false
				if ci, ok := in.(ssa.CallInstruction); ok {
					if atomicPtrOp(ci, "Store") && len(ci.Common().Args) > 0 && isMutexField(ci.Common().Args[0], "policy") {
						isPolicyStore = true
					}
				}
				isRLStore := false
				if st, ok := in.(*ssa.Store); ok {
					if base, f, ok := fieldAddrOf(st.Addr); ok && f == rlFld && !isFresh(base) {
						isRLStore = true
					}
				}
				if ci, ok := in.(ssa.CallInstruction); ok && atomicPtrOp(ci, "Store") && len(ci.Common().Args) > 0 && isMutexField(ci.Common().Args[0], "rateLimiter") {
					if fa, ok := ci.Common().Args[0].(*ssa.FieldAddr); ok && !isFresh(fa.X) {
						isRLStore = true
					}
				}
				if !isPolicyStore && !isRLStore {
					continue
				}
				nStore++
				what := "policy.Store"
				if isRLStore {
					what = "rateLimiter="
				}
				key := fmt.Sprintf("store=%s:%s#%d", fnKey(fn), what, nStore)
				if fn != upd {
					if fnKey(fn) == "(*AbsfsNFS).initAtomicOptions" || fnKey(fn) == "New" {
						c.ok(P, "swap", key, p.instrPos(in), "constructor")
						continue
					}
					c.bad(P, "swap", key, p.instrPos(in), "the policy (or its rate limiter) is replaced outside UpdatePolicyOptions: requests in flight are not drained first")
					continue
				}
				st := li.stateAt(in)
				hasW, hasMu := false, false
				for id, m := range st {
					if id.Class == "AbsfsNFS.policyRWMu" && m == 'W' {
						hasW = true
					}
					if id.Class == "AbsfsNFS.policyMu" {
						hasMu = true
					}
				}
				c.verdictIf(hasW && hasMu, P, "swap", key, p.instrPos(in), "under policyMu and policyRWMu.Lock", "swap happens without the drain lock held (held: "+st.String()+"): a request can observe two policies or race with the update")
			}
		}
	}
	if upd != nil {
		okRet := true
		for _, b := range upd.Blocks {
			for _, in := range b.Instrs {
				if _, ok := in.(*ssa.Return); ok {
					for id, m := range li.stateAt(in) {
						if id.Class == "AbsfsNFS.policyRWMu" && m == 'W' {
							okRet = false
						}
					}
				}
			}
		}
		c.verdictIf(okRet, P, "swap", "fn=UpdatePolicyOptions no-return-under-write-lock", p.pos(upd.Pos()), "write lock released on every return", "UpdatePolicyOptions can return while still holding policyRWMu.Lock: every later request is refused forever")
		runC16StoresOnSuccess(c, P, upd)
		if P == "C16" {
			runC16LimiterFresh(c, P, upd)
		}

		// --- snapshot
		fl := newFlow(p)
		flDeep := newFlow(p)
		flDeep.ThroughInPkg = true // second attempt: copies made by a small in-package (possibly generic) clone helper
		for _, b := range upd.Blocks {
			for _, in := range b.Instrs {
				ci, ok := in.(ssa.CallInstruction)
				if !ok {
					continue
				}
				if !atomicPtrOp(ci, "Store") || !isMutexField(ci.Common().Args[0], "policy") {
					continue
				}
				snap, ok := ci.Common().Args[1].(*ssa.Alloc)
				if !ok {
					c.undecided(P, "snapshot", "value=stored-policy", p.instrPos(in), "stored policy is not a local record")
					continue
				}
				for _, fname := range []string{"AllowedIPs", "RateLimitConfig", "TLS"} {
					fld := p.field("PolicyOptions", fname)
					stores := fieldStores(snap, fld)
					good := len(stores) > 0
					for _, v := range stores {
						for _, o := range fl.Origins(v) {
							fresh := o.Kind == "make" || o.Kind == "alloc" || (o.Kind == "call" && strings.Contains(o.Desc, "Clone")) || (o.Kind == "outparam" && strings.Contains(o.Desc, "builtin:copy"))
							// the same field of the server's own previous snapshot (itself deep-copied when it was stored)
							if !fresh && o.Kind == "field" && o.Fld == fld {
								if u, ok := unwrap(o.Val).(*ssa.UnOp); ok {
									if fa, ok := u.X.(*ssa.FieldAddr); ok {
										if call, ok := unwrap(fa.X).(*ssa.Call); ok && atomicPtrOp(call, "Load") && isMutexField(call.Call.Args[0], "policy") {
											fresh = true
										}
									}
								}
							}
							if !fresh {
								good = false
							}
						}
					}
					if !good && len(stores) > 0 {
						// the copy may be made by an in-package helper (clonePtr[T]): look through it
						good = true
						for _, v := range stores {
							for _, o := range flDeep.Origins(v) {
								fresh := o.Kind == "make" || o.Kind == "alloc" || o.Kind == "zero" || o.Kind == "const" || (o.Kind == "call" && strings.Contains(o.Desc, "Clone")) || (o.Kind == "outparam" && strings.Contains(o.Desc, "builtin:copy"))
								if !fresh {
									good = false
								}
							}
						}
					}
					if !good && fname == "AllowedIPs" && len(stores) > 0 {
						// a list rebuilt element by element (make/append loop) does not share its backing array with
						// the caller, whatever the provenance of the (immutable) strings in it
						good = true
						for _, v := range stores {
							bk := map[string]bool{}
							sliceBacking(v, map[ssa.Value]bool{}, bk, nil)
							for k := range bk {
								if k != "fresh" {
									good = false
								}
							}
						}
					}
					c.verdictIf(good, P, "snapshot", "field="+fname, p.instrPos(in), "deep-copied into the stored policy", "the policy in force shares its "+fname+" with the caller's struct: the caller can change the policy later without a drain")
				}
			}
		}
	}

	// --- limiter-read / policy-read
	// admitted extent: functions reachable from the worker goroutine closure(s) of HandleCall, and not reachable from anywhere else on the connection path
	var workers []*ssa.Function
	for _, b := range hc.Blocks {
		for _, in := range b.Instrs {
			if g, ok := in.(*ssa.Go); ok {
				if clo := p.funcValue(g.Call.Value); clo != nil {
					workers = append(workers, clo)
				}
			}
		}
	}
	inExtent := p.reachableFrom(workers)
	runC16NoDetachedWork(c, P, inExtent)
	nRead := map[string]int{}
	for _, fn := range p.SrcFuncs {
		for _, b := range fn.Blocks {
			for _, in := range b.Instrs {
				atomicRead := false
				if ci, ok := in.(ssa.CallInstruction); ok && atomicPtrOp(ci, "Load") && len(ci.Common().Args) > 0 && isMutexField(ci.Common().Args[0], "rateLimiter") {
					atomicRead = true
				}
				if !atomicRead {
					u, ok := in.(*ssa.UnOp)
					if !ok {
						continue
					}
					base, f, isLoad := fieldLoad(u)
					if !isLoad || f != rlFld || isFresh(base) || strings.Contains(f.Type().String(), "atomic.Pointer") {
						continue
					}
				}
				nRead[fnKey(fn)]++
				key := fmt.Sprintf("read=%s:rateLimiter#%d", fnKey(fn), nRead[fnKey(fn)])
				if fn == upd {
					c.ok(P, "limiter-read", key, p.instrPos(in), "inside the update itself")
					continue
				}
				if atomicRead && !inExtent[fn] {
					// an atomic read outside a request is race-free; it must then be taken per request
					// (inside the connection loop), not once per connection, or only be used for cleanup
					perRequest := rootFn(fn) == ent.ConnLoop && (inCycle(b) || fn.Parent() != nil)
					c.verdictIf(perRequest, P, "limiter-read", key, p.instrPos(in), "atomic load taken per request / for cleanup at connection end",
						"the rate limiter is loaded once and then used for the life of the connection: a connection opened before a policy update keeps the old limiter (or none)")
					continue
				}
				c.verdictIf(inExtent[fn], P, "limiter-read", key, p.instrPos(in), "inside the admitted extent of a request (policy read lock held)",
					"AbsfsNFS.rateLimiter is read outside the per-request policy lock: the read is unsynchronised with the store in UpdatePolicyOptions, and a value taken here outlives policy updates (a connection opened before rate limiting was enabled is never limited; one opened before it was reconfigured keeps the old limiter)")
			}
		}
	}
	// policy loads in procedure handlers / operations
	reachProc := p.reachableFrom(ent.procEntries())
	cnt := 0
	for _, fn := range p.SrcFuncs {
		if !reachProc[fn] {
			continue
		}
		for _, call := range calls(fn) {
			if !atomicPtrOp(call, "Load") || !isMutexField(call.Common().Args[0], "policy") {
				continue
			}
			cnt++
			key := fmt.Sprintf("load=%s:policy#%d", fnKey(fn), ordinal(fn, call))
			// the function must not be callable from outside the extent on the request path: every request-path caller chain passes the worker
			c.verdictIf(inExtent[fn], P, "policy-read", key, p.instrPos(call), "inside the admitted extent", "policy is loaded by request-path code that is not confined to the admitted extent")
		}
	}
	_ = cnt
}
