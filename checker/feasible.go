package main

// feasible.go: walking the CFG with the values of boolean phis known along the path.
//
// A flag merged at a join (`ok := helper(); if !ok {...}` after inlining; a lowered `a && b`) makes both
// successors of the test reachable in the plain graph although, coming from a given edge, only one is.  The
// walkers here carry, along each path, the constant value every boolean phi took on the edge the path entered
// its block by, and follow only the feasible successor of a test on such a value.

import (
	"go/constant"
	"go/token"
	"sort"
	"strings"

	"golang.org/x/tools/go/ssa"
)

type phiEnv map[*ssa.Phi]bool

func (e phiEnv) clone() phiEnv {
	out := make(phiEnv, len(e)+2)
	for k, v := range e {
		out[k] = v
	}
	return out
}

func (e phiEnv) sig() string {
	if len(e) == 0 {
		return ""
	}
	var parts []string
	for k, v := range e {
		s := k.Name()
		if v {
			s += "=T"
		} else {
			s += "=F"
		}
		parts = append(parts, s)
	}
	sort.Strings(parts)
	return strings.Join(parts, ",")
}

// boolIn evaluates v to a constant under env, if possible.
func boolIn(v ssa.Value, env phiEnv, depth int) (bool, bool) {
	if depth > 6 {
		return false, false
	}
	switch x := v.(type) {
	case *ssa.Const:
		if x.Value != nil && x.Value.Kind() == constant.Bool {
			return constant.BoolVal(x.Value), true
		}
	case *ssa.Phi:
		if b, ok := env[x]; ok {
			return b, true
		}
	case *ssa.UnOp:
		if x.Op == token.NOT {
			if b, ok := boolIn(x.X, env, depth+1); ok {
				return !b, true
			}
		}
	case *ssa.BinOp:
		if x.Op == token.EQL || x.Op == token.NEQ {
			a, ok1 := boolIn(x.X, env, depth+1)
			b, ok2 := boolIn(x.Y, env, depth+1)
			if ok1 && ok2 {
				return (a == b) == (x.Op == token.EQL), true
			}
		}
	}
	return false, false
}

// enter updates env for the phis of block `to` when it is entered from `from`.
func (e phiEnv) enter(from, to *ssa.BasicBlock) phiEnv {
	idx := -1
	for i, p := range to.Preds {
		if p == from {
			idx = i
		}
	}
	if idx < 0 {
		return e
	}
	var out phiEnv
	for _, in := range to.Instrs {
		phi, ok := in.(*ssa.Phi)
		if !ok {
			break
		}
		if idx >= len(phi.Edges) {
			continue
		}
		b, known := boolIn(phi.Edges[idx], e, 0)
		_, had := e[phi]
		if !known && !had {
			continue
		}
		if out == nil {
			out = e.clone()
		}
		if known {
			out[phi] = b
		} else {
			delete(out, phi)
		}
	}
	if out == nil {
		return e
	}
	return out
}

// feasibleSuccs lists the successors of b a path with environment env can take.
func feasibleSuccs(b *ssa.BasicBlock, env phiEnv) []*ssa.BasicBlock {
	if ifi := blockIf(b); ifi != nil && len(b.Succs) == 2 {
		if v, ok := boolIn(ifi.Cond, env, 0); ok {
			if v {
				return b.Succs[:1]
			}
			return b.Succs[1:2]
		}
	}
	return b.Succs
}

// allPathsFrom: does every feasible path that takes the edge from→to reach a block for which done reports
// (true, verdict)?  The verdicts of all paths are and-ed; a path that ends without done is a failure.
func allPathsFrom(from, to *ssa.BasicBlock, done func(b *ssa.BasicBlock) (stop bool, ok bool)) bool {
	type key struct {
		b   *ssa.BasicBlock
		sig string
	}
	seen := map[key]bool{}
	var walk func(b *ssa.BasicBlock, env phiEnv) bool
	walk = func(b *ssa.BasicBlock, env phiEnv) bool {
		k := key{b, env.sig()}
		if seen[k] {
			return true
		}
		seen[k] = true
		if stop, ok := done(b); stop {
			return ok
		}
		succs := feasibleSuccs(b, env)
		if len(succs) == 0 {
			return false
		}
		for _, s := range succs {
			if !walk(s, env.enter(b, s)) {
				return false
			}
		}
		return true
	}
	env := phiEnv{}
	if from != nil {
		env = env.enter(from, to)
	}
	return walk(to, env)
}
