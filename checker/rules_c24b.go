package main

// rules_c24b.go: C24/atomic-callee.  UpdateExportOptions commits the tuning
// half first and then returns whatever UpdatePolicyOptions returns.  The
// update is all-or-nothing only if UpdatePolicyOptions cannot refuse at that
// point: every field of the new policy it can reject on must be pinned by
// UpdateExportOptions to the value of the current policy (so the test cannot
// fail), or be validated by UpdateExportOptions itself — by the same
// validator function — before its first mutation.

import (
	"fmt"
	"sort"

	"golang.org/x/tools/go/ssa"
)

func runC24AtomicCallee(c *Ctx) {
	p := c.P
	const P = "C24"
	c.rule(P, "atomic-callee", "every PolicyOptions field UpdatePolicyOptions can reject on is pinned to the current policy by UpdateExportOptions or validated there before the first mutation", 1)
	ue := p.Fn("(*AbsfsNFS).UpdateExportOptions")
	upo := p.Fn("(*AbsfsNFS).UpdatePolicyOptions")
	if ue == nil || upo == nil || len(upo.Params) < 2 {
		c.undecided(P, "atomic-callee", "fn=UpdatePolicyOptions", "", "UpdateExportOptions/UpdatePolicyOptions not found")
		return
	}
	param := upo.Params[1]
	// the cell the by-value parameter is spilled to (its address is taken in the function)
	fromParam := func(base ssa.Value) bool {
		base = unwrap(base)
		if base == ssa.Value(param) {
			return true
		}
		if al, ok := base.(*ssa.Alloc); ok {
			if sv := singleStore(al); sv != nil && unwrap(sv) == ssa.Value(param) {
				return true
			}
			// several stores (field updates) but the whole-value store is the parameter
			if al.Referrers() != nil {
				for _, r := range *al.Referrers() {
					if st, ok := r.(*ssa.Store); ok && st.Addr == ssa.Value(al) && unwrap(st.Val) == ssa.Value(param) {
						return true
					}
				}
			}
		}
		return false
	}
	type cause struct {
		field   string
		callees map[*ssa.Function]bool
		at      ssa.Instruction
	}
	causes := map[string]*cause{}
	var walk func(v ssa.Value, d int, fields map[string]bool, callees map[*ssa.Function]bool, seen map[ssa.Value]bool)
	walk = func(v ssa.Value, d int, fields map[string]bool, callees map[*ssa.Function]bool, seen map[ssa.Value]bool) {
		if v == nil || d > 8 || seen[v] {
			return
		}
		seen[v] = true
		switch x := v.(type) {
		case *ssa.FieldAddr:
			if f := fieldOf(x.X.Type(), x.Field); f != nil && recvTypeName(x.X.Type()) == "PolicyOptions" && fromParam(x.X) {
				fields[f.Name()] = true
				return
			}
		case *ssa.Field:
			if f := fieldOf(x.X.Type(), x.Field); f != nil && recvTypeName(x.X.Type()) == "PolicyOptions" && fromParam(x.X) {
				fields[f.Name()] = true
				return
			}
		case *ssa.Call:
			if callee := x.Call.StaticCallee(); callee != nil {
				callees[callee] = true
			}
		}
		if in, ok := v.(ssa.Instruction); ok {
			for _, op := range in.Operands(nil) {
				if op != nil && *op != nil {
					walk(*op, d+1, fields, callees, seen)
				}
			}
		}
	}
	for _, b := range upo.Blocks {
		if b == upo.Recover || len(b.Instrs) == 0 {
			continue
		}
		r, ok := b.Instrs[len(b.Instrs)-1].(*ssa.Return)
		if !ok || len(r.Results) == 0 {
			continue
		}
		ev := retVal(r, len(r.Results)-1)
		if isNilConst(ev) {
			continue
		}
		// a rejection: which new-policy fields decide it?
		fields := map[string]bool{}
		callees := map[*ssa.Function]bool{}
		for _, f := range p.facts(b) {
			walk(f.V, 0, fields, callees, map[ssa.Value]bool{})
		}
		// an error value passed through from a callee (return err) counts with its producing call
		walk(ev, 0, map[string]bool{}, callees, map[ssa.Value]bool{})
		if len(fields) == 0 {
			key := fmt.Sprintf("reject=%s#b%d", fnKey(upo), b.Index)
			c.bad(P, "atomic-callee", key, p.instrPos(r), "UpdatePolicyOptions can refuse for a reason that does not depend on a field of the new policy; UpdateExportOptions has already applied the tuning half when that happens")
			continue
		}
		for f := range fields {
			if causes[f] == nil {
				causes[f] = &cause{field: f, callees: map[*ssa.Function]bool{}, at: r}
			}
			for k := range callees {
				causes[f].callees[k] = true
			}
		}
	}
	if len(causes) == 0 {
		c.ok(P, "atomic-callee", "reject=none", p.pos(upo.Pos()), "UpdatePolicyOptions never refuses")
		return
	}
	// the policy record UpdateExportOptions builds and the first mutation
	var firstMut ssa.CallInstruction
	for _, call := range calls(ue) {
		if f := staticCallee(call); f != nil && (f.Name() == "UpdateTuningOptions" || f.Name() == "applyTuningSideEffects") || atomicPtrOp(call, "Store") {
			if firstMut == nil || call.Block().Dominates(firstMut.Block()) && call.Block() != firstMut.Block() || call.Block() == firstMut.Block() && instrIndex(call) < instrIndex(firstMut) {
				firstMut = call
			}
		}
	}
	var names []string
	for f := range causes {
		names = append(names, f)
	}
	sort.Strings(names)
	for _, f := range names {
		cs := causes[f]
		key := "reject-on=PolicyOptions." + f
		// pinned: every store to the literal's field F in UE takes its value from the current policy's field F
		pinned, stores := true, 0
		for _, b := range ue.Blocks {
			for _, in := range b.Instrs {
				st, ok := in.(*ssa.Store)
				if !ok {
					continue
				}
				base, fld, isFA := fieldAddrOf(st.Addr)
				if !isFA || fld == nil || fld.Name() != f || recvTypeName(base.Type()) != "PolicyOptions" {
					continue
				}
				stores++
				// the value must be the same field of the *current policy* record (n.policy.Load().F)
				okOrigin := false
				if u, ok := unwrap(st.Val).(*ssa.UnOp); ok {
					if fa, ok := u.X.(*ssa.FieldAddr); ok && recvTypeName(fa.X.Type()) == "PolicyOptions" {
						if lf := fieldOf(fa.X.Type(), fa.Field); lf != nil && lf.Name() == f {
							if call, ok := unwrap(fa.X).(*ssa.Call); ok && atomicPtrOp(call, "Load") {
								okOrigin = true
							}
						}
					}
				}
				if !okOrigin {
					pinned = false
				}
			}
		}
		if stores == 0 {
			pinned = false
		}
		// a record that is not a literal of UpdateExportOptions itself (built by a callee) has had its fields set
		// elsewhere: only a pinning store that is executed on every path to the UpdatePolicyOptions call counts
		if pinned {
			for _, call := range calls(ue) {
				f2 := staticCallee(call)
				if f2 == nil || f2 != upo || len(call.Common().Args) < 2 {
					continue
				}
				rec := unwrap(call.Common().Args[1])
				if _, isLit := rec.(*ssa.Alloc); isLit {
					continue
				}
				dominating := false
				for _, b := range ue.Blocks {
					for _, in := range b.Instrs {
						st, ok := in.(*ssa.Store)
						if !ok {
							continue
						}
						base, fld, isFA := fieldAddrOf(st.Addr)
						if !isFA || fld == nil || fld.Name() != f || recvTypeName(base.Type()) != "PolicyOptions" {
							continue
						}
						if b == call.Block() && instrIndex(st) < instrIndex(call) || b != call.Block() && b.Dominates(call.Block()) {
							dominating = true
						}
					}
				}
				if !dominating {
					pinned = false
				}
			}
		}
		// or validated by the same function before the first mutation
		validated := false
		if firstMut != nil {
			for _, call := range calls(ue) {
				callee := staticCallee(call)
				if callee == nil || !cs.callees[callee] || callee.Pkg != p.Pkg {
					continue
				}
				before := call.Block() == firstMut.Block() && instrIndex(call) < instrIndex(firstMut) || call.Block() != firstMut.Block() && call.Block().Dominates(firstMut.Block())
				if before {
					validated = true
				}
			}
		}
		c.verdictIf(pinned || validated, P, "atomic-callee", key, p.instrPos(cs.at), "the rejection cannot occur after the tuning half was applied (field pinned to the current policy, or validated first)",
			"UpdatePolicyOptions can reject the update because of PolicyOptions."+f+", which UpdateExportOptions neither pins to the current value nor validates before it applies the tuning options: the call returns an error although half of the update is already in force")
	}
}
