package main

// inline.go: source-level inlining of functions the rules have no role for.
//
// The rules are written against named functions of package absnfs (anchors, sinks, helpers with transfer
// functions); baseline_funcs.go lists the functions that existed when the rules were confirmed.  A function
// that is NOT in that list (a helper extracted by a refactor, a function split off a long one) has no role: it
// is transparent.  Before SSA is built, every call to such a function that sits in a supported syntactic
// position is replaced by the callee's body (parameters bound to fresh, uniquely named locals; every `return`
// turned into an assignment to fresh result variables plus a `break` out of a labelled one-armed switch), the
// package is type-checked again, and this is repeated (helpers calling helpers) up to maxInlineRounds times.
// Helper declarations left without any reference are removed, so that whole-package rules (locksets, who-writes)
// do not analyse an uncalled body.  Nothing is executed; the transformation preserves evaluation order (calls
// evaluated before the inlined one in the same statement are spilled to temporaries in order; a call that is
// only conditionally evaluated, `a && f()`, loop conditions, case expressions, go/defer, is left alone).
//
// Functions containing defer/recover, variadic and generic functions, promoted methods and directly recursive
// functions are never inlined; their calls stay calls, as before.

import (
	"fmt"
	"go/ast"
	"go/constant"
	"go/printer"
	"go/token"
	"go/types"
	"os"
	"path/filepath"
	"reflect"
	"sort"
	"strconv"
	"strings"

	"golang.org/x/tools/go/packages"
)

const maxInlineRounds = 4

// InlineStats is reported in the evidence.
type InlineStats struct {
	Rounds   int
	Inlined  map[string]int // callee key -> call sites replaced
	Left     map[string]int // callee key -> references left (unsupported position, function value, exported API)
	Removed  []string       // helper declarations removed (no reference left)
	Disabled string         // non-empty: inlining was abandoned, with the reason
	Threaded int            // return sites of inlined helpers specialised for the caller's test (inline_thread.go)
	Lowered  int            // short-circuit operators lowered to if statements to reach a helper call
	Unrolled int            // loops over constant tables written out row by row (inline_unroll.go)
	Renamed  []string       // renames of unexported fields/functions undone (rename.go)
}

func (s *InlineStats) String() string {
	if s == nil {
		return "helper inlining: off"
	}
	if s.Disabled != "" {
		return "helper inlining: abandoned (" + s.Disabled + "); analysed as written"
	}
	if len(s.Renamed) > 0 {
		r := s.Renamed
		s2 := *s
		s2.Renamed = nil
		return "renames of unexported identifiers undone: " + strings.Join(r, ", ") + "; " + s2.String()
	}
	n := 0
	var names []string
	for k, v := range s.Inlined {
		n += v
		names = append(names, fmt.Sprintf("%s x%d", k, v))
	}
	sort.Strings(names)
	if n == 0 && s.Unrolled == 0 {
		return "helper inlining: no function outside the baseline list is called (nothing to inline); no loop over a constant table"
	}
	if n == 0 {
		return fmt.Sprintf("helper inlining: no function outside the baseline list is called; %d loop(s) over a constant table written out row by row", s.Unrolled)
	}
	left := 0
	for _, v := range s.Left {
		left += v
	}
	return fmt.Sprintf("helper inlining: %d call site(s) of %d non-baseline function(s) inlined in %d round(s) [%s]; %d reference(s) left as calls; %d helper declaration(s) removed; %d return site(s) threaded into the caller's test; %d short-circuit operator(s) lowered; %d loop(s) over a constant table unrolled",
		n, len(s.Inlined), s.Rounds, strings.Join(names, ", "), left, len(s.Removed), s.Threaded, s.Lowered, s.Unrolled)
}

func declKey(d *ast.FuncDecl) string {
	if d.Recv == nil || len(d.Recv.List) == 0 {
		return d.Name.Name
	}
	t := d.Recv.List[0].Type
	ptr := ""
	if st, ok := t.(*ast.StarExpr); ok {
		ptr = "*"
		t = st.X
	}
	for {
		switch x := t.(type) {
		case *ast.IndexExpr:
			t = x.X
			continue
		case *ast.IndexListExpr:
			t = x.X
			continue
		case *ast.ParenExpr:
			t = x.X
			continue
		}
		break
	}
	name := "?"
	if id, ok := t.(*ast.Ident); ok {
		name = id.Name
	}
	return "(" + ptr + name + ")." + d.Name.Name
}

type inliner struct {
	pk       *packages.Package
	info     *types.Info
	cands    map[*types.Func]*ast.FuncDecl
	curFile  *ast.File
	fileImps map[*ast.File]map[string]string // file -> import path -> local name
	skip     map[*ast.CallExpr]bool
	skipLower map[*ast.BinaryExpr]bool
	keepSwitch *ast.SwitchStmt
	keepRange  *ast.RangeStmt
	closure    map[*ast.FuncDecl]bool // helpers with top-level defer/recover: inlined as an immediately invoked closure
	tabs       map[types.Object]*tableInfo
	exps     []*expansion // helpers inlined into the statement being processed
	stats    *InlineStats
	seq      *int
	done     int
}

func isTestFile(pk *packages.Package, f *ast.File) bool {
	return strings.HasSuffix(pk.Fset.Position(f.Pos()).Filename, "_test.go")
}

func newInliner(pk *packages.Package, stats *InlineStats, seq *int) *inliner {
	in := &inliner{pk: pk, info: pk.TypesInfo, cands: map[*types.Func]*ast.FuncDecl{},
		fileImps: map[*ast.File]map[string]string{}, skip: map[*ast.CallExpr]bool{}, skipLower: map[*ast.BinaryExpr]bool{}, closure: map[*ast.FuncDecl]bool{}, stats: stats, seq: seq}
	for _, f := range pk.Syntax {
		if isTestFile(pk, f) {
			continue
		}
		for _, d := range f.Decls {
			fd, ok := d.(*ast.FuncDecl)
			if !ok || fd.Body == nil || baselineFuncs[declKey(fd)] {
				continue
			}
			obj, _ := in.info.Defs[fd.Name].(*types.Func)
			if obj == nil || !in.inlinable(fd, obj) {
				continue
			}
			in.cands[obj] = fd
		}
	}
	return in
}

func (in *inliner) inlinable(fd *ast.FuncDecl, obj *types.Func) bool {
	if fd.Name.Name == "init" || fd.Name.Name == "main" || fd.Name.Name == "_" {
		return false
	}
	sig := obj.Type().(*types.Signature)
	if sig.Variadic() || sig.RecvTypeParams() != nil {
		return false
	}
	generic := sig.TypeParams() != nil && sig.TypeParams().Len() > 0
	if generic {
		// a generic helper whose body and results never name a type parameter (only its parameter types do)
		// is inlined with its parameters bound by `:=`, so that no type argument has to be written out
		usesTP := false
		chk := func(n ast.Node) {
			if n == nil {
				return
			}
			ast.Inspect(n, func(m ast.Node) bool {
				if id, isId := m.(*ast.Ident); isId {
					if tn, isTN := in.info.Uses[id].(*types.TypeName); isTN {
						if _, isTP := tn.Type().(*types.TypeParam); isTP {
							usesTP = true
						}
					}
				}
				return !usesTP
			})
		}
		chk(fd.Body)
		if fd.Type.Results != nil {
			chk(fd.Type.Results)
		}
		if usesTP {
			return false
		}
	}
	ok := true
	needsClosure := false
	depth := 0
	var visit func(n ast.Node) bool
	visit = func(n ast.Node) bool {
		if !ok {
			return false
		}
		switch x := n.(type) {
		case *ast.FuncLit:
			depth++
			ast.Inspect(x.Body, visit)
			depth--
			return false
		case *ast.DeferStmt:
			if depth == 0 {
				needsClosure = true // its defers must run when the helper's body ends, not when the caller returns
			}
		case *ast.CallExpr:
			if id, isId := x.Fun.(*ast.Ident); isId {
				if b, isB := in.info.Uses[id].(*types.Builtin); isB && b.Name() == "recover" && depth == 0 {
					needsClosure = true
				}
			}
			if in.calleeOf(x) == obj {
				ok = false // directly recursive
			}
		}
		return ok
	}
	ast.Inspect(fd.Body, visit)
	if ok && needsClosure {
		if generic {
			return false
		}
		in.closure[fd] = true
	}
	return ok
}

// calleeOf resolves a call expression to the *types.Func it statically calls (a function, or a method
// selected directly on a concrete receiver, not through embedding), or nil.
func (in *inliner) calleeOf(c *ast.CallExpr) *types.Func {
	switch f := ast.Unparen(c.Fun).(type) {
	case *ast.Ident:
		fn, _ := in.info.Uses[f].(*types.Func)
		return fn
	case *ast.SelectorExpr:
		if sel := in.info.Selections[f]; sel != nil {
			if sel.Kind() != types.MethodVal || len(sel.Index()) != 1 {
				return nil
			}
			if _, isIface := sel.Recv().Underlying().(*types.Interface); isIface {
				return nil
			}
			fn, _ := sel.Obj().(*types.Func)
			return fn
		}
		fn, _ := in.info.Uses[f.Sel].(*types.Func) // pkg.F
		return fn
	}
	return nil
}

// ---------------------------------------------------------------------------
// statement-list rewriting

func (in *inliner) run() int {
	for _, f := range in.pk.Syntax {
		if isTestFile(in.pk, f) {
			continue
		}
		in.curFile = f
		isCand := map[*ast.FuncDecl]bool{}
		for _, fd := range in.cands {
			isCand[fd] = true
		}
		ast.Inspect(f, func(n ast.Node) bool {
			switch x := n.(type) {
			case *ast.FuncDecl:
				// the body of a helper that is itself inlined elsewhere is left as it is in this round: its
				// copies must be made from nodes the type checker has seen (their objects drive the renaming);
				// calls it makes to other helpers are inlined in the next round, inside the copies
				if isCand[x] {
					return false
				}
			case *ast.BlockStmt:
				x.List = in.processList(x.List)
			case *ast.CaseClause:
				x.Body = in.processList(x.Body)
			case *ast.CommClause:
				x.Body = in.processList(x.Body)
			}
			return true
		})
		dropUnusedGeneratedLabels(f)
	}
	return in.done
}

// dropUnusedGeneratedLabels removes the label of a generated labelled switch that no `break` refers to any
// more (every return site was threaded into the caller's test): go/types records no object for an unused
// label and go/ssa refuses to build a labelled statement without one.
func dropUnusedGeneratedLabels(f *ast.File) {
	used := map[string]bool{}
	ast.Inspect(f, func(n ast.Node) bool {
		if b, ok := n.(*ast.BranchStmt); ok && b.Label != nil {
			used[b.Label.Name] = true
		}
		return true
	})
	fix := func(list []ast.Stmt) {
		for i, s := range list {
			for {
				ls, ok := s.(*ast.LabeledStmt)
				if !ok || used[ls.Label.Name] || !strings.Contains(ls.Label.Name, "__i") {
					break
				}
				s = ls.Stmt
				list[i] = s
			}
		}
	}
	ast.Inspect(f, func(n ast.Node) bool {
		switch x := n.(type) {
		case *ast.BlockStmt:
			fix(x.List)
		case *ast.CaseClause:
			fix(x.Body)
		case *ast.CommClause:
			fix(x.Body)
		}
		return true
	})
}

func (in *inliner) processList(list []ast.Stmt) []ast.Stmt {
	changed := false
	out := make([]ast.Stmt, 0, len(list)+4)
	for i, s := range list {
		in.exps = nil
		pre, s2 := in.processStmt(s)
		if len(pre) > 0 || s2 != s {
			changed = true
		}
		if len(in.exps) > 0 && s2 != nil {
			// jump threading: the test that consumes the helper's results (inline_thread.go)
			if ifs, ok := s2.(*ast.IfStmt); ok {
				for _, e := range in.exps {
					in.thread(e, nil, ifs)
				}
			} else if i+1 < len(list) {
				if ifs, ok := list[i+1].(*ast.IfStmt); ok {
					switch s2.(type) {
					case *ast.AssignStmt, *ast.DeclStmt:
						for _, e := range in.exps {
							in.thread(e, s2, ifs)
						}
					}
				}
			}
		}
		in.exps = nil
		out = append(out, pre...)
		if s2 != nil {
			out = append(out, s2)
		}
	}
	if !changed {
		return list
	}
	return out
}

// processStmt returns the statements to put in front of s and the (possibly modified) statement; the
// statement is nil when it disappears (a bare call of a helper).
func (in *inliner) processStmt(s ast.Stmt) ([]ast.Stmt, ast.Stmt) {
	switch x := s.(type) {
	case *ast.LabeledStmt:
		if sw, ok := x.Stmt.(*ast.SwitchStmt); ok {
			in.keepSwitch = sw // a labelled switch may be the target of `break L`: never converted
		}
		if rs, ok := x.Stmt.(*ast.RangeStmt); ok {
			in.keepRange = rs // a labelled loop may be the target of break/continue L: never unrolled
		}
		pre, inner := in.processStmt(x.Stmt)
		if inner == nil {
			inner = &ast.EmptyStmt{Semicolon: x.Colon, Implicit: true}
		}
		x.Stmt = inner
		return pre, x
	case *ast.IfStmt:
		if ei, ok := x.Else.(*ast.IfStmt); ok {
			saved := in.exps
			in.exps = nil
			pre, e2 := in.processStmt(ei)
			for _, e := range in.exps {
				in.thread(e, nil, ei)
			}
			in.exps = saved
			if len(pre) > 0 {
				x.Else = &ast.BlockStmt{Lbrace: ei.Pos(), List: append(pre, e2), Rbrace: ei.End()}
			}
		}
	}
	if rs, ok := s.(*ast.RangeStmt); ok && rs != in.keepRange {
		if u := in.unrollRange(rs); u != nil {
			in.done++
			return nil, u
		}
	}
	if sw, ok := s.(*ast.SwitchStmt); ok && sw != in.keepSwitch {
		if conv := in.switchToIf(sw); conv != nil {
			in.done++
			return in.processStmt(conv)
		}
	}
	var pre []ast.Stmt
	for guard := 0; guard < 64; guard++ {
		site := in.findSite(s)
		if site == nil {
			break
		}
		if site.lower != nil {
			p, repl, ok := in.expandLower(s, site)
			if !ok {
				in.skipLower[site.lower] = true
				continue
			}
			pre = append(pre, p...)
			in.done++
			s = repl
			continue
		}
		p, repl, ok := in.expand(s, site)
		if !ok {
			in.skip[site.call] = true
			continue
		}
		pre = append(pre, p...)
		in.stats.Inlined[declKey(site.decl)]++
		in.done++
		if repl == nil {
			return pre, nil
		}
		s = repl
	}
	return pre, s
}

type callSite struct {
	slot  *ast.Expr
	call  *ast.CallExpr
	fn    *types.Func
	decl  *ast.FuncDecl
	spill []*ast.Expr // calls/receives evaluated before the site in this statement, in order
	lower *ast.BinaryExpr // non-nil: not a call site but a `X && Y` / `X || Y` whose Y holds a helper call
}

// containsCandidate: e (outside function literals) contains a call of an inlinable function.
func (in *inliner) containsCandidate(e ast.Expr) bool {
	found := false
	ast.Inspect(e, func(n ast.Node) bool {
		switch x := n.(type) {
		case *ast.FuncLit:
			return false
		case *ast.CallExpr:
			if fn := in.calleeOf(x); fn != nil && in.cands[fn] != nil && !in.skip[x] {
				found = true
			}
		}
		return !found
	})
	return found
}

func (in *inliner) spillable(spill []*ast.Expr) bool {
	for _, sl := range spill {
		tv, ok := in.info.Types[*sl]
		if !ok || tv.Type == nil {
			return false
		}
		if _, isTuple := tv.Type.(*types.Tuple); isTuple {
			return false
		}
		if b, isB := tv.Type.(*types.Basic); isB && b.Kind() == types.Invalid {
			return false
		}
	}
	return true
}

// expandLower rewrites `X op Y` (op is && or ||) in statement s into a temporary computed by an if statement.
func (in *inliner) expandLower(s ast.Stmt, site *callSite) ([]ast.Stmt, ast.Stmt, bool) {
	e := site.lower
	if !in.spillable(site.spill) {
		return nil, nil, false
	}
	var pre []ast.Stmt
	for _, sl := range site.spill {
		t := "t" + in.fresh("")
		pre = append(pre, &ast.AssignStmt{Lhs: []ast.Expr{nid(t)}, Tok: token.DEFINE, Rhs: []ast.Expr{*sl}})
		*sl = nid(t)
	}
	t := "c" + in.fresh("")
	pre = append(pre, &ast.AssignStmt{Lhs: []ast.Expr{nid(t)}, TokPos: e.OpPos, Tok: token.DEFINE, Rhs: []ast.Expr{e.X}})
	var cond ast.Expr = nid(t)
	if e.Op == token.LOR {
		cond = &ast.UnaryExpr{OpPos: e.OpPos, Op: token.NOT, X: nid(t)}
	}
	pre = append(pre, &ast.IfStmt{If: e.OpPos, Cond: cond, Body: &ast.BlockStmt{Lbrace: e.OpPos, Rbrace: e.OpPos,
		List: []ast.Stmt{&ast.AssignStmt{Lhs: []ast.Expr{nid(t)}, TokPos: e.OpPos, Tok: token.ASSIGN, Rhs: []ast.Expr{e.Y}}}}})
	*site.slot = nid(t)
	in.stats.Lowered++
	return pre, s, true
}

func immediateSlots(s ast.Stmt) []*ast.Expr {
	var out []*ast.Expr
	switch x := s.(type) {
	case *ast.ExprStmt:
		out = append(out, &x.X)
	case *ast.AssignStmt:
		if x.Tok != token.DEFINE {
			for i := range x.Lhs {
				out = append(out, &x.Lhs[i])
			}
		}
		for i := range x.Rhs {
			out = append(out, &x.Rhs[i])
		}
	case *ast.ReturnStmt:
		for i := range x.Results {
			out = append(out, &x.Results[i])
		}
	case *ast.DeclStmt:
		if gd, ok := x.Decl.(*ast.GenDecl); ok && gd.Tok == token.VAR {
			for _, sp := range gd.Specs {
				if vs, ok := sp.(*ast.ValueSpec); ok {
					for i := range vs.Values {
						out = append(out, &vs.Values[i])
					}
				}
			}
		}
	case *ast.IfStmt:
		if x.Init != nil {
			out = append(out, immediateSlots(x.Init)...)
		}
		out = append(out, &x.Cond)
	case *ast.SwitchStmt:
		if x.Init != nil {
			out = append(out, immediateSlots(x.Init)...)
		}
		if x.Tag != nil {
			out = append(out, &x.Tag)
		}
	case *ast.TypeSwitchStmt:
		if x.Init != nil {
			out = append(out, immediateSlots(x.Init)...)
		}
		switch a := x.Assign.(type) {
		case *ast.ExprStmt:
			if ta, ok := a.X.(*ast.TypeAssertExpr); ok {
				out = append(out, &ta.X)
			}
		case *ast.AssignStmt:
			if len(a.Rhs) == 1 {
				if ta, ok := a.Rhs[0].(*ast.TypeAssertExpr); ok {
					out = append(out, &ta.X)
				}
			}
		}
	case *ast.ForStmt:
		if x.Init != nil {
			out = append(out, immediateSlots(x.Init)...)
		}
	case *ast.RangeStmt:
		out = append(out, &x.X)
	case *ast.IncDecStmt:
		out = append(out, &x.X)
	case *ast.SendStmt:
		out = append(out, &x.Chan, &x.Value)
	case *ast.SelectStmt:
		// channel operands and the right-hand sides of sends are evaluated once, in source order, on
		// entering the select statement (Go spec), so hoisting in front of it preserves the order
		for _, cl := range x.Body.List {
			cc, ok := cl.(*ast.CommClause)
			if !ok || cc.Comm == nil {
				continue
			}
			switch c := cc.Comm.(type) {
			case *ast.SendStmt:
				out = append(out, &c.Chan, &c.Value)
			case *ast.ExprStmt:
				if u, ok := ast.Unparen(c.X).(*ast.UnaryExpr); ok && u.Op == token.ARROW {
					out = append(out, &u.X)
				}
			case *ast.AssignStmt:
				if len(c.Rhs) == 1 {
					if u, ok := ast.Unparen(c.Rhs[0]).(*ast.UnaryExpr); ok && u.Op == token.ARROW {
						out = append(out, &u.X)
					}
				}
			}
		}
	}
	return out
}

type siteWalker struct {
	in      *inliner
	found   *callSite
	stop    bool
	earlier []*ast.Expr
}

func (in *inliner) findSite(s ast.Stmt) *callSite {
	w := &siteWalker{in: in}
	for _, slot := range immediateSlots(s) {
		w.expr(slot)
		if w.found != nil || w.stop {
			break
		}
	}
	return w.found
}

func hasCallOrRecv(e ast.Expr) bool {
	found := false
	ast.Inspect(e, func(n ast.Node) bool {
		switch x := n.(type) {
		case *ast.FuncLit:
			return false
		case *ast.CallExpr:
			found = true
		case *ast.UnaryExpr:
			if x.Op == token.ARROW {
				found = true
			}
		}
		return !found
	})
	return found
}

func (w *siteWalker) expr(slot *ast.Expr) {
	if w.found != nil || w.stop || *slot == nil {
		return
	}
	info := w.in.info
	switch e := (*slot).(type) {
	case *ast.ParenExpr:
		w.expr(&e.X)
	case *ast.FuncLit:
		return
	case *ast.CallExpr:
		if tv, ok := info.Types[e.Fun]; ok && tv.IsType() { // conversion
			for i := range e.Args {
				w.expr(&e.Args[i])
			}
			return
		}
		if id, ok := ast.Unparen(e.Fun).(*ast.Ident); ok {
			if _, isB := info.Uses[id].(*types.Builtin); isB {
				for i := range e.Args {
					w.expr(&e.Args[i])
				}
				return
			}
		}
		switch f := ast.Unparen(e.Fun).(type) {
		case *ast.SelectorExpr:
			w.expr(&f.X)
		case *ast.Ident:
		default:
			w.expr(&e.Fun)
		}
		for i := range e.Args {
			w.expr(&e.Args[i])
		}
		if w.found != nil || w.stop {
			return
		}
		if fn := w.in.calleeOf(e); fn != nil && w.in.cands[fn] != nil && !w.in.skip[e] {
			w.found = &callSite{slot: slot, call: e, fn: fn, decl: w.in.cands[fn], spill: w.earlier}
			return
		}
		w.earlier = append(w.earlier, slot)
	case *ast.BinaryExpr:
		w.expr(&e.X)
		if w.found != nil || w.stop {
			return
		}
		if e.Op == token.LAND || e.Op == token.LOR {
			if w.in.containsCandidate(e.Y) && !w.in.skipLower[e] {
				// lower `X && Y` to `t := X; if t { t = Y }` so that the helper call in Y becomes an
				// ordinary statement-level call (expandLower)
				w.found = &callSite{slot: slot, lower: e, spill: w.earlier}
				return
			}
			if hasCallOrRecv(e.Y) {
				w.stop = true // conditionally evaluated: nothing in or after it may be hoisted
			}
			return
		}
		w.expr(&e.Y)
	case *ast.UnaryExpr:
		w.expr(&e.X)
		if e.Op == token.ARROW && w.found == nil && !w.stop {
			w.earlier = append(w.earlier, slot)
		}
	case *ast.StarExpr:
		w.expr(&e.X)
	case *ast.SelectorExpr:
		w.expr(&e.X)
	case *ast.IndexExpr:
		w.expr(&e.X)
		w.expr(&e.Index)
	case *ast.SliceExpr:
		w.expr(&e.X)
		w.expr(&e.Low)
		w.expr(&e.High)
		w.expr(&e.Max)
	case *ast.TypeAssertExpr:
		w.expr(&e.X)
	case *ast.CompositeLit:
		for i := range e.Elts {
			if kv, ok := e.Elts[i].(*ast.KeyValueExpr); ok {
				if _, isId := kv.Key.(*ast.Ident); !isId {
					w.expr(&kv.Key)
				}
				w.expr(&kv.Value)
			} else {
				w.expr(&e.Elts[i])
			}
		}
	}
}

func (in *inliner) fresh(base string) string {
	*in.seq++
	return base + "__i" + strconv.Itoa(*in.seq)
}

func nid(name string) *ast.Ident { return &ast.Ident{Name: name} }

// expand replaces the call at site by the callee's body.  On success it returns the statements to insert
// before s and the statement that replaces s (nil: s disappears).
func (in *inliner) expand(s ast.Stmt, site *callSite) ([]ast.Stmt, ast.Stmt, bool) {
	info := in.info
	decl, call := site.decl, site.call
	sig := site.fn.Type().(*types.Signature)
	if len(call.Args) != sig.Params().Len() || call.Ellipsis.IsValid() {
		return nil, nil, false
	}
	nres := sig.Results().Len()
	// can every earlier call be spilled to one temporary?
	for _, sl := range site.spill {
		tv, ok := info.Types[*sl]
		if !ok || tv.Type == nil {
			return nil, nil, false
		}
		if _, isTuple := tv.Type.(*types.Tuple); isTuple {
			return nil, nil, false
		}
		if b, isB := tv.Type.(*types.Basic); isB && b.Kind() == types.Invalid {
			return nil, nil, false
		}
	}
	bare := false
	if es, ok := s.(*ast.ExprStmt); ok && ast.Unparen(es.X) == ast.Expr(call) {
		bare = true
	}
	if nres == 0 && !bare {
		return nil, nil, false
	}
	var tupleFix func(temps []ast.Expr) bool
	if nres >= 2 && !bare {
		tupleFix = in.tupleContext(s, call)
		if tupleFix == nil {
			return nil, nil, false
		}
	}
	// receiver
	var recvExpr ast.Expr
	if decl.Recv != nil && len(decl.Recv.List) == 1 {
		sel, ok := ast.Unparen(call.Fun).(*ast.SelectorExpr)
		if !ok || info.Selections[sel] == nil {
			return nil, nil, false
		}
		recvExpr = sel.X
		_, wantPtr := types.Unalias(sig.Recv().Type()).(*types.Pointer)
		xt := info.TypeOf(sel.X)
		if xt == nil {
			return nil, nil, false
		}
		_, havePtr := types.Unalias(xt).Underlying().(*types.Pointer)
		if wantPtr && !havePtr {
			recvExpr = &ast.UnaryExpr{Op: token.AND, X: &ast.ParenExpr{X: sel.X}}
		} else if !wantPtr && havePtr {
			recvExpr = &ast.StarExpr{X: &ast.ParenExpr{X: sel.X}}
		}
	} else if decl.Recv != nil {
		return nil, nil, false
	}
	// imports the callee's text needs
	c := &copier{in: in, rename: map[types.Object]string{}}
	okImports := true
	ast.Inspect(decl, func(n ast.Node) bool {
		if id, ok := n.(*ast.Ident); ok {
			if pn, ok := info.Uses[id].(*types.PkgName); ok {
				local, ok := in.ensureImport(in.curFile, pn.Imported().Path(), pn.Name())
				if !ok {
					okImports = false
				} else if local != id.Name {
					c.rename[pn] = local
					c.keepPos = append(c.keepPos, pn)
				}
			}
		}
		return okImports
	})
	if !okImports {
		return nil, nil, false
	}

	// ---- from here on the AST is modified
	suffix := in.fresh("")
	ast.Inspect(decl, func(n ast.Node) bool {
		if id, ok := n.(*ast.Ident); ok && id != decl.Name && id.Name != "_" {
			if obj := info.Defs[id]; obj != nil {
				if v, isVar := obj.(*types.Var); isVar && v.IsField() {
					return true
				}
				c.rename[obj] = id.Name + suffix
			}
		}
		return true
	})
	var pre []ast.Stmt
	for _, sl := range site.spill {
		t := "t" + in.fresh("")
		pre = append(pre, &ast.AssignStmt{Lhs: []ast.Expr{nid(t)}, Tok: token.DEFINE, Rhs: []ast.Expr{*sl}})
		*sl = nid(t)
	}
	if decl.Recv != nil { // the spill may have replaced the receiver expression
		sel := ast.Unparen(call.Fun).(*ast.SelectorExpr)
		switch r := recvExpr.(type) {
		case *ast.UnaryExpr:
			r.X = &ast.ParenExpr{X: sel.X}
		case *ast.StarExpr:
			r.X = &ast.ParenExpr{X: sel.X}
		default:
			recvExpr = sel.X
		}
	}
	varDecl := func(name string, typ ast.Expr, val ast.Expr) ast.Stmt {
		vs := &ast.ValueSpec{Names: []*ast.Ident{nid(name)}, Type: typ}
		if val != nil {
			vs.Values = []ast.Expr{val}
		}
		return &ast.DeclStmt{Decl: &ast.GenDecl{Tok: token.VAR, Specs: []ast.Spec{vs}}}
	}
	localName := func(id *ast.Ident) string {
		if id == nil || id.Name == "_" {
			return "_"
		}
		if nm, ok := c.rename[info.Defs[id]]; ok {
			return nm
		}
		return "_"
	}
	var binds []ast.Stmt
	if decl.Recv != nil {
		f := decl.Recv.List[0]
		var id *ast.Ident
		if len(f.Names) == 1 {
			id = f.Names[0]
		}
		binds = append(binds, varDecl(localName(id), c.expr(f.Type), recvExpr))
	}
	// a parameter whose declared type names a type parameter (generic helper) is bound by `:=`
	mentionsTypeParam := func(t ast.Expr) bool {
		found := false
		ast.Inspect(t, func(m ast.Node) bool {
			if id, isId := m.(*ast.Ident); isId {
				if tn, isTN := info.Uses[id].(*types.TypeName); isTN {
					if _, isTP := tn.Type().(*types.TypeParam); isTP {
						found = true
					}
				}
			}
			return !found
		})
		return found
	}
	// a boolean parameter that receives a constant and is never written in the helper (a mode switch such as
	// `plus bool`) is substituted by that constant, so that the branches it selects are folded away and each
	// call site keeps only its own path
	constBool := map[types.Object]string{}
	bindParam := func(name string, typ ast.Expr, val ast.Expr) ast.Stmt {
		if tv, ok := info.Types[val]; ok && tv.Value != nil && tv.Value.Kind() == constant.Bool && name != "_" {
			for obj, nm := range c.rename {
				if nm == name && !in.assignedIn(decl, obj) {
					if constant.BoolVal(tv.Value) {
						constBool[obj] = "true"
					} else {
						constBool[obj] = "false"
					}
				}
			}
		}
		if mentionsTypeParam(typ) {
			return &ast.AssignStmt{Lhs: []ast.Expr{nid(name)}, Tok: token.DEFINE, Rhs: []ast.Expr{val}}
		}
		return varDecl(name, c.expr(typ), val)
	}
	ai := 0
	for _, f := range decl.Type.Params.List {
		if len(f.Names) == 0 {
			binds = append(binds, bindParam("_", f.Type, call.Args[ai]))
			ai++
			continue
		}
		for _, nm := range f.Names {
			binds = append(binds, bindParam(localName(nm), f.Type, call.Args[ai]))
			ai++
		}
	}
	if in.closure[decl] {
		// closure form: `func() results { binds; body }()` in place of the call; returns stay returns and the
		// helper's defers run when its body ends, exactly as in a call
		cc := &copier{in: in, rename: c.rename, keepPos: c.keepPos, hostCopy: true}
		ft := &ast.FuncType{Func: call.Pos(), Params: &ast.FieldList{}}
		if decl.Type.Results != nil {
			ft.Results = cc.value(reflect.ValueOf(decl.Type.Results)).Interface().(*ast.FieldList)
		}
		body := &ast.BlockStmt{Lbrace: call.Pos(), List: append(binds, cc.stmtList(decl.Body.List)...), Rbrace: call.Rparen}
		*site.slot = &ast.CallExpr{Fun: &ast.FuncLit{Type: ft, Body: body}, Lparen: call.Lparen, Rparen: call.Rparen}
		return pre, s, true
	}
	var temps []ast.Expr
	if decl.Type.Results != nil {
		k := 0
		for _, f := range decl.Type.Results.List {
			names := f.Names
			if len(names) == 0 {
				names = []*ast.Ident{nil}
			}
			for _, nm := range names {
				name := localName(nm)
				if name == "_" {
					name = "r" + strconv.Itoa(k) + suffix
				}
				c.resNames = append(c.resNames, name)
				pre = append(pre, varDecl(name, c.expr(f.Type), nil))
				temps = append(temps, nid(name))
				k++
			}
		}
	}
	// early returns?
	var last ast.Stmt
	if n := len(decl.Body.List); n > 0 {
		last = decl.Body.List[n-1]
	}
	depth := 0
	var visit func(n ast.Node) bool
	visit = func(n ast.Node) bool {
		switch x := n.(type) {
		case *ast.FuncLit:
			depth++
			ast.Inspect(x.Body, visit)
			depth--
			return false
		case *ast.ReturnStmt:
			if depth == 0 && ast.Stmt(x) != last {
				c.switchMode = true
			}
		}
		return true
	}
	ast.Inspect(decl.Body, visit)
	c.label = "L" + suffix
	c.cf = in.factsOf(decl)
	if len(constBool) > 0 {
		c.subst = func(e ast.Expr) ast.Expr {
			if id, ok := e.(*ast.Ident); ok {
				if lit, ok := constBool[info.Uses[id]]; ok {
					return nid(lit)
				}
			}
			return nil
		}
	}
	body := c.stmtList(decl.Body.List)
	if len(constBool) > 0 {
		tmp := &ast.BlockStmt{List: body}
		simplifyConsts(tmp)
		body = tmp.List
	}
	exp := &expansion{label: c.label, sites: c.sites, switchMode: c.switchMode}
	for _, t := range temps {
		exp.temps = append(exp.temps, t.(*ast.Ident).Name)
	}
	in.exps = append(in.exps, exp)
	all := append(binds, body...)
	at := call.Pos()
	if c.switchMode {
		sw := &ast.SwitchStmt{Switch: at, Body: &ast.BlockStmt{Lbrace: at, Rbrace: at, List: []ast.Stmt{&ast.CaseClause{Case: at, Colon: at, Body: all}}}}
		pre = append(pre, &ast.LabeledStmt{Label: nid(c.label), Colon: at, Stmt: sw})
	} else {
		pre = append(pre, &ast.BlockStmt{Lbrace: at, Rbrace: at, List: all})
	}
	switch {
	case bare:
		return pre, nil, true
	case nres == 1:
		*site.slot = temps[0]
	default:
		if !tupleFix(temps) {
			panic("inline: tuple context vanished")
		}
	}
	return pre, s, true
}

// tupleContext finds the place where a multi-valued call is consumed whole and returns a function that
// replaces it by the given expressions.
func (in *inliner) tupleContext(s ast.Stmt, call *ast.CallExpr) func([]ast.Expr) bool {
	is := func(e ast.Expr) bool { return ast.Unparen(e) == ast.Expr(call) }
	var fix func([]ast.Expr) bool
	var look func(st ast.Stmt)
	look = func(st ast.Stmt) {
		switch x := st.(type) {
		case *ast.AssignStmt:
			if len(x.Rhs) == 1 && is(x.Rhs[0]) {
				fix = func(t []ast.Expr) bool { x.Rhs = t; return len(x.Lhs) == len(t) }
			}
		case *ast.ReturnStmt:
			if len(x.Results) == 1 && is(x.Results[0]) {
				fix = func(t []ast.Expr) bool { x.Results = t; return true }
			}
		case *ast.DeclStmt:
			if gd, ok := x.Decl.(*ast.GenDecl); ok {
				for _, sp := range gd.Specs {
					if vs, ok := sp.(*ast.ValueSpec); ok && len(vs.Values) == 1 && is(vs.Values[0]) {
						fix = func(t []ast.Expr) bool { vs.Values = t; return true }
					}
				}
			}
		case *ast.IfStmt:
			if x.Init != nil {
				look(x.Init)
			}
		case *ast.SwitchStmt:
			if x.Init != nil {
				look(x.Init)
			}
		case *ast.TypeSwitchStmt:
			if x.Init != nil {
				look(x.Init)
			}
		case *ast.ForStmt:
			if x.Init != nil {
				look(x.Init)
			}
		}
	}
	look(s)
	if fix != nil {
		return fix
	}
	// sole argument of another call: g(f())
	for _, slot := range immediateSlots(s) {
		ast.Inspect(*slot, func(n ast.Node) bool {
			switch x := n.(type) {
			case *ast.FuncLit:
				return false
			case *ast.CallExpr:
				if len(x.Args) == 1 && is(x.Args[0]) {
					fix = func(t []ast.Expr) bool { x.Args = t; return true }
				}
			}
			return fix == nil
		})
	}
	return fix
}

// ensureImport makes sure file imports path and returns the local name to use.
func (in *inliner) ensureImport(file *ast.File, path, wantName string) (string, bool) {
	m := in.fileImps[file]
	if m == nil {
		m = map[string]string{}
		for _, d := range file.Decls {
			gd, ok := d.(*ast.GenDecl)
			if !ok || gd.Tok != token.IMPORT {
				continue
			}
			for _, sp := range gd.Specs {
				is := sp.(*ast.ImportSpec)
				p, err := strconv.Unquote(is.Path.Value)
				if err != nil {
					continue
				}
				name := ""
				if is.Name != nil {
					name = is.Name.Name
				} else if pn, ok := in.info.Implicits[is].(*types.PkgName); ok {
					name = pn.Name()
				}
				m[p] = name
			}
		}
		in.fileImps[file] = m
	}
	if name, ok := m[path]; ok {
		if name == "" || name == "_" || name == "." {
			return "", false
		}
		return name, true
	}
	for _, n := range m {
		if n == wantName {
			return "", false
		}
	}
	is := &ast.ImportSpec{Name: nid(wantName), Path: &ast.BasicLit{Kind: token.STRING, Value: strconv.Quote(path)}}
	file.Imports = append(file.Imports, is)
	file.Decls = append([]ast.Decl{&ast.GenDecl{Tok: token.IMPORT, Specs: []ast.Spec{is}}}, file.Decls...)
	m[path] = wantName
	return wantName, true
}

// ---------------------------------------------------------------------------
// deep copy with renaming

type copier struct {
	in         *inliner
	rename     map[types.Object]string
	keepPos    []types.Object
	resNames   []string
	label      string
	switchMode bool
	depth      int
	subst      func(ast.Expr) ast.Expr // optional: replacement for an expression (already a fresh copy), or nil
	contLabel  string                  // unroll: `continue` of the unrolled loop becomes `break contLabel`
	breakLabel string                  // unroll: `break` of the unrolled loop becomes `break breakLabel`
	loops      int
	breakables int
	hostCopy   bool         // plain copy of caller statements: returns are left alone
	cf         *calleeFacts // facts used to classify returned values (inline_thread.go)
	sites      []*retSite
}

var (
	identPtrType  = reflect.TypeOf((*ast.Ident)(nil))
	objPtrType    = reflect.TypeOf((*ast.Object)(nil))
	scopePtrType  = reflect.TypeOf((*ast.Scope)(nil))
	cgPtrType     = reflect.TypeOf((*ast.CommentGroup)(nil))
	funcLitType   = reflect.TypeOf((*ast.FuncLit)(nil))
	returnPtrType = reflect.TypeOf((*ast.ReturnStmt)(nil))
)

func (c *copier) expr(e ast.Expr) ast.Expr {
	if e == nil {
		return nil
	}
	return c.value(reflect.ValueOf(e)).Interface().(ast.Expr)
}

func (c *copier) stmtList(l []ast.Stmt) []ast.Stmt {
	out := make([]ast.Stmt, 0, len(l))
	for _, s := range l {
		out = append(out, c.stmt(s))
	}
	return out
}

func (c *copier) stmt(s ast.Stmt) ast.Stmt {
	if rs, ok := s.(*ast.ReturnStmt); ok && c.depth == 0 && !c.hostCopy {
		return c.ret(rs)
	}
	return c.value(reflect.ValueOf(s)).Interface().(ast.Stmt)
}

func (c *copier) ret(rs *ast.ReturnStmt) ast.Stmt {
	var out []ast.Stmt
	if len(rs.Results) > 0 {
		var lhs, rhs []ast.Expr
		for _, n := range c.resNames {
			lhs = append(lhs, nid(n))
		}
		for _, r := range rs.Results {
			rhs = append(rhs, c.expr(r))
		}
		out = append(out, &ast.AssignStmt{Lhs: lhs, TokPos: rs.Return, Tok: token.ASSIGN, Rhs: rhs})
	}
	if c.switchMode {
		out = append(out, &ast.BranchStmt{TokPos: rs.Return, Tok: token.BREAK, Label: nid(c.label)})
	}
	blk := &ast.BlockStmt{Lbrace: rs.Return, List: out, Rbrace: rs.End()}
	if c.cf != nil {
		site := &retSite{blk: blk}
		if len(rs.Results) == len(c.resNames) {
			for _, r := range rs.Results {
				site.vals = append(site.vals, c.in.classify(c.cf, rs, r))
			}
		} else {
			site.vals = make([]absVal, len(c.resNames)) // bare return / tuple call: unknown
		}
		c.sites = append(c.sites, site)
	}
	return blk
}

func (c *copier) ident(id *ast.Ident) *ast.Ident {
	obj := c.in.info.Defs[id]
	if obj == nil {
		obj = c.in.info.Uses[id]
	}
	if obj != nil {
		if nm, ok := c.rename[obj]; ok {
			for _, k := range c.keepPos {
				if k == obj {
					return &ast.Ident{Name: nm, NamePos: id.NamePos}
				}
			}
			return &ast.Ident{Name: nm}
		}
	}
	return &ast.Ident{Name: id.Name, NamePos: id.NamePos}
}

func (c *copier) value(v reflect.Value) reflect.Value {
	switch v.Kind() {
	case reflect.Interface:
		if v.IsNil() {
			return v
		}
		el := v.Elem()
		var nv reflect.Value
		if c.subst != nil {
			if e, isExpr := el.Interface().(ast.Expr); isExpr {
				if r := c.subst(e); r != nil {
					out := reflect.New(v.Type()).Elem()
					out.Set(reflect.ValueOf(r))
					return out
				}
			}
		}
		if el.Type() == returnPtrType && c.depth == 0 && !c.hostCopy {
			nv = reflect.ValueOf(c.ret(el.Interface().(*ast.ReturnStmt)))
		} else {
			nv = c.value(el)
		}
		out := reflect.New(v.Type()).Elem()
		if nv.IsValid() {
			out.Set(nv)
		}
		return out
	case reflect.Ptr:
		if v.IsNil() {
			return v
		}
		switch v.Type() {
		case identPtrType:
			return reflect.ValueOf(c.ident(v.Interface().(*ast.Ident)))
		case objPtrType, scopePtrType, cgPtrType:
			return reflect.Zero(v.Type())
		case funcLitType:
			c.depth++
			defer func() { c.depth-- }()
		}
		if c.contLabel != "" || c.breakLabel != "" {
			switch x := v.Interface().(type) {
			case *ast.ForStmt, *ast.RangeStmt:
				c.loops++
				c.breakables++
				defer func() { c.loops--; c.breakables-- }()
			case *ast.SwitchStmt, *ast.TypeSwitchStmt, *ast.SelectStmt:
				c.breakables++
				defer func() { c.breakables-- }()
			case *ast.BranchStmt:
				if x.Label == nil && c.depth == 0 {
					if x.Tok == token.CONTINUE && c.loops == 0 && c.contLabel != "" {
						return reflect.ValueOf(&ast.BranchStmt{TokPos: x.TokPos, Tok: token.BREAK, Label: nid(c.contLabel)})
					}
					if x.Tok == token.BREAK && c.breakables == 0 && c.breakLabel != "" {
						return reflect.ValueOf(&ast.BranchStmt{TokPos: x.TokPos, Tok: token.BREAK, Label: nid(c.breakLabel)})
					}
				}
			}
		}
		if v.Elem().Kind() != reflect.Struct {
			return v
		}
		nv := reflect.New(v.Elem().Type())
		for i := 0; i < v.Elem().NumField(); i++ {
			f := nv.Elem().Field(i)
			if f.CanSet() {
				f.Set(c.value(v.Elem().Field(i)))
			}
		}
		return nv
	case reflect.Slice:
		if v.IsNil() {
			return v
		}
		nv := reflect.MakeSlice(v.Type(), v.Len(), v.Len())
		for i := 0; i < v.Len(); i++ {
			nv.Index(i).Set(c.value(v.Index(i)))
		}
		return nv
	case reflect.Struct:
		nv := reflect.New(v.Type()).Elem()
		for i := 0; i < v.NumField(); i++ {
			if nv.Field(i).CanSet() {
				nv.Field(i).Set(c.value(v.Field(i)))
			}
		}
		return nv
	}
	return v
}

// ---------------------------------------------------------------------------
// re-type-checking and the driver

func retypecheck(pk *packages.Package) error {
	info := &types.Info{
		Types:        map[ast.Expr]types.TypeAndValue{},
		Defs:         map[*ast.Ident]types.Object{},
		Uses:         map[*ast.Ident]types.Object{},
		Implicits:    map[ast.Node]types.Object{},
		Instances:    map[*ast.Ident]types.Instance{},
		Scopes:       map[ast.Node]*types.Scope{},
		Selections:   map[*ast.SelectorExpr]*types.Selection{},
		FileVersions: map[*ast.File]string{},
	}
	var hard []string
	conf := types.Config{
		Importer: importerFunc(func(path string) (*types.Package, error) {
			if path == "unsafe" {
				return types.Unsafe, nil
			}
			ip := pk.Imports[path]
			if ip == nil || ip.Types == nil {
				return nil, fmt.Errorf("no package for import %q", path)
			}
			return ip.Types, nil
		}),
		Sizes: pk.TypesSizes,
		Error: func(err error) {
			if te, ok := err.(types.Error); ok && te.Soft {
				return
			}
			if len(hard) < 5 {
				hard = append(hard, err.Error())
			}
		},
	}
	if pk.Module != nil && pk.Module.GoVersion != "" {
		conf.GoVersion = "go" + pk.Module.GoVersion
	}
	tp, _ := conf.Check(pk.PkgPath, pk.Fset, pk.Syntax, info)
	if len(hard) > 0 {
		return fmt.Errorf("%s", strings.Join(hard, "; "))
	}
	pk.Types = tp
	pk.TypesInfo = info
	return nil
}

type importerFunc func(path string) (*types.Package, error)

func (f importerFunc) Import(path string) (*types.Package, error) { return f(path) }

// retypecheckAll re-checks main and then every loaded package that (transitively) imports it.
func retypecheckAll(pkgs []*packages.Package, main *packages.Package) error {
	if err := retypecheck(main); err != nil {
		return err
	}
	dep := map[*packages.Package]bool{main: true}
	var firstErr error
	packages.Visit(pkgs, nil, func(p *packages.Package) { // post-order: dependencies first
		if p == main || firstErr != nil {
			return
		}
		for _, ip := range p.Imports {
			if dep[ip] {
				dep[p] = true
			}
		}
		if dep[p] {
			if err := retypecheck(p); err != nil {
				firstErr = fmt.Errorf("%s: %v", p.PkgPath, err)
			}
		}
	})
	return firstErr
}

// inlineHelpers transforms main's syntax in place.  On error the ASTs are in an undefined state and the
// caller must reload the packages.
func inlineHelpers(pkgs []*packages.Package, main *packages.Package) (*InlineStats, error) {
	st := &InlineStats{Inlined: map[string]int{}, Left: map[string]int{}}
	seq := 0
	if log := renameBack(main); len(log) > 0 {
		st.Renamed = log
		if err := retypecheckAll(pkgs, main); err != nil {
			return st, fmt.Errorf("after undoing renames %v: %v", log, err)
		}
	}
	for round := 1; round <= maxInlineRounds; round++ {
		in := newInliner(main, st, &seq)
		if in.run() == 0 {
			break
		}
		st.Rounds = round
		if err := retypecheckAll(pkgs, main); err != nil {
			return st, fmt.Errorf("round %d: %v", round, err)
		}
	}
	if st.Rounds == 0 {
		return st, nil
	}
	// remove helper declarations nothing refers to any more
	for iter := 0; iter < 4; iter++ {
		info := main.TypesInfo
		refs := map[types.Object]int{}
		for _, obj := range info.Uses {
			if f, ok := obj.(*types.Func); ok {
				refs[f]++
			}
		}
		removed := 0
		for _, f := range main.Syntax {
			if isTestFile(main, f) {
				continue
			}
			kept := f.Decls[:0:0]
			for _, d := range f.Decls {
				if fd, ok := d.(*ast.FuncDecl); ok && fd.Body != nil {
					key := declKey(fd)
					if !baselineFuncs[key] && st.Inlined[key] > 0 && !ast.IsExported(fd.Name.Name) && refs[info.Defs[fd.Name]] == 0 {
						st.Removed = append(st.Removed, key)
						removed++
						continue
					}
				}
				kept = append(kept, d)
			}
			f.Decls = kept
		}
		if removed == 0 {
			break
		}
		if err := retypecheckAll(pkgs, main); err != nil {
			return st, fmt.Errorf("after removing unreferenced helpers: %v", err)
		}
	}
	info := main.TypesInfo
	for _, obj := range info.Uses {
		if f, ok := obj.(*types.Func); ok && f.Pkg() == main.Types {
			key := f.Name()
			if sig, ok := f.Type().(*types.Signature); ok && sig.Recv() != nil {
				t := sig.Recv().Type()
				ptr := ""
				if pt, ok := t.(*types.Pointer); ok {
					ptr = "*"
					t = pt.Elem()
				}
				if n, ok := t.(*types.Named); ok {
					key = "(" + ptr + n.Obj().Name() + ")." + f.Name()
				}
			}
			if st.Inlined[key] > 0 {
				st.Left[key]++
			}
		}
	}
	sort.Strings(st.Removed)
	return st, nil
}

// dumpInlined writes the transformed files of main to dir (debugging aid: -dump-inlined).
func dumpInlined(main *packages.Package, dir string) error {
	if err := os.MkdirAll(dir, 0o755); err != nil {
		return err
	}
	for _, f := range main.Syntax {
		name := filepath.Base(main.Fset.Position(f.Pos()).Filename)
		out, err := os.Create(filepath.Join(dir, name))
		if err != nil {
			return err
		}
		cfg := printer.Config{Mode: printer.UseSpaces | printer.TabIndent, Tabwidth: 8}
		f2 := *f
		f2.Comments = nil
		if err := cfg.Fprint(out, main.Fset, &f2); err != nil {
			fmt.Fprintf(out, "\n// printer error: %v\n", err)
		}
		out.Close()
	}
	return nil
}
