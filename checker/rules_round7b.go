package main

// rules_round7b.go: more rules from the seventh round (changes outside the anchored functions).

import (
	"fmt"
	"go/token"
	"go/types"
	"strings"

	"golang.org/x/tools/go/ssa"
)

// condIsNilTestOf: cond (possibly negated) compares v-satisfying operand with nil.
func nilTestOperand(cond ssa.Value) ssa.Value {
	c, _ := stripNot(cond)
	bo, ok := c.(*ssa.BinOp)
	if !ok || (bo.Op != token.EQL && bo.Op != token.NEQ) {
		return nil
	}
	if isNilConst(bo.Y) {
		return unwrap(bo.X)
	}
	if isNilConst(bo.X) {
		return unwrap(bo.Y)
	}
	return nil
}

// ---------------------------------------------------------------------------
// C30/clone-cell: GetExportOptions hands out a Clone of the stored TLS settings, and certificate rotation goes
// through that clone: Clone must always share the certificate cell of the settings it copies.

func runC30CloneCell(c *Ctx, P string) {
	p := c.P
	c.rule(P, "clone-cell", "TLSConfig.Clone hands the certificate cell on unconditionally", 1)
	cl := p.Fn("(*TLSConfig).Clone")
	if cl == nil || cl.Blocks == nil {
		c.undecided(P, "clone-cell", "fn=(*TLSConfig).Clone", "", "not found")
		return
	}
	recv := cl.Params[0]
	var at ssa.Instruction
	why := "Clone never stores the receiver's currentCert into the copy"
	for _, b := range cl.Blocks {
		for _, in := range b.Instrs {
			st, ok := in.(*ssa.Store)
			if !ok {
				continue
			}
			_, f, isFA := fieldAddrOf(st.Addr)
			if !isFA || f == nil || f.Name() != "currentCert" {
				continue
			}
			base, lf, isLoad := fieldLoad(unwrap(st.Val))
			if !isLoad || lf == nil || lf.Name() != "currentCert" || unwrap(base) != ssa.Value(recv) {
				continue
			}
			at, why = in, ""
			for _, ifi := range controlEdges(b) {
				if op := nilTestOperand(ifi.Cond); op != nil && op == ssa.Value(recv) {
					continue
				}
				why = "the hand-over of the certificate cell at " + p.instrPos(in) + " depends on the test at " + p.instrPos(ifi) + " (" + ifi.Cond.String() + ")"
			}
		}
	}
	pos := p.pos(cl.Pos())
	if at != nil {
		pos = p.instrPos(at)
	}
	c.verdictIf(why == "", P, "clone-cell", "fn=(*TLSConfig).Clone", pos, "the copy shares the certificate cell",
		"TLSConfig.Clone does not always share the certificate cell ("+why+"): the TLSConfig GetExportOptions hands out, or the one a policy update stores, then reloads into a cell no listener reads, and ReloadCertificates succeeds without effect")
}

// ---------------------------------------------------------------------------
// C27/mappings-copy: DUMP answers from Portmapper.GetMappings; what it returns must be built from the table in
// that very call (a cached snapshot can be stale after an in-place port update).

func runC27MappingsCopy(c *Ctx, P string) {
	p := c.P
	c.rule(P, "mappings-copy", "Portmapper.GetMappings returns a slice made and filled in the same call", 1)
	gm := p.Fn("(*Portmapper).GetMappings")
	if gm == nil || gm.Blocks == nil {
		c.undecided(P, "mappings-copy", "fn=GetMappings", "", "not found")
		return
	}
	fl := newFlow(p)
	why := ""
	n := 0
	for _, b := range gm.Blocks {
		if b == gm.Recover || len(b.Instrs) == 0 {
			continue
		}
		r, ok := b.Instrs[len(b.Instrs)-1].(*ssa.Return)
		if !ok || len(r.Results) == 0 {
			continue
		}
		n++
		for _, o := range fl.Origins(retVal(r, 0)) {
			switch o.Kind {
			case "make", "const", "zero", "builtin":
			case "outparam":
				// filled by copy(result, table)
				if !strings.Contains(o.Desc, "builtin:copy") {
					why = "the return at " + p.instrPos(r) + " can hand out " + o.Desc
				}
			default:
				why = "the return at " + p.instrPos(r) + " can hand out " + o.Desc
			}
		}
	}
	if n == 0 {
		why = "no return found"
	}
	c.verdictIf(why == "", P, "mappings-copy", "fn=(*Portmapper).GetMappings", p.pos(gm.Pos()), "fresh copy of the table",
		"GetMappings does not always return a copy made from the table in that call ("+why+"): DUMP can report a registration that has since been changed while GETPORT reports the new one")
}

// ---------------------------------------------------------------------------
// key-agreement (C02, C26): a cache entry stored under one spelling of a path and invalidated under another is
// never invalidated.  In both caches the key used by Get, Put (PutNegative) and Invalidate is the path argument
// itself, in all of them or in none.

func runCacheKeyAgreement(c *Ctx, P string) {
	p := c.P
	c.rule(P, "key-agreement", "Get, Put and Invalidate of each cache index the map with the same function of the path argument", 2)
	for _, spec := range []struct {
		owner, field string
		methods      []string
	}{
		{"AttrCache", "cache", []string{"Get", "Put", "PutNegative", "Invalidate"}},
		{"DirCache", "entries", []string{"Get", "Put", "Invalidate"}},
	} {
		forms := map[string][]string{}
		for _, m := range spec.methods {
			fn := p.Fn("(*" + spec.owner + ")." + m)
			if fn == nil || fn.Blocks == nil || len(fn.Params) < 2 {
				continue
			}
			path := fn.Params[1]
			add := func(key ssa.Value) {
				k := unwrap(key)
				form := "other:" + k.String()
				if k == ssa.Value(path) {
					form = "param"
				} else if call, ok := k.(*ssa.Call); ok {
					if f := staticCallee(call); f != nil && len(call.Call.Args) > 0 && unwrap(call.Call.Args[0]) == ssa.Value(path) {
						form = "call:" + qualFn(f)
					}
				}
				forms[form] = append(forms[form], m)
			}
			for _, b := range fn.Blocks {
				for _, in := range b.Instrs {
					switch x := in.(type) {
					case *ssa.Lookup:
						if _, ok := isLoadOfField(x.X, spec.owner, spec.field); ok {
							add(x.Index)
						}
					case *ssa.MapUpdate:
						if _, ok := isLoadOfField(x.Map, spec.owner, spec.field); ok {
							add(x.Key)
						}
					default:
						if k, ok := isDeleteOn(in, spec.owner, spec.field); ok {
							// eviction deletes keys taken from the LRU list, not the argument
							if _, isParamish := unwrap(k).(*ssa.Parameter); isParamish || strings.HasPrefix(m, "Invalidate") {
								add(k)
							}
						}
					}
				}
			}
		}
		key := "cache=" + spec.owner
		if len(forms) == 0 {
			c.undecided(P, "key-agreement", key, "", "no keyed access found")
			continue
		}
		var desc []string
		for f, ms := range forms {
			desc = append(desc, f+" in "+strings.Join(dedupe(ms), "/"))
		}
		c.verdictIf(len(forms) == 1, P, "key-agreement", key, "", "one key form",
			"the methods of "+spec.owner+" do not index the map with the same function of the path ("+strings.Join(desc, "; ")+"): an entry stored under one spelling is never invalidated under the other, so a listing or attribute cached before a mutation keeps being served")
	}
}

func dedupe(in []string) []string {
	seen := map[string]bool{}
	var out []string
	for _, s := range in {
		if !seen[s] {
			seen[s] = true
			out = append(out, s)
		}
	}
	return out
}

// ---------------------------------------------------------------------------
// C21/neg-switch: switching negative caching off (or changing its TTL) at run time must reach the cache: in
// applyTuningSideEffects the call of ConfigureNegativeCaching depends only on old-versus-updated comparisons and
// on the cache being there, not on the new value itself.

func runC21NegSwitch(c *Ctx, P string) {
	p := c.P
	c.rule(P, "neg-switch", "applyTuningSideEffects calls ConfigureNegativeCaching whenever the negative-caching settings differ (no test of the new value alone)", 1)
	fn := p.Fn("(*AbsfsNFS).applyTuningSideEffects")
	if fn == nil || fn.Blocks == nil {
		c.undecided(P, "neg-switch", "fn=applyTuningSideEffects", "", "not found")
		return
	}
	n := 0
	for _, call := range calls(fn) {
		f := staticCallee(call)
		if f == nil || fnKey(f) != "(*AttrCache).ConfigureNegativeCaching" {
			continue
		}
		n++
		why := ""
		for _, ifi := range controlEdges(call.Block()) {
			if nilTestOperand(ifi.Cond) != nil {
				continue
			}
			cond, _ := stripNot(ifi.Cond)
			if bo, ok := cond.(*ssa.BinOp); ok && (bo.Op == token.NEQ || bo.Op == token.EQL) {
				_, lf, lok := fieldLoad(unwrap(bo.X))
				_, rf, rok := fieldLoad(unwrap(bo.Y))
				if lok && rok && lf != nil && rf != nil && lf.Name() == rf.Name() {
					continue
				}
			}
			why = "the call also depends on the test at " + p.instrPos(ifi) + " (" + ifi.Cond.String() + ")"
		}
		c.verdictIf(why == "", P, "neg-switch", fmt.Sprintf("call=applyTuningSideEffects:ConfigureNegativeCaching#%d", n), p.instrPos(call), "reached whenever the settings differ",
			"a run-time change of the negative-caching settings does not always reach the cache ("+why+"): after negative caching is switched off the cache keeps its negative entries, keeps answering from them and keeps adding new ones")
	}
	if n == 0 {
		c.bad(P, "neg-switch", "call=applyTuningSideEffects:ConfigureNegativeCaching", p.pos(fn.Pos()), "applyTuningSideEffects never calls ConfigureNegativeCaching: a run-time change of negative caching never reaches the cache")
	}
}

// ---------------------------------------------------------------------------
// verbatim-config (C24, C29): the tuning record built from the caller's ExportOptions carries each value as
// given (defaults are applyDefaults' business): every field stored by tuningFromExportOptions is the same-named
// field of its argument, a conversion of it, or a copy of what it points to.

func runVerbatimConfig(c *Ctx, P string) {
	p := c.P
	c.rule(P, "verbatim-config", "tuningFromExportOptions stores each tuning field from the same-named ExportOptions field, unmodified", 10)
	fn := p.Fn("tuningFromExportOptions")
	if fn == nil || fn.Blocks == nil || len(fn.Params) == 0 {
		c.undecided(P, "verbatim-config", "fn=tuningFromExportOptions", "", "not found")
		return
	}
	opts := fn.Params[0]
	n := 0
	for _, b := range fn.Blocks {
		for _, in := range b.Instrs {
			st, ok := in.(*ssa.Store)
			if !ok {
				continue
			}
			base, f, isFA := fieldAddrOf(st.Addr)
			if !isFA || f == nil || recvTypeName(base.Type()) != "TuningOptions" {
				continue
			}
			n++
			key := "field=TuningOptions." + f.Name()
			v := unwrap(st.Val)
			if cv, ok := v.(*ssa.Convert); ok {
				v = unwrap(cv.X)
			}
			good := false
			if sb, sf, isLoad := fieldLoad(v); isLoad && sf != nil && sf.Name() == f.Name() && unwrap(sb) == ssa.Value(opts) {
				good = true
			}
			// pointer fields: a fresh copy (Alloc) filled from *opts.F, or nil
			if _, isAlloc := v.(*ssa.Alloc); isAlloc {
				good = true
			}
			if _, isPtr := f.Type().Underlying().(*types.Pointer); isPtr {
				if _, isConst := v.(*ssa.Const); isConst {
					good = true
				}
				// a clone helper applied to the same-named field
				if call, isCall := v.(*ssa.Call); isCall && len(call.Call.Args) == 1 {
					if sb, sf, isLoad := fieldLoad(unwrap(call.Call.Args[0])); isLoad && sf != nil && sf.Name() == f.Name() && unwrap(sb) == ssa.Value(opts) {
						good = true
					}
				}
				if _, isPhi := v.(*ssa.Phi); isPhi {
					good = true
				}
			}
			c.verdictIf(good, P, "verbatim-config", key, p.instrPos(in), "stored as given",
				"tuningFromExportOptions does not store TuningOptions."+f.Name()+" as the caller gave it ("+st.Val.String()+"): a value the transformation maps to zero is then replaced by the default (a 1ns cache TTL becomes seconds), so the server runs with a setting the caller did not choose")
		}
	}
	if n == 0 {
		c.undecided(P, "verbatim-config", "fn=tuningFromExportOptions", p.pos(fn.Pos()), "no field stores found")
	}
}

// ---------------------------------------------------------------------------
// C22/backend-identity: the durability point is File.Sync of the filesystem the server was given.  The field the
// request path uses as backend is stored only from New's own argument: a wrapper put in between can turn Sync
// into a no-op while every rule that looks at the calls still sees them.

func runBackendIdentity(c *Ctx, P string) {
	p := c.P
	c.rule(P, "backend-identity", "AbsfsNFS.fs is only ever the filesystem New was given (no wrapper in between)", 1)
	n := 0
	fl := newFlow(p)
	for _, fn := range p.SrcFuncs {
		for _, b := range fn.Blocks {
			for _, in := range b.Instrs {
				st, ok := in.(*ssa.Store)
				if !ok {
					continue
				}
				base, f, isFA := fieldAddrOf(st.Addr)
				if !isFA || f == nil || f.Name() != "fs" || recvTypeName(base.Type()) != "AbsfsNFS" {
					continue
				}
				n++
				key := fmt.Sprintf("store=%s:AbsfsNFS.fs#%d", fnKey(fn), n)
				why := ""
				for _, o := range fl.Origins(st.Val) {
					if o.Kind == "param" {
						if prm, ok := o.Val.(*ssa.Parameter); ok && prm.Parent() != nil && prm.Parent().Name() == "New" {
							continue
						}
					}
					why = o.Desc
				}
				c.verdictIf(why == "", P, "backend-identity", key, p.instrPos(in), "New's argument",
					"the backend the request path talks to is not the filesystem New was given ("+why+"): a wrapper between the server and the backend can swallow File.Sync, so data acknowledged FILE_SYNC or covered by COMMIT is not on stable storage")
			}
		}
	}
	if n == 0 {
		c.undecided(P, "backend-identity", "field=AbsfsNFS.fs", "", "no store to the backend field found")
	}
}
