package main

// rules_c16b.go: C16/swap "stores-on-success" (borrowed by C08).  An accepted
// policy update must put the new policy in force: every return of
// UpdatePolicyOptions that reports success has passed policy.Store.  The one
// accepted exception is an "unchanged" fast path, and only when the
// comparison that guards it looks at EVERY field of PolicyOptions — a
// comparison that forgets a field (say ReadOnly) silently drops updates that
// change only that field.

import (
	"sort"
	"strings"

	"golang.org/x/tools/go/ssa"
)

func runC16StoresOnSuccess(c *Ctx, P string, upd *ssa.Function) {
	isStore := func(in ssa.Instruction) bool {
		ci, ok := in.(ssa.CallInstruction)
		return ok && atomicPtrOp(ci, "Store") && len(ci.Common().Args) > 0 && isMutexField(ci.Common().Args[0], "policy")
	}
	storesOnSuccess(c, P, upd, "fn=UpdatePolicyOptions stores-on-success", "UpdatePolicyOptions", isStore)
	// the export-level entry point must hand every accepted update on to UpdatePolicyOptions
	if ueo := c.P.Fn("(*AbsfsNFS).UpdateExportOptions"); ueo != nil && len(ueo.Blocks) > 0 {
		forwards := func(in ssa.Instruction) bool {
			ci, ok := in.(ssa.CallInstruction)
			if !ok {
				return false
			}
			f := staticCallee(ci)
			return f == upd || isStore(in)
		}
		storesOnSuccess(c, P, ueo, "fn=UpdateExportOptions forwards-policy", "UpdateExportOptions", forwards)
	}
}

func storesOnSuccess(c *Ctx, P string, upd *ssa.Function, key, name string, isStore func(ssa.Instruction) bool) {
	p := c.P
	res := follow(followSpec{Fn: upd, Start: []*ssa.BasicBlock{upd.Blocks[0]}, Closes: isStore,
		ExitOK: func(r *ssa.Return) bool {
			return len(r.Results) > 0 && !isNilConst(retVal(r, len(r.Results)-1))
		}})
	if res.OK {
		c.ok(P, "swap", key, p.pos(upd.Pos()), "every successful return has stored the new policy")
		return
	}
	// a success return without the store: accept only an exhaustive "nothing changed" guard
	all := structFields(p, "PolicyOptions")
	var missing []string
	guarded := false
	if res.At != nil {
		for _, f := range p.facts(res.At.Block()) {
			call, ok := f.V.(*ssa.Call)
			if !ok || !f.Val {
				continue
			}
			g := call.Call.StaticCallee()
			if g == nil || g.Pkg != p.Pkg || len(g.Blocks) == 0 {
				continue
			}
			read := map[string]bool{}
			for _, h := range append([]*ssa.Function{g}, funcsReach(p, g)...) {
				if h.Pkg != p.Pkg {
					continue
				}
				for _, b := range h.Blocks {
					for _, in := range b.Instrs {
						if fa, ok := in.(*ssa.FieldAddr); ok && recvTypeName(fa.X.Type()) == "PolicyOptions" {
							if fld := fieldOf(fa.X.Type(), fa.Field); fld != nil {
								read[fld.Name()] = true
							}
						}
						if fx, ok := in.(*ssa.Field); ok && recvTypeName(fx.X.Type()) == "PolicyOptions" {
							if fld := fieldOf(fx.X.Type(), fx.Field); fld != nil {
								read[fld.Name()] = true
							}
						}
					}
				}
			}
			guarded = true
			missing = nil
			for _, name := range all {
				if !read[name] {
					missing = append(missing, name)
				}
			}
			if len(missing) == 0 {
				break
			}
		}
	}
	sort.Strings(missing)
	pos := p.pos(upd.Pos())
	if res.At != nil {
		pos = p.instrPos(res.At)
	}
	switch {
	case guarded && len(missing) == 0:
		c.ok(P, "swap", key, pos, "the only success return without a store is guarded by a comparison of every PolicyOptions field (nothing to swap)")
	case guarded:
		c.bad(P, "swap", key, pos, name+" reports success without storing the new policy when a comparison finds it unchanged, but that comparison ignores PolicyOptions."+strings.Join(missing, ", ")+": an update that changes only such a field (e.g. switching ReadOnly on) is accepted and never takes effect")
	default:
		c.bad(P, "swap", key, pos, name+" can report success on a path that never stores the new policy ("+p.pathString(res.Witness)+"): the accepted update does not take effect")
	}
}
