package main

// rules_round6.go: rules added after the sixth round of seeded changes.
//
// C02/tree-scan.  RENAME relies on InvalidateTree dropping every cached entry at or below a name (a renamed
// directory takes its descendants with it; negative entries beneath a name survive the name's own removal).
// The rule decides the shape of both InvalidateTree implementations: the deletion from the cache map sits in
// a loop whose header every return of the function is dominated by (no early exit skips the scan), and between
// the loop header and the deletion only the membership tests (key == path, strings.HasPrefix(key, ...)) and
// the loop's own continuation test are branched on.

import (
	"fmt"
	"go/token"
	"go/types"

	"golang.org/x/tools/go/ssa"
)

func runC02TreeScan(c *Ctx, P string) {
	p := c.P
	c.rule(P, "tree-scan", "InvalidateTree scans the whole cache map on every path to its return and deletes every key equal to or below the name", 2)
	for _, spec := range []struct{ owner, field string }{{"AttrCache", "cache"}, {"DirCache", "entries"}} {
		key := "fn=(*" + spec.owner + ").InvalidateTree"
		fn := p.Fn("(*" + spec.owner + ").InvalidateTree")
		if fn == nil || fn.Blocks == nil {
			c.undecided(P, "tree-scan", key, "", "function not found")
			continue
		}
		var del ssa.Instruction
		for _, b := range fn.Blocks {
			for _, in := range b.Instrs {
				if _, ok := isDeleteOn(in, spec.owner, spec.field); ok {
					// the deletion of the scan, not a single-entry removal next to it
					if del == nil || enclosingLoopHeader(del.Block()) == nil {
						del = in
					}
				}
			}
		}
		if del == nil {
			// delegation to a helper is followed once
			var inner *ssa.Function
			for _, call := range calls(fn) {
				if f := staticCallee(call); f != nil && f.Blocks != nil && p.byName[fnKey(f)] == f {
					for _, b := range f.Blocks {
						for _, in := range b.Instrs {
							if _, ok := isDeleteOn(in, spec.owner, spec.field); ok {
								del, inner = in, f
							}
						}
					}
				}
			}
			if del == nil {
				c.bad(P, "tree-scan", key, p.pos(fn.Pos()), "InvalidateTree never deletes from "+spec.owner+"."+spec.field)
				continue
			}
			fn = inner
		}
		hdr := enclosingLoopHeader(del.Block())
		if hdr == nil {
			c.bad(P, "tree-scan", key, p.instrPos(del), "the deletion is not inside a loop over the cache: only one entry can go, cached descendants of a renamed directory stay")
			continue
		}
		why := ""
		for _, b := range fn.Blocks {
			if len(b.Instrs) == 0 || b == fn.Recover {
				continue
			}
			if _, isRet := b.Instrs[len(b.Instrs)-1].(*ssa.Return); !isRet {
				continue
			}
			if !(hdr == b || hdr.Dominates(b)) {
				why = fmt.Sprintf("the return at %s is reachable without running the scan (loop at %s): entries at or below the name can survive a rename", p.instrPos(b.Instrs[len(b.Instrs)-1]), p.pos(firstPos(hdr)))
			}
		}
		if why == "" {
			// conditions between the loop header and the deletion
			for d := del.Block(); d != nil && d != hdr; d = d.Idom() {
				id := d.Idom()
				if id == nil {
					break
				}
				ifi := blockIf(id)
				if ifi == nil {
					continue
				}
				if !treeScanCondOK(ifi.Cond) {
					why = fmt.Sprintf("the deletion is further restricted by the test at %s (%s): some entries at or below the name stay cached", p.instrPos(ifi), ifi.Cond.String())
				}
			}
		}
		c.verdictIf(why == "", P, "tree-scan", key, p.instrPos(del), "every return follows the scan; deletion guarded by the membership tests only", why)
	}
}

// treeScanCondOK: the loop's continuation test, a string (in)equality, or strings.HasPrefix (possibly negated).
func treeScanCondOK(v ssa.Value) bool {
	v, _ = stripNot(v)
	switch x := v.(type) {
	case *ssa.Extract:
		_, isNext := x.Tuple.(*ssa.Next)
		return isNext
	case *ssa.BinOp:
		if x.Op == token.EQL || x.Op == token.NEQ {
			if bt, ok := x.X.Type().Underlying().(*types.Basic); ok && bt.Info()&types.IsString != 0 {
				return true
			}
		}
		// index loop over collected keys: i < len(keys)
		if x.Op == token.LSS {
			return true
		}
	case *ssa.Call:
		if f := staticCallee(x); f != nil && f.Pkg != nil && f.Pkg.Pkg.Path() == "strings" && f.Name() == "HasPrefix" {
			return true
		}
	case *ssa.Phi:
		// a lowered `a || b`
		for _, e := range x.Edges {
			if _, isC := e.(*ssa.Const); isC {
				continue
			}
			if !treeScanCondOK(e) {
				return false
			}
		}
		return true
	}
	return false
}

// enclosingLoopHeader: the nearest dominator of b (or b itself) that has a predecessor it dominates.
func enclosingLoopHeader(b *ssa.BasicBlock) *ssa.BasicBlock {
	for d := b; d != nil; d = d.Idom() {
		for _, pr := range d.Preds {
			if d == pr || d.Dominates(pr) {
				// b must be inside the loop: some back-edge source is reachable from b
				if reaches(b, pr) {
					return d
				}
			}
		}
	}
	return nil
}

func reaches(from, to *ssa.BasicBlock) bool {
	seen := map[*ssa.BasicBlock]bool{}
	var walk func(b *ssa.BasicBlock) bool
	walk = func(b *ssa.BasicBlock) bool {
		if b == to {
			return true
		}
		if seen[b] {
			return false
		}
		seen[b] = true
		for _, s := range b.Succs {
			if walk(s) {
				return true
			}
		}
		return false
	}
	return walk(from)
}

// controlEdges: the tests whose outcome decides whether b runs — every If on b's dominator chain one of whose
// successors is (a single-predecessor block) on the chain.
func controlEdges(b *ssa.BasicBlock) []*ssa.If {
	var out []*ssa.If
	for d := b; d != nil && d.Idom() != nil; d = d.Idom() {
		id := d.Idom()
		ifi := blockIf(id)
		if ifi == nil || len(d.Preds) != 1 || d.Preds[0] != id {
			continue
		}
		out = append(out, ifi)
	}
	return out
}

func firstPos(b *ssa.BasicBlock) token.Pos {
	for _, in := range b.Instrs {
		if in.Pos().IsValid() {
			return in.Pos()
		}
	}
	for _, s := range b.Succs {
		for _, in := range s.Instrs {
			if in.Pos().IsValid() {
				return in.Pos()
			}
		}
	}
	return token.NoPos
}
