package main

// rules_round6d.go
//
// C01/read-size (also reported under C29): the number of bytes a READ asks the backend for is bounded by a size
// obtained in the same call (File.Stat of the opened file), never by a size remembered in an NFSAttrs record:
// the node's attributes are maintained only approximately under concurrency (a LOOKUP overlapping a WRITE can
// swap in an older record), so a READ clamped by them returns a short read no serial execution could produce.
// Decided: no origin of the length of the buffer handed to the backend ReadAt, in the READ call tree, is a load
// of an NFSAttrs field.
//
// C26/entry-skip: a directory listing may skip an entry whose own lookup failed (it vanished), but not because
// the deadline of the whole listing expired: then every remaining entry is dropped and the reply still says
// eof.  Decided: in ReadDirWithContext no call that is handed the listing's context and sits in a loop has a
// failure edge that continues the loop.

import (
	"fmt"
	"strings"

	"golang.org/x/tools/go/ssa"
)

func runReadSize(c *Ctx, P string) {
	p := c.P
	c.rule(P, "read-size", "the length of the buffer READ hands to the backend ReadAt has no origin in a remembered NFSAttrs record", 1)
	rd := p.Fn("(*AbsfsNFS).ReadWithContext")
	if rd == nil {
		c.undecided(P, "read-size", "fn=ReadWithContext", "", "not found")
		return
	}
	reach := p.reachableFrom([]*ssa.Function{rd})
	fl := newFlow(p)
	fl.ThroughInPkg = true
	n := 0
	for _, fn := range p.SrcFuncs {
		if !reach[fn] {
			continue
		}
		for _, call := range calls(fn) {
			bc := asBackendCall(call)
			if bc == nil || !bc.OnFile || (bc.Method != "ReadAt" && bc.Method != "Read") || len(call.Common().Args) == 0 {
				continue
			}
			n++
			key := fmt.Sprintf("buf=%s:%s#%d", fnKey(fn), bc.Method, ordinal(fn, call))
			why := ""
			for _, lv := range sliceLenValues(call.Common().Args[0], 0) {
				for _, o := range fl.Origins(lv) {
					if o.Kind == "field" && o.Fld != nil && o.Base != nil && recvTypeName(o.Base.Type()) == "NFSAttrs" {
						why = "NFSAttrs." + o.Fld.Name()
					}
				}
			}
			c.verdictIf(why == "", P, "read-size", key, p.instrPos(call), "bounded by sizes obtained in this call only",
				"the number of bytes READ asks the backend for is bounded by "+why+", a size remembered in an attribute record: after a LOOKUP or WRITE overlapping another WRITE the record is older than the file and READ returns a short read although the data is there")
		}
	}
	if n == 0 {
		c.undecided(P, "read-size", "fn=ReadWithContext", p.pos(rd.Pos()), "no backend ReadAt in the READ call tree")
	}
}

// sliceLenValues: the values that determine len() of slice v (length of its make, upper bound of a reslice).
func sliceLenValues(v ssa.Value, depth int) []ssa.Value {
	if depth > 6 {
		return nil
	}
	switch x := unwrap(v).(type) {
	case *ssa.MakeSlice:
		return []ssa.Value{x.Len}
	case *ssa.Slice:
		var out []ssa.Value
		if x.High != nil {
			out = append(out, x.High)
		}
		return append(out, sliceLenValues(x.X, depth+1)...)
	case *ssa.Phi:
		var out []ssa.Value
		for _, e := range x.Edges {
			out = append(out, sliceLenValues(e, depth+1)...)
		}
		return out
	}
	return nil
}

func runC26EntrySkip(c *Ctx, P string) {
	p := c.P
	c.rule(P, "entry-skip", "in ReadDirWithContext no call that takes the listing's context has a failure edge that continues the entry loop", 1)
	rd := p.Fn("(*AbsfsNFS).ReadDirWithContext")
	if rd == nil {
		c.undecided(P, "entry-skip", "fn=ReadDirWithContext", "", "not found")
		return
	}
	var ctxParam *ssa.Parameter
	for _, prm := range rd.Params {
		if strings.HasSuffix(prm.Type().String(), "context.Context") {
			ctxParam = prm
		}
	}
	if ctxParam == nil {
		c.ok(P, "entry-skip", "fn=ReadDirWithContext", p.pos(rd.Pos()), "the listing has no context")
		return
	}
	n := 0
	for _, call := range calls(rd) {
		takes := false
		for _, a := range call.Common().Args {
			if unwrap(a) == ssa.Value(ctxParam) {
				takes = true
			}
			if strings.HasSuffix(a.Type().String(), "context.Context") {
				for _, o := range newFlow(p).Origins(a) {
					if o.Val == ssa.Value(ctxParam) {
						takes = true
					}
					// a context derived for the whole listing (context.WithTimeout(ctx, ReaddirTimeout))
					if o.Kind == "call" && o.Call != nil && o.Call.Parent() == rd {
						if f := staticCallee(o.Call); f != nil && f.Pkg != nil && f.Pkg.Pkg.Path() == "context" && strings.HasPrefix(f.Name(), "With") && enclosingLoopHeader(o.Call.Block()) == nil {
							takes = true
						}
					}
				}
			}
		}
		if !takes {
			continue
		}
		hdr := enclosingLoopHeader(call.Block())
		if hdr == nil {
			continue
		}
		_, fail, ok := errFailEdge(call)
		if !ok {
			continue
		}
		n++
		key := fmt.Sprintf("call=ReadDirWithContext:%s#%d", shortCallee(call), ordinal(rd, call))
		// from the failure edge: reaching the loop header again before any return is a skip
		skips := false
		seen := map[*ssa.BasicBlock]bool{}
		var walk func(b *ssa.BasicBlock)
		walk = func(b *ssa.BasicBlock) {
			if seen[b] || skips {
				return
			}
			seen[b] = true
			if b == hdr {
				skips = true
				return
			}
			for _, s := range b.Succs {
				walk(s)
			}
		}
		walk(fail)
		c.verdictIf(!skips, P, "entry-skip", key, p.instrPos(call), "a failure of this call ends the listing with an error",
			"a per-entry call that runs under the listing's own deadline skips the entry when it fails: once the READDIR deadline passes every remaining entry is dropped silently and the reply still ends with eof")
	}
	if n == 0 {
		c.ok(P, "entry-skip", "fn=ReadDirWithContext", p.pos(rd.Pos()), "no call inside the entry loops takes the listing's context")
	}
}

// errFailEdge: the successor taken when the error result of call is non-nil.
func errFailEdge(call ssa.CallInstruction) (succ, fail *ssa.BasicBlock, ok bool) {
	s, f, ok := errSuccessEdge(call)
	return s, f, ok
}
