package main

// core.go: loading /repo, SSA, call graph, and the small IR helper layer all
// rules are written against.  Nothing here executes repository code.

import (
	"fmt"
	"go/ast"
	"go/constant"
	"go/token"
	"go/types"
	"os"
	"reflect"
	"sort"
	"strings"

	"golang.org/x/tools/go/callgraph"
	"golang.org/x/tools/go/callgraph/cha"
	"golang.org/x/tools/go/callgraph/vta"
	"golang.org/x/tools/go/packages"
	"golang.org/x/tools/go/ssa"
	"golang.org/x/tools/go/ssa/ssautil"
)

const (
	absnfsPath = "github.com/absfs/absnfs"
	absfsPath  = "github.com/absfs/absfs"
)

// Prog is the loaded, type-checked, SSA-built program.
type Prog struct {
	RepoDir  string
	Fset     *token.FileSet
	Pkgs     []*packages.Package
	Main     *packages.Package // the absnfs package
	SSA      *ssa.Program
	Pkg      *ssa.Package
	CG       *callgraph.Graph
	SrcFuncs []*ssa.Function // all functions (incl. closures, instantiations excluded) with source in absnfs
	byName   map[string]*ssa.Function
	callers  map[*ssa.Function][]*CallSite // in-package call sites per callee (static + VTA-resolved)
	succ     map[*ssa.Function][]*ssa.Function
	siteCallees map[ssa.CallInstruction][]*ssa.Function
	NInstr   int
	GOOS     string
	GOARCH   string
	Inline   *InlineStats // helper inlining performed before SSA construction (inline.go)
}

// noInline switches helper inlining off (-no-inline); dumpInlinedDir receives the transformed sources.
var (
	noInline       bool
	dumpInlinedDir string
)

// CallSite is one call instruction resolved to one in-package callee.
type CallSite struct {
	Caller *ssa.Function
	Instr  ssa.CallInstruction
	Callee *ssa.Function
}

func loadProg(repo, goos, goarch string, tests bool) (*Prog, error) {
	env := append(os.Environ(), "GOFLAGS=-mod=mod", "GOPROXY=off", "GOSUMDB=off", "GOTOOLCHAIN=local", "GOWORK=off")
	if goos != "" {
		env = append(env, "GOOS="+goos)
	}
	if goarch != "" {
		env = append(env, "GOARCH="+goarch, "CGO_ENABLED=0")
	}
	cfg := &packages.Config{Mode: packages.LoadAllSyntax, Dir: repo, Env: env, Tests: tests}
	pkgs, err := packages.Load(cfg, ".", "./cmd/...")
	if err != nil {
		return nil, fmt.Errorf("packages.Load: %v", err)
	}
	if len(pkgs) == 0 {
		return nil, fmt.Errorf("no packages loaded from %s", repo)
	}
	var errs []string
	packages.Visit(pkgs, nil, func(p *packages.Package) {
		for _, e := range p.Errors {
			errs = append(errs, e.Error())
		}
	})
	if len(errs) > 0 {
		return nil, fmt.Errorf("type/load errors in %s: %s", repo, strings.Join(errs, "; "))
	}
	p := &Prog{RepoDir: repo, Pkgs: pkgs, GOOS: goos, GOARCH: goarch}
	for _, pk := range pkgs {
		if pk.PkgPath == absnfsPath && !strings.HasSuffix(pk.ID, ".test") && !strings.Contains(pk.ID, "[") {
			p.Main = pk
		}
	}
	if p.Main == nil {
		for _, pk := range pkgs {
			if pk.PkgPath == absnfsPath {
				p.Main = pk
			}
		}
	}
	if p.Main == nil {
		return nil, fmt.Errorf("package %s not among loaded packages", absnfsPath)
	}
	p.Fset = p.Main.Fset
	if !noInline {
		st, ierr := inlineHelpers(pkgs, p.Main)
		if ierr != nil {
			// the ASTs are half-transformed: load again and analyse the code as written
			noInline = true
			q, err := loadProg(repo, goos, goarch, tests)
			noInline = false
			if err != nil {
				return nil, err
			}
			st.Disabled = ierr.Error()
			q.Inline = st
			return q, nil
		}
		p.Inline = st
		if dumpInlinedDir != "" && st.Rounds > 0 {
			if err := dumpInlined(p.Main, dumpInlinedDir); err != nil {
				return nil, err
			}
		}
	}
	buildMode := ssa.InstantiateGenerics
	if p.Inline != nil && p.Inline.Rounds > 0 {
		buildMode |= ssa.BuildSerially // a panic of the builder on normalised code must be recoverable here
	}
	sp, _ := ssautil.AllPackages(pkgs, buildMode)
	if buildErr := func() (err error) {
		defer func() {
			if r := recover(); r != nil {
				err = fmt.Errorf("go/ssa could not build the normalised package: %v", r)
			}
		}()
		sp.Build()
		return nil
	}(); buildErr != nil {
		if noInline || p.Inline == nil {
			return nil, buildErr
		}
		// the normalisation produced something the SSA builder rejects: analyse the code as written
		st := p.Inline
		noInline = true
		q, err := loadProg(repo, goos, goarch, tests)
		noInline = false
		if err != nil {
			return nil, err
		}
		st.Disabled = buildErr.Error()
		q.Inline = st
		return q, nil
	}
	p.SSA = sp
	p.Pkg = sp.Package(p.Main.Types)
	if p.Pkg == nil {
		return nil, fmt.Errorf("no SSA package for %s", absnfsPath)
	}
	all := ssautil.AllFunctions(sp)
	p.CG = vta.CallGraph(all, cha.CallGraph(sp))
	p.byName = map[string]*ssa.Function{}
	for fn := range all {
		if fn.Pkg != p.Pkg && !(fn.Parent() != nil && rootFn(fn).Pkg == p.Pkg) {
			continue
		}
		if fn.Synthetic != "" && fn.Parent() == nil {
			// wrappers/thunks/instantiations: keep bound-method wrappers out
			if !strings.HasPrefix(fn.Synthetic, "package initializer") {
				continue
			}
		}
		if fn.Blocks == nil {
			continue
		}
		pos := fn.Pos()
		if pos.IsValid() {
			file := p.Fset.Position(pos).Filename
			if strings.HasSuffix(file, "_test.go") {
				continue
			}
		}
		p.SrcFuncs = append(p.SrcFuncs, fn)
		p.byName[fnKey(fn)] = fn
		for _, b := range fn.Blocks {
			p.NInstr += len(b.Instrs)
		}
	}
	sort.Slice(p.SrcFuncs, func(i, j int) bool { return fnKey(p.SrcFuncs[i]) < fnKey(p.SrcFuncs[j]) })
	p.callers = map[*ssa.Function][]*CallSite{}
	p.succ = map[*ssa.Function][]*ssa.Function{}
	p.siteCallees = map[ssa.CallInstruction][]*ssa.Function{}
	inSrc := map[*ssa.Function]bool{}
	for _, fn := range p.SrcFuncs {
		inSrc[fn] = true
	}
	for _, fn := range p.SrcFuncs {
		node := p.CG.Nodes[fn]
		if node == nil {
			continue
		}
		for _, e := range node.Out {
			if e.Site == nil {
				continue
			}
			for _, target := range p.throughSyntheticCG(e.Callee.Func, inSrc, 0) {
				p.callers[target] = append(p.callers[target], &CallSite{Caller: fn, Instr: e.Site, Callee: target})
				p.succ[fn] = append(p.succ[fn], target)
				p.siteCallees[e.Site] = append(p.siteCallees[e.Site], target)
			}
		}
	}
	for _, cs := range p.callers {
		sort.Slice(cs, func(i, j int) bool {
			if cs[i].Caller != cs[j].Caller {
				return fnKey(cs[i].Caller) < fnKey(cs[j].Caller)
			}
			return cs[i].Instr.Pos() < cs[j].Instr.Pos()
		})
	}
	return p, nil
}

// throughSyntheticCG resolves a call-graph callee to source functions, looking
// through synthetic thunks / bound-method wrappers (method expressions in the
// dispatch table, method values).
func (p *Prog) throughSyntheticCG(f *ssa.Function, inSrc map[*ssa.Function]bool, depth int) []*ssa.Function {
	if inSrc[f] {
		return []*ssa.Function{f}
	}
	if f == nil || f.Synthetic == "" || depth > 2 {
		return nil
	}
	if f.Pkg != nil && f.Pkg != p.Pkg {
		return nil
	}
	node := p.CG.Nodes[f]
	if node == nil {
		return nil
	}
	var out []*ssa.Function
	for _, e := range node.Out {
		out = append(out, p.throughSyntheticCG(e.Callee.Func, inSrc, depth+1)...)
	}
	return out
}

func rootFn(fn *ssa.Function) *ssa.Function {
	for fn.Parent() != nil {
		fn = fn.Parent()
	}
	return fn
}

// fnKey is a stable, position-free name: "(*T).m", "f", "(*T).m$1".
func fnKey(fn *ssa.Function) string {
	if fn == nil {
		return "<nil>"
	}
	if fn.Parent() != nil {
		// closure: parentKey$N
		name := fn.Name() // e.g. "HandleCall$1"
		idx := strings.LastIndex(name, "$")
		suffix := ""
		if idx >= 0 {
			suffix = name[idx:]
		}
		return fnKey(fn.Parent()) + suffix
	}
	if recv := fn.Signature.Recv(); recv != nil {
		t := recv.Type()
		ptr := ""
		if pt, ok := t.(*types.Pointer); ok {
			ptr = "*"
			t = pt.Elem()
		}
		tn := t.String()
		if named, ok := t.(*types.Named); ok {
			tn = named.Obj().Name()
		}
		if ptr != "" {
			return "(*" + tn + ")." + fn.Name()
		}
		return "(" + tn + ")." + fn.Name()
	}
	return fn.Name()
}

// Fn returns the function with the given key or nil.
func (p *Prog) Fn(key string) *ssa.Function { return p.byName[key] }

func (p *Prog) pos(pos token.Pos) string {
	if !pos.IsValid() {
		return "-"
	}
	ps := p.Fset.Position(pos)
	f := ps.Filename
	if strings.HasPrefix(f, p.RepoDir+"/") {
		f = f[len(p.RepoDir)+1:]
	}
	return fmt.Sprintf("%s:%d", f, ps.Line)
}

func (p *Prog) instrPos(i ssa.Instruction) string {
	if i == nil || (reflect.ValueOf(i).Kind() == reflect.Ptr && reflect.ValueOf(i).IsNil()) {
		return "-"
	}
	pos := i.Pos()
	if !pos.IsValid() {
		// fall back to nearest instruction with a position in the block
		if b := i.Block(); b != nil {
			for _, j := range b.Instrs {
				if j.Pos().IsValid() {
					pos = j.Pos()
					break
				}
			}
		}
	}
	return p.pos(pos)
}

// ---------------------------------------------------------------------------
// type lookups

func (p *Prog) namedType(name string) *types.Named {
	obj := p.Main.Types.Scope().Lookup(name)
	if obj == nil {
		return nil
	}
	n, _ := obj.Type().(*types.Named)
	return n
}

// field returns the *types.Var of struct field typ.name in package absnfs.
func (p *Prog) field(typ, name string) *types.Var {
	n := p.namedType(typ)
	if n == nil {
		return nil
	}
	st, ok := n.Underlying().(*types.Struct)
	if !ok {
		return nil
	}
	for i := 0; i < st.NumFields(); i++ {
		if st.Field(i).Name() == name {
			return st.Field(i)
		}
	}
	return nil
}

func (p *Prog) constVal(name string) (int64, bool) {
	obj := p.Main.Types.Scope().Lookup(name)
	c, ok := obj.(*types.Const)
	if !ok {
		return 0, false
	}
	v, ok := constant.Int64Val(constant.ToInt(c.Val()))
	return v, ok
}

// ---------------------------------------------------------------------------
// instruction classification

// staticCallee returns the statically known callee (function or method) or nil.
func staticCallee(c ssa.CallInstruction) *ssa.Function {
	return c.Common().StaticCallee()
}

// calleeName returns a printable resolved name of the call target:
// "pkgpath.Func", "(pkgpath.T).Method" or "iface:pkgpath.I.Method".
func calleeName(c ssa.CallInstruction) string {
	cc := c.Common()
	if cc.IsInvoke() {
		return "iface:" + cc.Method.Pkg().Path() + "." + recvTypeName(cc.Value.Type()) + "." + cc.Method.Name()
	}
	if f := cc.StaticCallee(); f != nil {
		return qualFn(f)
	}
	if b, ok := cc.Value.(*ssa.Builtin); ok {
		return "builtin:" + b.Name()
	}
	return "dynamic"
}

func recvTypeName(t types.Type) string {
	if pt, ok := t.(*types.Pointer); ok {
		t = pt.Elem()
	}
	if n, ok := t.(*types.Named); ok {
		return n.Obj().Name()
	}
	return t.String()
}

// qualFn gives "pkgpath.Name" or "(pkgpath.T).Name" / "(*pkgpath.T).Name".
func qualFn(f *ssa.Function) string {
	if f == nil {
		return "<nil>"
	}
	if o := f.Origin(); o != nil {
		f = o
	}
	pk := ""
	if f.Pkg != nil {
		pk = f.Pkg.Pkg.Path()
	} else if f.Object() != nil && f.Object().Pkg() != nil {
		pk = f.Object().Pkg().Path()
	}
	if recv := f.Signature.Recv(); recv != nil {
		t := recv.Type()
		star := ""
		if pt, ok := t.(*types.Pointer); ok {
			star = "*"
			t = pt.Elem()
		}
		tn := t.String()
		if n, ok := t.(*types.Named); ok {
			tn = n.Obj().Name()
			if n.Obj().Pkg() != nil {
				pk = n.Obj().Pkg().Path()
			}
		}
		return "(" + star + pk + "." + tn + ")." + f.Name()
	}
	if f.Parent() != nil {
		return qualFn(f.Parent()) + "$closure"
	}
	return pk + "." + f.Name()
}

// isCallTo reports whether c statically calls the function qualified name q.
func isCallTo(c ssa.CallInstruction, q string) bool {
	f := staticCallee(c)
	return f != nil && qualFn(f) == q
}

// Backend call classification -------------------------------------------------

// backendCall describes an interface call into the absfs backend.
type backendCall struct {
	Instr  ssa.CallInstruction
	Method string // e.g. "Mkdir", "WriteAt"
	OnFile bool   // receiver is an absfs.File-like interface (File/Seekable/UnSeekable)
}

func asBackendCall(c ssa.CallInstruction) *backendCall {
	cc := c.Common()
	if !cc.IsInvoke() || cc.Method.Pkg() == nil || cc.Method.Pkg().Path() != absfsPath {
		return nil
	}
	rt := recvTypeName(cc.Value.Type())
	onFile := rt == "File" || rt == "Seekable" || rt == "UnSeekable"
	return &backendCall{Instr: c, Method: cc.Method.Name(), OnFile: onFile}
}

// calls enumerates all call instructions (call, go, defer) of fn in block order.
func calls(fn *ssa.Function) []ssa.CallInstruction {
	var out []ssa.CallInstruction
	for _, b := range fn.Blocks {
		for _, in := range b.Instrs {
			if c, ok := in.(ssa.CallInstruction); ok {
				out = append(out, c)
			}
		}
	}
	return out
}

// ordinal returns the 1-based index of c among calls in fn with the same
// resolved callee name, ordered by source position (stable under unrelated edits).
func ordinal(fn *ssa.Function, c ssa.CallInstruction) int {
	name := calleeName(c)
	var same []ssa.CallInstruction
	for _, d := range calls(fn) {
		if calleeName(d) == name {
			same = append(same, d)
		}
	}
	sort.SliceStable(same, func(i, j int) bool { return same[i].Pos() < same[j].Pos() })
	for i, d := range same {
		if d == c {
			return i + 1
		}
	}
	return 0
}

func shortCallee(c ssa.CallInstruction) string {
	n := calleeName(c)
	n = strings.ReplaceAll(n, absnfsPath+".", "")
	n = strings.ReplaceAll(n, absfsPath+".", "absfs.")
	return n
}

// ---------------------------------------------------------------------------
// value helpers

func unwrap(v ssa.Value) ssa.Value {
	for {
		switch x := v.(type) {
		case *ssa.ChangeType:
			v = x.X
		case *ssa.Convert:
			v = x.X
		case *ssa.MakeInterface:
			v = x.X
		case *ssa.ChangeInterface:
			v = x.X
		default:
			return v
		}
	}
}

// fieldLoad: if v is a load `*(&x.f)` or a Field(x,f) returns base x and the field var.
func fieldLoad(v ssa.Value) (base ssa.Value, fld *types.Var, ok bool) {
	switch x := v.(type) {
	case *ssa.UnOp:
		if x.Op != token.MUL {
			return nil, nil, false
		}
		if fa, ok2 := x.X.(*ssa.FieldAddr); ok2 {
			return fa.X, fieldOf(fa.X.Type(), fa.Field), true
		}
	case *ssa.Field:
		return x.X, fieldOf(x.X.Type(), x.Field), true
	}
	return nil, nil, false
}

func fieldOf(t types.Type, idx int) *types.Var {
	if pt, ok := t.Underlying().(*types.Pointer); ok {
		t = pt.Elem()
	}
	st, ok := t.Underlying().(*types.Struct)
	if !ok || idx >= st.NumFields() {
		return nil
	}
	return st.Field(idx)
}

// fieldAddrOf: if v is &x.f returns x and the field var.
func fieldAddrOf(v ssa.Value) (ssa.Value, *types.Var, bool) {
	if fa, ok := v.(*ssa.FieldAddr); ok {
		return fa.X, fieldOf(fa.X.Type(), fa.Field), true
	}
	return nil, nil, false
}

func constInt(v ssa.Value) (int64, bool) {
	if v == nil {
		return 0, false
	}
	c, ok := unwrap(v).(*ssa.Const)
	if !ok || c.Value == nil {
		return 0, false
	}
	if c.Value.Kind() != constant.Int {
		return 0, false
	}
	if i, ok := constant.Int64Val(c.Value); ok {
		return i, true
	}
	if u, ok := constant.Uint64Val(c.Value); ok {
		return int64(u), true
	}
	return 0, false
}

func constStr(v ssa.Value) (string, bool) {
	if v == nil {
		return "", false
	}
	c, ok := unwrap(v).(*ssa.Const)
	if !ok || c.Value == nil || c.Value.Kind() != constant.String {
		return "", false
	}
	return constant.StringVal(c.Value), true
}

func isNilConst(v ssa.Value) bool {
	c, ok := v.(*ssa.Const)
	return ok && c.Value == nil
}

// ---------------------------------------------------------------------------
// CFG helpers (SSA basic blocks)

type edge struct{ From, To *ssa.BasicBlock }

// reachAvoiding computes blocks reachable from start without crossing any edge in cut
// and without entering blocks in stop.  start itself is included.
func reachAvoiding(start []*ssa.BasicBlock, cut map[edge]bool, stop map[*ssa.BasicBlock]bool) map[*ssa.BasicBlock]bool {
	seen := map[*ssa.BasicBlock]bool{}
	var stack []*ssa.BasicBlock
	for _, s := range start {
		if !stop[s] && !seen[s] {
			seen[s] = true
			stack = append(stack, s)
		}
	}
	for len(stack) > 0 {
		b := stack[len(stack)-1]
		stack = stack[:len(stack)-1]
		for _, s := range b.Succs {
			if cut[edge{b, s}] || stop[s] || seen[s] {
				continue
			}
			seen[s] = true
			stack = append(stack, s)
		}
	}
	return seen
}

// condEdges decodes an If: for a branch on value v with optional negation,
// returns (trueSucc, falseSucc) relative to the *inner* value after stripping '!'.
func stripNot(v ssa.Value) (ssa.Value, bool) {
	neg := false
	for {
		u, ok := v.(*ssa.UnOp)
		if !ok || u.Op != token.NOT {
			return v, neg
		}
		neg = !neg
		v = u.X
	}
}

func blockIf(b *ssa.BasicBlock) *ssa.If {
	if len(b.Instrs) == 0 {
		return nil
	}
	i, _ := b.Instrs[len(b.Instrs)-1].(*ssa.If)
	return i
}

// A condFact is "value V is true/false on this edge".
type condFact struct {
	V   ssa.Value
	Val bool
}

// edgeFacts returns the facts known on edge from→to (only the direct If condition,
// with negations stripped).
func edgeFacts(from, to *ssa.BasicBlock) []condFact {
	ifi := blockIf(from)
	if ifi == nil || len(from.Succs) != 2 {
		return nil
	}
	if from.Succs[0] == from.Succs[1] {
		return nil
	}
	v, neg := stripNot(ifi.Cond)
	val := to == from.Succs[0]
	if neg {
		val = !val
	}
	out := []condFact{{v, val}}
	return append(out, impliedByPhi(v, val, 0)...)
}

// impliedByPhi: when a branch tests a boolean that merges several tests
// (`ok := false; if a { ok = b }`, a lowered `a && b`, the result of an inlined predicate helper with an
// early `return false`), and only ONE incoming edge of the phi can give it the tested value, taking the branch
// implies everything that holds on that edge: the facts controlling the predecessor, the predecessor's own
// branch fact, and the (non-constant) incoming value itself.  Disjunctions (several edges can give the value)
// yield nothing.
var impliedBusy = map[*ssa.Phi]bool{}

type impliedKey struct {
	phi *ssa.Phi
	val bool
}

var impliedCache = map[impliedKey][]condFact{}

func impliedByPhi(v ssa.Value, val bool, depth int) []condFact {
	phi, ok := v.(*ssa.Phi)
	if !ok || depth > 3 || impliedBusy[phi] {
		return nil
	}
	if b, ok := phi.Type().Underlying().(*types.Basic); !ok || b.Info()&types.IsBoolean == 0 {
		return nil
	}
	live, n := -1, 0
	for i, e := range phi.Edges {
		if k, isC := e.(*ssa.Const); isC && k.Value != nil && k.Value.Kind() == constant.Bool && constant.BoolVal(k.Value) != val {
			continue
		}
		n++
		live = i
	}
	if n != 1 || live >= len(phi.Block().Preds) {
		return nil
	}
	ck := impliedKey{phi, val}
	if r, ok := impliedCache[ck]; ok {
		return r
	}
	impliedBusy[phi] = true
	defer delete(impliedBusy, phi)
	pred := phi.Block().Preds[live]
	var out []condFact
	defer func() { impliedCache[ck] = out }()
	if f, ok := factsCache[pred]; ok {
		out = append(out, f...)
	} else {
		f := controllingFacts(pred.Parent(), pred)
		if len(impliedBusy) == 1 {
			factsCache[pred] = f // complete: no other merged flag was being expanded while it was computed
		}
		out = append(out, f...)
	}
	if ifi := blockIf(pred); ifi != nil && len(pred.Succs) == 2 && pred.Succs[0] != pred.Succs[1] {
		cv, neg := stripNot(ifi.Cond)
		cval := phi.Block() == pred.Succs[0]
		if neg {
			cval = !cval
		}
		out = append(out, condFact{cv, cval})
		out = append(out, impliedByPhi(cv, cval, depth+1)...)
	}
	if _, isC := phi.Edges[live].(*ssa.Const); !isC {
		ev, neg := stripNot(phi.Edges[live])
		eval := val
		if neg {
			eval = !eval
		}
		out = append(out, condFact{ev, eval})
		out = append(out, impliedByPhi(ev, eval, depth+1)...)
	}
	return out
}

// guardedBy reports whether every path from fn entry to target block crosses an
// edge on which pred(fact) holds.  pred classifies an edge fact as "safe".
func guardedBy(fn *ssa.Function, target *ssa.BasicBlock, safe func(condFact) bool) bool {
	cut := map[edge]bool{}
	for _, b := range fn.Blocks {
		for _, s := range b.Succs {
			for _, f := range edgeFacts(b, s) {
				if safe(f) {
					cut[edge{b, s}] = true
				}
			}
		}
	}
	if len(fn.Blocks) == 0 {
		return false
	}
	r := reachAvoiding([]*ssa.BasicBlock{fn.Blocks[0]}, cut, nil)
	return !r[target]
}

// controllingFacts returns the set of edge facts that hold on EVERY path from
// entry to block b (i.e. facts whose edges cut all paths).  Computed per
// candidate fact by the cut test; facts are compared by (value, polarity).
func controllingFacts(fn *ssa.Function, b *ssa.BasicBlock) []condFact {
	type key struct {
		v   ssa.Value
		val bool
	}
	cands := map[key][]edge{}
	for _, blk := range fn.Blocks {
		for _, s := range blk.Succs {
			for _, f := range edgeFacts(blk, s) {
				k := key{f.V, f.Val}
				cands[k] = append(cands[k], edge{blk, s})
			}
		}
	}
	var out []condFact
	for k, es := range cands {
		cut := map[edge]bool{}
		for _, e := range es {
			cut[e] = true
		}
		r := reachAvoiding([]*ssa.BasicBlock{fn.Blocks[0]}, cut, nil)
		if !r[b] {
			out = append(out, condFact{k.v, k.val})
		}
	}
	sort.Slice(out, func(i, j int) bool { return out[i].V.Name() < out[j].V.Name() })
	return out
}

// instrIndex returns the index of in within its block.
func instrIndex(in ssa.Instruction) int {
	for i, x := range in.Block().Instrs {
		if x == in {
			return i
		}
	}
	return -1
}

// mustFollow: starting right after instruction `from` (or at the start of blocks
// `startBlocks` if from==nil), does every path to a function exit (Return)
// execute an instruction satisfying `closes`?  Deferred closers registered
// before the start (dominating) or on the path count.  Paths ending in panic
// are ignored.  Returns ok and, when not ok, a witness block path.
type followResult struct {
	OK      bool
	Witness []*ssa.BasicBlock
}

func mustFollow(fn *ssa.Function, from ssa.Instruction, startBlocks []*ssa.BasicBlock, closes func(ssa.Instruction) bool, stopEdge func(from, to *ssa.BasicBlock) bool) followResult {
	// deferred closer that dominates the start?
	type st struct {
		b   *ssa.BasicBlock
		idx int
	}
	var starts []st
	if from != nil {
		starts = append(starts, st{from.Block(), instrIndex(from) + 1})
		for _, b := range fn.Blocks {
			for _, in := range b.Instrs {
				if d, ok := in.(*ssa.Defer); ok && closes(d) {
					if b == from.Block() && instrIndex(in) < instrIndex(from) {
						return followResult{OK: true}
					}
					if b != from.Block() && b.Dominates(from.Block()) {
						return followResult{OK: true}
					}
				}
			}
		}
	}
	for _, b := range startBlocks {
		starts = append(starts, st{b, 0})
	}
	parent := map[*ssa.BasicBlock]*ssa.BasicBlock{}
	seen := map[*ssa.BasicBlock]bool{}
	var queue []*ssa.BasicBlock
	// scan returns true if block (from idx) closes before ending; else whether it exits.
	scan := func(b *ssa.BasicBlock, idx int) (closed, exits bool) {
		for i := idx; i < len(b.Instrs); i++ {
			in := b.Instrs[i]
			if closes(in) {
				return true, false
			}
			if _, ok := in.(*ssa.Return); ok {
				return false, true
			}
		}
		return false, false
	}
	var witnessEnd *ssa.BasicBlock
	for _, s := range starts {
		closed, exits := scan(s.b, s.idx)
		if closed {
			continue
		}
		if exits {
			return followResult{OK: false, Witness: []*ssa.BasicBlock{s.b}}
		}
		for _, nx := range s.b.Succs {
			if stopEdge != nil && stopEdge(s.b, nx) {
				continue
			}
			if !seen[nx] {
				seen[nx] = true
				parent[nx] = s.b
				queue = append(queue, nx)
			}
		}
	}
	for len(queue) > 0 && witnessEnd == nil {
		b := queue[0]
		queue = queue[1:]
		closed, exits := scan(b, 0)
		if closed {
			continue
		}
		if exits {
			witnessEnd = b
			break
		}
		for _, nx := range b.Succs {
			if stopEdge != nil && stopEdge(b, nx) {
				continue
			}
			if !seen[nx] {
				seen[nx] = true
				parent[nx] = b
				queue = append(queue, nx)
			}
		}
	}
	if witnessEnd == nil {
		return followResult{OK: true}
	}
	var path []*ssa.BasicBlock
	for b := witnessEnd; b != nil; b = parent[b] {
		path = append([]*ssa.BasicBlock{b}, path...)
		if len(path) > 64 {
			break
		}
	}
	return followResult{OK: false, Witness: path}
}

func (p *Prog) pathString(path []*ssa.BasicBlock) string {
	var parts []string
	for _, b := range path {
		line := "-"
		for _, in := range b.Instrs {
			if in.Pos().IsValid() {
				line = fmt.Sprint(p.Fset.Position(in.Pos()).Line)
				break
			}
		}
		parts = append(parts, fmt.Sprintf("b%d@L%s", b.Index, line))
	}
	return strings.Join(parts, " -> ")
}

// errSuccessEdge: for a call whose (last) result is an error, find the If that
// tests it against nil and return the successor block taken when err == nil,
// plus the failure successor.  ok=false when the error is not tested this way.
func errSuccessEdge(call ssa.CallInstruction) (succ, fail *ssa.BasicBlock, ok bool) {
	v := call.Value()
	if v == nil {
		return nil, nil, false
	}
	var errVals []ssa.Value
	if tup, isTup := v.Type().(*types.Tuple); isTup {
		for _, ref := range *v.Referrers() {
			if ex, ok := ref.(*ssa.Extract); ok && ex.Index == tup.Len()-1 {
				errVals = append(errVals, ex)
			}
		}
	} else {
		errVals = append(errVals, v)
	}
	// error stored into a local cell (captured by a deferred closure): use the
	// loads of that cell that follow the store in the same block.
	for _, ev := range append([]ssa.Value{}, errVals...) {
		if ev.Referrers() == nil {
			continue
		}
		for _, ref := range *ev.Referrers() {
			st, ok := ref.(*ssa.Store)
			if !ok || st.Val != ev {
				continue
			}
			blk := st.Block()
			after := false
			for _, in := range blk.Instrs {
				if in == ssa.Instruction(st) {
					after = true
					continue
				}
				if !after {
					continue
				}
				if s2, ok := in.(*ssa.Store); ok && s2.Addr == st.Addr {
					break
				}
				if ld, ok := in.(*ssa.UnOp); ok && ld.Op == token.MUL && ld.X == st.Addr {
					errVals = append(errVals, ld)
				}
			}
		}
	}
	for _, ev := range errVals {
		if ev.Referrers() == nil {
			continue
		}
		for _, ref := range *ev.Referrers() {
			bo, isBin := ref.(*ssa.BinOp)
			if !isBin || (bo.Op != token.NEQ && bo.Op != token.EQL) {
				continue
			}
			if !(isNilConst(bo.X) || isNilConst(bo.Y)) {
				continue
			}
			for _, r2 := range *bo.Referrers() {
				ifi, isIf := r2.(*ssa.If)
				if !isIf {
					continue
				}
				blk := ifi.Block()
				if bo.Op == token.NEQ {
					return blk.Succs[1], blk.Succs[0], true
				}
				return blk.Succs[0], blk.Succs[1], true
			}
		}
	}
	return nil, nil, false
}

// funcOfNode: AST lookup for a source function declaration by key (for doc/AST rules)
func (p *Prog) funcDecl(key string) *ast.FuncDecl {
	fn := p.Fn(key)
	if fn == nil {
		return nil
	}
	if d, ok := fn.Syntax().(*ast.FuncDecl); ok {
		return d
	}
	return nil
}

// reachableFrom returns the set of in-package functions reachable from the
// roots through in-package call edges (static + VTA), following `go` and
// `defer` too.
func (p *Prog) reachableFrom(roots []*ssa.Function) map[*ssa.Function]bool {
	inSrc := map[*ssa.Function]bool{}
	for _, fn := range p.SrcFuncs {
		inSrc[fn] = true
	}
	seen := map[*ssa.Function]bool{}
	var stack []*ssa.Function
	for _, r := range roots {
		if r != nil && !seen[r] {
			seen[r] = true
			stack = append(stack, r)
		}
	}
	for len(stack) > 0 {
		fn := stack[len(stack)-1]
		stack = stack[:len(stack)-1]
		for _, c := range p.succ[fn] {
			if inSrc[c] && !seen[c] {
				seen[c] = true
				stack = append(stack, c)
			}
		}
		// closures created in fn (MakeClosure) are reachable when referenced
		for _, anon := range fn.AnonFuncs {
			if inSrc[anon] && !seen[anon] {
				seen[anon] = true
				stack = append(stack, anon)
			}
		}
	}
	return seen
}

// calleesAt returns in-package callees of a call instruction (static or via call graph).
func (p *Prog) calleesAt(fn *ssa.Function, c ssa.CallInstruction) []*ssa.Function {
	if f := staticCallee(c); f != nil {
		if p.byName[fnKey(f)] == f {
			return []*ssa.Function{f}
		}
		return nil
	}
	out := append([]*ssa.Function{}, p.siteCallees[c]...)
	sort.Slice(out, func(i, j int) bool { return fnKey(out[i]) < fnKey(out[j]) })
	return out
}
