package main

import (
	"sort"

	"golang.org/x/tools/go/ssa"
)

// statusConsts resolves an integer-typed SSA value to the finite set of
// constants it can take: constants, phis of constants, conversions, local
// variable cells whose stores are all resolvable, and results of in-package
// functions whose every return value is resolvable (mapError,
// validateFilename, validateMode, ...).  ok=false when some origin is not a
// constant (the caller reports `undecided`).
func statusConsts(p *Prog, v ssa.Value, depth int) ([]int64, bool) {
	vals, _, ok := statusConstsSrc(p, v, "")
	return vals, ok
}

// statusConstsSrc additionally reports, per constant, the functions whose
// code introduces it (position-free provenance for finding keys).
func statusConstsSrc(p *Prog, v ssa.Value, inFn string) ([]int64, map[int64][]string, bool) {
	ce := &constEval{p: p, set: map[int64]map[string]bool{}, seen: map[ssa.Value]bool{}}
	ok := ce.eval(v, inFn, 0)
	var out []int64
	src := map[int64][]string{}
	for k, m := range ce.set {
		out = append(out, k)
		for s := range m {
			src[k] = append(src[k], s)
		}
		sort.Strings(src[k])
	}
	sort.Slice(out, func(i, j int) bool { return out[i] < out[j] })
	return out, src, ok
}

type constEval struct {
	p    *Prog
	set  map[int64]map[string]bool
	seen map[ssa.Value]bool
}

func (ce *constEval) add(k int64, where string) {
	if ce.set[k] == nil {
		ce.set[k] = map[string]bool{}
	}
	ce.set[k][where] = true
}

func (ce *constEval) eval(v ssa.Value, where string, depth int) bool {
	p := ce.p
	if ce.seen[v] {
		return true
	}
	if _, isConst := v.(*ssa.Const); !isConst {
		ce.seen[v] = true
	}
	if depth > 8 {
		return false
	}
	switch x := v.(type) {
	case *ssa.Const:
		if i, ok := constInt(x); ok {
			ce.add(i, where)
			return true
		}
		return false
	case *ssa.Convert:
		return ce.eval(x.X, where, depth)
	case *ssa.ChangeType:
		return ce.eval(x.X, where, depth)
	case *ssa.Phi:
		for _, e := range x.Edges {
			if !ce.eval(e, where, depth) {
				return false
			}
		}
		return true
	case *ssa.UnOp:
		if a, ok := x.X.(*ssa.Alloc); ok {
			all := true
			n := 0
			forEachUseOfCell(a, func(in ssa.Instruction, how string, c ssa.CallInstruction, argIdx int) {
				n++
				if how == "store" {
					if !ce.eval(in.(*ssa.Store).Val, where, depth) {
						all = false
					}
				} else {
					all = false
				}
			})
			if n == 0 {
				ce.add(0, where)
			}
			return all
		}
		return false
	case *ssa.Call:
		callee := staticCallee(x)
		if callee == nil || callee.Blocks == nil || p.byName[fnKey(callee)] != callee {
			return false
		}
		// parameters known non-nil at this call site: returns of the callee that are
		// only reachable when such a parameter is nil are excluded.
		var nonNilParams []ssa.Value
		for i, a := range x.Call.Args {
			if i < len(callee.Params) && knownNonNil(p, a, x.Block()) {
				nonNilParams = append(nonNilParams, callee.Params[i])
			}
		}
		for _, b := range callee.Blocks {
			for _, in := range b.Instrs {
				if r, ok := in.(*ssa.Return); ok {
					if len(r.Results) != 1 {
						return false
					}
					if len(nonNilParams) > 0 && onlyWhenNil(p, callee, b, nonNilParams) {
						continue
					}
					if !ce.eval(r.Results[0], fnKey(callee), depth+1) {
						return false
					}
				}
			}
		}
		return true
	}
	return false
}

// excludeByFacts removes constants k for which a controlling fact of block b
// says v != k.
func excludeByFacts(p *Prog, v ssa.Value, vals []int64, b *ssa.BasicBlock) []int64 {
	if b == nil || v == nil {
		return vals
	}
	excl := map[int64]bool{}
	for _, f := range p.facts(b) {
		op, lhs, rhs, ok := normCmp(f)
		if !ok || op != "!=" {
			continue
		}
		if lhs == v {
			if k, ok := constInt(rhs); ok {
				excl[k] = true
			}
		} else if rhs == v {
			if k, ok := constInt(lhs); ok {
				excl[k] = true
			}
		}
	}
	if len(excl) == 0 {
		return vals
	}
	var out []int64
	for _, k := range vals {
		if !excl[k] {
			out = append(out, k)
		}
	}
	return out
}

var factsCache = map[*ssa.BasicBlock][]condFact{}

func (p *Prog) facts(b *ssa.BasicBlock) []condFact {
	if f, ok := factsCache[b]; ok {
		return f
	}
	f := controllingFacts(b.Parent(), b)
	factsCache[b] = f
	return f
}

// nilFact: does fact f say "v is nil" (want=true) or "v is non-nil" (want=false)?
func nilFact(f condFact, v ssa.Value, wantNil bool) bool {
	bo, ok := f.V.(*ssa.BinOp)
	if !ok {
		return false
	}
	var other ssa.Value
	if isNilConst(bo.X) {
		other = bo.Y
	} else if isNilConst(bo.Y) {
		other = bo.X
	} else {
		return false
	}
	if other != v {
		return false
	}
	isNil := (bo.Op.String() == "==" && f.Val) || (bo.Op.String() == "!=" && !f.Val)
	isNonNil := (bo.Op.String() == "!=" && f.Val) || (bo.Op.String() == "==" && !f.Val)
	if wantNil {
		return isNil
	}
	return isNonNil
}

func knownNonNil(p *Prog, v ssa.Value, at *ssa.BasicBlock) bool {
	if mi, ok := v.(*ssa.MakeInterface); ok {
		if _, ok := mi.X.(*ssa.Alloc); ok {
			return true
		}
	}
	if _, ok := v.(*ssa.Alloc); ok {
		return true
	}
	for _, f := range p.facts(at) {
		if nilFact(f, v, false) {
			return true
		}
	}
	// a load of a cell: the same-cell load tested in a controlling fact with no store in between is not tracked; be conservative
	return false
}

func onlyWhenNil(p *Prog, fn *ssa.Function, b *ssa.BasicBlock, params []ssa.Value) bool {
	for _, f := range p.facts(b) {
		for _, prm := range params {
			if nilFact(f, prm, true) {
				return true
			}
		}
	}
	return false
}
