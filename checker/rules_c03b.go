package main

import (
	"strings"

	"golang.org/x/tools/go/ssa"
)

// guardedCannotSucceedOnExisting: in the CREATE handler, assume the decoded
// createhow3 discriminant equals GUARDED (1).  Prune every branch that
// contradicts that (comparisons of the discriminant with other constants, and
// boolean flags that can only be true on pruned paths).  No NFS3_OK reply
// that is built in the region where the creating call FAILED may remain
// reachable: GUARDED must not turn "already exists" into success.
func guardedCannotSucceedOnExisting(p *Prog, h *ssa.Function) (bool, string) {
	fl := newFlow(p)
	// the discriminant: first uint32 cell filled by binary.Read after the name (the one compared with 0/1/2)
	isDisc := func(v ssa.Value) bool {
		cell := cellOf(v)
		if cell == nil {
			return false
		}
		wire := false
		forEachUseOfCell(cell, func(in ssa.Instruction, how string, c ssa.CallInstruction, i int) {
			if how == "arg" && isCallTo(c, "encoding/binary.Read") {
				wire = true
			}
		})
		return wire
	}
	// which cell is compared with 2 (EXCLUSIVE) and 1 or 0?  take any wire cell compared with small constants in an If
	cut := map[edge]bool{}
	nDisc := 0
	for _, b := range h.Blocks {
		ifi := blockIf(b)
		if ifi == nil {
			continue
		}
		bo, ok := ifi.Cond.(*ssa.BinOp)
		if !ok || (bo.Op.String() != "==" && bo.Op.String() != "!=") || !isDisc(bo.X) {
			continue
		}
		j, isC := constInt(bo.Y)
		if !isC || j < 0 || j > 2 {
			continue
		}
		nDisc++
		eq := bo.Op.String() == "=="
		holds := j == 1 // does `disc == j` hold under disc == 1 ?
		if !eq {
			holds = !holds
		}
		if holds {
			cut[edge{b, b.Succs[1]}] = true
		} else {
			cut[edge{b, b.Succs[0]}] = true
		}
	}
	if nDisc == 0 {
		return false, "the handler never branches on the decoded createhow3 discriminant"
	}
	// fixpoint: prune Ifs on boolean phis whose true (false) alternatives come only from unreachable predecessors
	for iter := 0; iter < 6; iter++ {
		reach := reachAvoiding([]*ssa.BasicBlock{h.Blocks[0]}, cut, nil)
		changed := false
		for _, b := range h.Blocks {
			ifi := blockIf(b)
			if ifi == nil || !reach[b] {
				continue
			}
			v, neg := stripNot(ifi.Cond)
			phi, ok := v.(*ssa.Phi)
			if !ok {
				continue
			}
			canTrue, canFalse := false, false
			for i, e := range phi.Edges {
				pred := phi.Block().Preds[i]
				if !reach[pred] || cut[edge{pred, phi.Block()}] {
					continue
				}
				k, isC := e.(*ssa.Const)
				if !isC || k.Value == nil {
					canTrue, canFalse = true, true
					continue
				}
				if k.Value.String() == "true" {
					canTrue = true
				} else {
					canFalse = true
				}
			}
			tSucc, fSucc := b.Succs[0], b.Succs[1]
			if neg {
				tSucc, fSucc = fSucc, tSucc
			}
			if !canTrue && !cut[edge{b, tSucc}] {
				cut[edge{b, tSucc}] = true
				changed = true
			}
			if !canFalse && !cut[edge{b, fSucc}] {
				cut[edge{b, fSucc}] = true
				changed = true
			}
		}
		if !changed {
			break
		}
	}
	reach := reachAvoiding([]*ssa.BasicBlock{h.Blocks[0]}, cut, nil)
	// the failure region of the creating call
	var failRegion map[*ssa.BasicBlock]bool
	for _, call := range calls(h) {
		callee := staticCallee(call)
		if callee == nil || !(strings.HasSuffix(fnKey(callee), ".Create") || strings.HasSuffix(fnKey(callee), ".CreateWithContext")) {
			continue
		}
		if _, fail, ok := errSuccessEdge(call); ok {
			failRegion = map[*ssa.BasicBlock]bool{}
			for _, b := range h.Blocks {
				if b == fail || fail.Dominates(b) {
					failRegion[b] = true
				}
			}
		}
	}
	if failRegion == nil {
		return false, "the error of the creating call is not tested"
	}
	_ = fl
	for _, bt := range p.traceBuffers(h) {
		for _, path := range bt.Paths {
			if len(path) < 2 || path[0].Kind != "U32" || path[0].Const == nil || *path[0].Const != 0 {
				continue
			}
			blk := path[0].Instr.Block()
			if failRegion[blk] && reach[blk] {
				return false, "with createhow3 = GUARDED the handler can still build an NFS3_OK reply at " + p.instrPos(path[0].Instr) + " after the creating call failed because the name exists: GUARDED CREATE succeeds on an existing object instead of NFS3ERR_EXIST"
			}
		}
	}
	return true, ""
}
