package main

// rules_round3b.go: rules added after the third seeding round (second half).
// Each states a necessary condition that an independently written breaking
// change showed to be unchecked.

import (
	"fmt"
	"go/token"

	"golang.org/x/tools/go/ssa"
)

// --- C16/admit-first ---------------------------------------------------------
// In HandleCall nothing may read the policy (directly or through a callee)
// before the request is admitted: every such call is dominated by the success
// edge of TryRLock or by the blocking RLock.  A request judged against a
// policy loaded before admission can be served under a policy that was
// replaced in between.
func runC16AdmitFirst(c *Ctx, P string) {
	p := c.P
	c.rule(P, "admit-first", "HandleCall reads the policy (directly or via callees) only after admission (TryRLock success edge / RLock)", 2)
	ent, err := p.entrySet()
	if err != nil || ent.HandleCall == nil {
		c.undecided(P, "admit-first", "fn=HandleCall", "", "HandleCall not found")
		return
	}
	hc := ent.HandleCall
	// functions that (transitively) load the policy pointer
	reads := map[*ssa.Function]bool{}
	for _, fn := range p.SrcFuncs {
		for _, call := range calls(fn) {
			if atomicPtrOp(call, "Load") && len(call.Common().Args) > 0 && isMutexField(call.Common().Args[0], "policy") {
				reads[fn] = true
			}
		}
	}
	for changed := true; changed; {
		changed = false
		for _, fn := range p.SrcFuncs {
			if reads[fn] || fn.Pkg != p.Pkg {
				continue
			}
			for _, call := range calls(fn) {
				if _, isGo := call.(*ssa.Go); isGo {
					continue
				}
				if callee := staticCallee(call); callee != nil && reads[callee] {
					reads[fn] = true
					changed = true
				}
			}
		}
	}
	// admission points in HandleCall
	var admitBlocks []*ssa.BasicBlock
	var admitCalls []ssa.CallInstruction
	for _, call := range calls(hc) {
		f := staticCallee(call)
		if f == nil || len(call.Common().Args) == 0 || !isMutexField(call.Common().Args[0], "policyRWMu") {
			continue
		}
		switch qualFn(f) {
		case "(*sync.RWMutex).TryRLock":
			if v := call.Value(); v != nil && v.Referrers() != nil {
				for _, r := range *v.Referrers() {
					if ifi, ok := r.(*ssa.If); ok {
						admitBlocks = append(admitBlocks, ifi.Block().Succs[0])
					}
					if u, ok := r.(*ssa.UnOp); ok && u.Op == token.NOT && u.Referrers() != nil {
						for _, r2 := range *u.Referrers() {
							if ifi, ok := r2.(*ssa.If); ok {
								admitBlocks = append(admitBlocks, ifi.Block().Succs[1])
							}
						}
					}
				}
			}
		case "(*sync.RWMutex).RLock":
			admitCalls = append(admitCalls, call)
		}
	}
	if len(admitBlocks)+len(admitCalls) == 0 {
		c.undecided(P, "admit-first", "fn=HandleCall", p.pos(hc.Pos()), "no admission (TryRLock/RLock on policyRWMu) found in HandleCall")
		return
	}
	admitted := func(b *ssa.BasicBlock, idx int) bool {
		// every path from entry to b passes an admission point: remove admission edges and test reachability
		cut := map[edge]bool{}
		for _, ab := range admitBlocks {
			for _, pr := range ab.Preds {
				cut[edge{pr, ab}] = true
			}
		}
		stopBlocks := map[*ssa.BasicBlock]bool{}
		for _, ac := range admitCalls {
			if ac.Block() == b && instrIndex(ac) < idx {
				return true
			}
			stopBlocks[ac.Block()] = true
		}
		reach := reachAvoiding([]*ssa.BasicBlock{hc.Blocks[0]}, cut, stopBlocks)
		return !reach[b]
	}
	n := 0
	for _, fn := range append([]*ssa.Function{hc}, hc.AnonFuncs...) {
		if fn != hc {
			continue // closures run after admission (the worker goroutine is started in the admitted region; checked by C16/admit)
		}
		for _, call := range calls(fn) {
			direct := atomicPtrOp(call, "Load") && len(call.Common().Args) > 0 && isMutexField(call.Common().Args[0], "policy")
			via := false
			if callee := staticCallee(call); callee != nil && reads[callee] {
				via = true
			}
			if !direct && !via {
				continue
			}
			n++
			key := fmt.Sprintf("read=HandleCall:%s#%d", shortCallee(call), ordinal(fn, call))
			c.verdictIf(admitted(call.Block(), instrIndex(call)), P, "admit-first", key, p.instrPos(call), "after admission",
				"HandleCall consults the policy ("+shortCallee(call)+") before the request is admitted by policyRWMu: an update can swap the policy between this read and the admission, and the request is then judged (allow/deny, identity, read-only) under a policy that is no longer in force when it runs")
		}
	}
	if n == 0 {
		c.undecided(P, "admit-first", "fn=HandleCall", p.pos(hc.Pos()), "HandleCall never consults the policy")
	}
}

// --- C20/join-before-restart -------------------------------------------------
// Resize may start the new generation of workers only after the old one has
// been joined: a call that reaches WaitGroup.Wait dominates the Start call.
func runC20Join(c *Ctx) {
	p := c.P
	const P = "C20"
	c.rule(P, "join-before-restart", "in Resize a call reaching WaitGroup.Wait dominates the restart (Start): old workers are joined before new ones run", 1)
	rz := p.Fn("(*WorkerPool).Resize")
	start := p.Fn("(*WorkerPool).Start")
	if rz == nil || start == nil {
		c.undecided(P, "join-before-restart", "fn=Resize", "", "Resize/Start not found")
		return
	}
	reachesWait := map[*ssa.Function]bool{}
	for _, fn := range p.SrcFuncs {
		for _, call := range calls(fn) {
			if callee := staticCallee(call); callee != nil && qualFn(callee) == "(*sync.WaitGroup).Wait" {
				if _, isGo := call.(*ssa.Go); !isGo {
					reachesWait[fn] = true
				}
			}
		}
	}
	for changed := true; changed; {
		changed = false
		for _, fn := range p.SrcFuncs {
			if reachesWait[fn] || fn.Pkg != p.Pkg {
				continue
			}
			for _, call := range calls(fn) {
				if _, isGo := call.(*ssa.Go); isGo {
					continue
				}
				if _, isDefer := call.(*ssa.Defer); isDefer {
					continue
				}
				if callee := staticCallee(call); callee != nil && reachesWait[callee] && callee.Pkg == p.Pkg {
					reachesWait[fn] = true
					changed = true
				}
			}
		}
	}
	n := 0
	for _, call := range calls(rz) {
		if staticCallee(call) != start {
			continue
		}
		n++
		joined := false
		for _, c2 := range calls(rz) {
			callee := staticCallee(c2)
			if callee == nil || !(reachesWait[callee] || qualFn(callee) == "(*sync.WaitGroup).Wait") {
				continue
			}
			// the joining call must lie on every path on which the pool was running: it dominates the
			// restart, or sits under the same wasRunning test as the stop
			if c2.Block().Dominates(call.Block()) && c2.Block() != call.Block() || c2.Block() == call.Block() && instrIndex(c2) < instrIndex(call) {
				joined = true
			}
			if !joined {
				// stop and restart both under `if wasRunning`: accept when no path reaches the restart from
				// entry avoiding the joining call's block except through blocks where the pool was not running
				reach := reachAvoiding([]*ssa.BasicBlock{rz.Blocks[0]}, nil, map[*ssa.BasicBlock]bool{c2.Block(): true})
				if !reach[call.Block()] {
					joined = true
				} else if sameGuard(p, c2.Block(), call.Block()) {
					joined = true
				}
			}
		}
		c.verdictIf(joined, P, "join-before-restart", fmt.Sprintf("fn=Resize restart#%d", n), p.instrPos(call), "old workers joined (WaitGroup.Wait) before Start",
			"Resize restarts the pool without first waiting for the old workers (no call reaching WaitGroup.Wait before Start): tasks still executing on old workers run alongside a full new generation, more than max(old,new) at once")
	}
	if n == 0 {
		c.ok(P, "join-before-restart", "fn=Resize restart=none", p.pos(rz.Pos()), "Resize never restarts the pool")
	}
}

// sameGuard: blocks a and b are controlled by the same boolean value with the same polarity
// (`if wasRunning { stop }` ... `if wasRunning { start }`).
func sameGuard(p *Prog, a, b *ssa.BasicBlock) bool {
	for _, fa := range p.facts(a) {
		for _, fb := range p.facts(b) {
			if fa.V == fb.V && fa.Val == fb.Val {
				if _, isPhi := fa.V.(*ssa.Phi); isPhi {
					return true
				}
				if _, isBin := fa.V.(*ssa.BinOp); isBin {
					return true
				}
			}
		}
	}
	return false
}

// --- C22/ack-on-success ------------------------------------------------------
// handleWrite builds the NFS3_OK reply (count, committed) only on the edge
// where the write call returned no error: a write whose Sync (or WriteAt)
// failed must not be acknowledged as stable.
func runC22AckOnSuccess(c *Ctx, hw *ssa.Function) {
	p := c.P
	const P = "C22"
	c.rule(P, "ack-on-success", "handleWrite's NFS3_OK reply is dominated by the success (err == nil) edge of the write call", 1)
	var wcall ssa.CallInstruction
	for _, call := range calls(hw) {
		callee := staticCallee(call)
		if callee == nil || callee.Pkg != p.Pkg {
			continue
		}
		// the call whose tree contains the backend write
		has := false
		for g := range p.reachableFrom([]*ssa.Function{callee}) {
			for _, c2 := range calls(g) {
				if bc := asBackendCall(c2); bc != nil && bc.OnFile && (bc.Method == "WriteAt" || bc.Method == "Write") {
					has = true
				}
			}
		}
		if has {
			wcall = call
		}
	}
	if wcall == nil {
		c.undecided(P, "ack-on-success", "proc=WRITE", p.pos(hw.Pos()), "no call reaching the backend write in handleWrite")
		return
	}
	succ, fail, ok := errSuccessEdge(wcall)
	if !ok {
		c.bad(P, "ack-on-success", "proc=WRITE", p.instrPos(wcall), "the error of the write call is not tested on its own: the NFS3_OK reply is not confined to the edge where the write (and its Sync) succeeded")
		return
	}
	good := true
	var at ssa.Instruction
	n := 0
	for _, bt := range p.traceBuffers(hw) {
		for _, path := range bt.Paths {
			if len(path) < 2 || path[0].Kind != "U32" || path[0].Const == nil || *path[0].Const != 0 {
				continue
			}
			n++
			blk := path[0].Instr.Block()
			if !(blk == succ || succ.Dominates(blk)) {
				good, at = false, path[0].Instr
			}
			// the success edge may lead straight into a join block: also require that the reply is not
			// reachable from the failure edge
			if fail != nil && fail != succ && reachAvoiding([]*ssa.BasicBlock{fail}, nil, nil)[blk] {
				good, at = false, path[0].Instr
			}
		}
	}
	pos := p.instrPos(wcall)
	if at != nil {
		pos = p.instrPos(at)
	}
	c.verdictIf(good && n > 0, P, "ack-on-success", "proc=WRITE", pos, "OK reply only after the write call returned nil",
		"WRITE can reply NFS3_OK with committed=FILE_SYNC on a path where the write call returned an error (for example its Sync failed after WriteAt stored the bytes): data that is not on stable storage is acknowledged as stable")
}

// --- C24/defaults-before-effects ----------------------------------------------
// The side effects of a tuning update (cache resizes, pool resize) are
// computed from the record that is stored: applyDefaults runs before
// applyTuningSideEffects, otherwise a zero field skips the resize while the
// stored snapshot reports the default.
func runC24DefaultsBeforeEffects(c *Ctx) {
	p := c.P
	const P = "C24"
	c.rule(P, "defaults-before-effects", "in UpdateTuningOptions the normalisation of the new record precedes applyTuningSideEffects", 1)
	ut := p.Fn("(*AbsfsNFS).UpdateTuningOptions")
	ap := p.Fn("(*AbsfsNFS).applyTuningSideEffects")
	if ut == nil || ap == nil {
		c.undecided(P, "defaults-before-effects", "fn=UpdateTuningOptions", "", "not found")
		return
	}
	owners := map[string]bool{"ExportOptions": true, "TimeoutConfig": true, "TuningOptions": true}
	isNormaliser := func(f *ssa.Function) bool {
		if f == nil || f.Pkg != p.Pkg {
			return false
		}
		if len(extractDefaults(p, f, owners)) > 0 {
			return true
		}
		return false
	}
	n := 0
	for _, call := range calls(ut) {
		if staticCallee(call) != ap {
			continue
		}
		n++
		pre := false
		for _, c2 := range calls(ut) {
			if !isNormaliser(staticCallee(c2)) {
				continue
			}
			if c2.Block() == call.Block() && instrIndex(c2) < instrIndex(call) || c2.Block() != call.Block() && c2.Block().Dominates(call.Block()) {
				pre = true
			}
		}
		c.verdictIf(pre, P, "defaults-before-effects", fmt.Sprintf("call=applyTuningSideEffects#%d", n), p.instrPos(call), "side effects see the defaulted record",
			"applyTuningSideEffects runs on the record before its zero/negative fields are replaced by the defaults: the resize of a cache or of the worker pool is skipped for such a field while GetExportOptions reports the default as in force")
	}
	if n == 0 {
		c.undecided(P, "defaults-before-effects", "fn=UpdateTuningOptions", p.pos(ut.Pos()), "UpdateTuningOptions never calls applyTuningSideEffects")
	}
}
