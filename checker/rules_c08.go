package main

import (
	"fmt"
	"go/token"
	"strings"

	"golang.org/x/tools/go/ssa"
)

// mutatingFS / mutatingFile: backend operation classes (ORACLES.md A8).
var mutatingFS = map[string]bool{"Create": true, "Mkdir": true, "MkdirAll": true, "Remove": true, "RemoveAll": true,
	"Rename": true, "Truncate": true, "Chmod": true, "Chown": true, "Lchown": true, "Chtimes": true, "Symlink": true}
var mutatingFile = map[string]bool{"Write": true, "WriteAt": true, "WriteString": true, "Truncate": true}

// isMutatingBackend classifies a backend call; desc names the class.
func isMutatingBackend(bc *backendCall) (bool, string) {
	if bc == nil {
		return false, ""
	}
	if bc.OnFile {
		if mutatingFile[bc.Method] {
			return true, "file-data"
		}
		return false, ""
	}
	if mutatingFS[bc.Method] {
		return true, "fs-mutation"
	}
	if bc.Method == "OpenFile" {
		fl, ok := openFlagConst(bc.Instr)
		if !ok {
			return true, "open-nonconst-flag"
		}
		if fl != 0 {
			return true, "open-write:" + flagString(fl)
		}
	}
	return false, ""
}

func init() {
	register("C08",
		"Decided: (guard) every mutating backend operation (write-mode OpenFile, Create, Mkdir(All), Remove(All), Rename, Truncate, Chmod, Chown, Lchown, Chtimes, Symlink, File.Write/WriteAt/WriteString/Truncate) reachable from any NFS/MOUNT procedure handler is reachable only across the false edge of a test of PolicyOptions.ReadOnly, on every CFG path and through every call chain; (fail) in every mutating procedure handler the ReadOnly-true edge leads only to replies whose status word is a non-zero constant and to no backend call; LINK and MKNOD never reply NFS3_OK; (access) every OR of ACCESS3_MODIFY/EXTEND/DELETE into the ACCESS result is on the ReadOnly-false edge. Not decided: nothing material of the 'no modifying operation' clause; atomicity of the policy during a request is C16's rule set.",
		append([]string{"the policy pointer is not swapped while a request holds the policy read lock (decided by C16)"}, commonAssume...),
		runC08)
}

func runC08(c *Ctx) {
	p := c.P
	const P = "C08"
	rg := c.rule(P, "guard", "T-GUARD: from every procedure handler entry, every path to a mutating backend call crosses a PolicyOptions.ReadOnly==false edge (interprocedural, edge-sensitive)", 12)
	_ = rg
	c.rule(P, "fail", "in each mutating procedure handler the ReadOnly==true edge reaches an nfsError* reply with a non-zero constant status before any backend call or handle lookup", 9)
	c.rule(P, "never-ok", "LINK and MKNOD have no path that encodes status NFS3_OK", 2)
	c.rule(P, "access", "every `granted |= MODIFY|EXTEND|DELETE` in handleAccess is on a ReadOnly==false edge", 3)

	// the guard rule assumes the policy in force cannot change while a request runs:
	// borrow C16's admit and swap rules (reported under C08 as well)
	saved := c.Only
	c.Only = map[string]bool{"admit": true, "swap": true, "admit-first": true, "no-detached-work": true}
	runC16As(c, P)
	c.Only = saved

	ent, err := p.entrySet()
	if err != nil {
		c.undecided(P, "guard", "entries", "", err.Error())
		return
	}
	ro := p.field("PolicyOptions", "ReadOnly")
	if ro == nil {
		c.undecided(P, "guard", "binding:PolicyOptions.ReadOnly", "", "field not found")
		return
	}
	safe := fieldGuard(ro, false)
	isEntry := map[*ssa.Function]bool{}
	for _, f := range ent.procEntries() {
		isEntry[f] = true
	}
	reach := p.reachableFrom(ent.procEntries())
	for _, fn := range p.SrcFuncs {
		if !reach[fn] {
			continue
		}
		for _, call := range calls(fn) {
			mut, class := isMutatingBackend(asBackendCall(call))
			if !mut {
				continue
			}
			key := fmt.Sprintf("sink=%s:%s#%d", fnKey(fn), shortCallee(call), ordinal(fn, call))
			r := p.liftGuard(fn, call, safe, isEntry, reach)
			if r.Unreached {
				continue
			}
			if r.Guarded {
				c.ok(P, "guard", key, p.instrPos(call), class+": guarded by ReadOnly==false on all paths from all entries")
			} else {
				c.bad(P, "guard", key, p.instrPos(call), fmt.Sprintf("%s reachable with the read-only policy in force: entry %s, chain %s — no ReadOnly==false edge is crossed on some path", class, fnKey(r.Entry), strings.Join(r.Chain, " -> ")))
			}
		}
	}

	// fail: per mutating procedure
	mutProcs := map[uint32]string{2: "SETATTR", 7: "WRITE", 8: "CREATE", 9: "MKDIR", 10: "SYMLINK", 12: "REMOVE", 13: "RMDIR", 14: "RENAME", 21: "COMMIT"}
	for _, num := range sortedKeys(mutProcs) {
		name := mutProcs[num]
		h := ent.Handlers[num]
		key := "proc=" + name
		if h == nil {
			c.bad(P, "fail", key, "", "no handler in dispatch table")
			continue
		}
		// find ReadOnly tests in the handler body
		found := false
		okAll := true
		msg := ""
		for _, b := range h.Blocks {
			ifi := blockIf(b)
			if ifi == nil {
				continue
			}
			v, neg := stripNot(ifi.Cond)
			_, fv, isLoad := fieldLoad(v)
			if !isLoad || fv != ro {
				continue
			}
			found = true
			roSucc := b.Succs[0]
			if neg {
				roSucc = b.Succs[1]
			}
			// explore from roSucc: every path must hit a return whose result is an nfsError* call with nonzero const before any backend call / lookupNode
			good, why := roEdgeFails(p, roSucc)
			if !good {
				okAll = false
				msg = why
			}
		}
		if !found {
			// no handler-level test: acceptable only if the handler reaches no reply with OK before a guarded operation; we require the handler-level test (enumerated idiom)
			c.bad(P, "fail", key, p.pos(h.Pos()), "handler has no test of PolicyOptions.ReadOnly: a read-only export would process the request up to the operation layer")
			continue
		}
		c.verdictIf(okAll, P, "fail", key, p.pos(h.Pos()), "ReadOnly edge returns a non-OK constant status without touching the backend", msg)
	}
	for _, num := range []uint32{11, 15} {
		h := ent.Handlers[num]
		name := map[uint32]string{11: "MKNOD", 15: "LINK"}[num]
		if h == nil {
			c.bad(P, "never-ok", "proc="+name, "", "no handler")
			continue
		}
		okv, why := neverEncodesOK(p, h)
		c.verdictIf(okv, P, "never-ok", "proc="+name, p.pos(h.Pos()), "no reply path with status 0; no backend mutation reachable", why)
	}

	// access
	ha := ent.Handlers[4]
	if ha == nil {
		c.bad(P, "access", "proc=ACCESS", "", "no ACCESS handler")
		return
	}
	for _, bit := range []struct {
		name string
		val  int64
	}{{"MODIFY", 4}, {"EXTEND", 8}, {"DELETE", 16}} {
		n := 0
		for _, b := range ha.Blocks {
			for _, in := range b.Instrs {
				bo, ok := in.(*ssa.BinOp)
				if !ok || bo.Op != token.OR {
					continue
				}
				cv, isc := constInt(bo.Y)
				if !isc {
					cv, isc = constInt(bo.X)
				}
				if !isc || cv&bit.val == 0 || cv > 0x3f {
					continue
				}
				n++
				key := fmt.Sprintf("grant=%s#%d", bit.name, n)
				c.verdictIf(guardedBy(ha, b, safe), P, "access", key, p.instrPos(in), "grant is on the ReadOnly==false edge", "ACCESS can grant "+bit.name+" while the export is read-only: the OR is reachable without crossing a ReadOnly==false edge")
			}
		}
		if n == 0 {
			// a handler that never grants the bit is trivially safe; still record
			c.ok(P, "access", "grant="+bit.name+"#0", p.pos(ha.Pos()), "bit is never granted")
		}
	}
}

func sortedKeys(m map[uint32]string) []uint32 {
	var ks []uint32
	for k := range m {
		ks = append(ks, k)
	}
	for i := range ks {
		for j := i + 1; j < len(ks); j++ {
			if ks[j] < ks[i] {
				ks[i], ks[j] = ks[j], ks[i]
			}
		}
	}
	return ks
}

// roEdgeFails: from block start, every path reaches a Return whose first result
// is the result of an nfsError* helper call with a non-zero constant status,
// and no backend call / fileMap access happens on the way.
func roEdgeFails(p *Prog, start *ssa.BasicBlock) (bool, string) {
	seen := map[*ssa.BasicBlock]bool{}
	var walk func(b *ssa.BasicBlock) (bool, string)
	walk = func(b *ssa.BasicBlock) (bool, string) {
		if seen[b] {
			return true, ""
		}
		seen[b] = true
		for _, in := range b.Instrs {
			if ci, ok := in.(ssa.CallInstruction); ok {
				if asBackendCall(ci) != nil {
					return false, "backend call " + shortCallee(ci) + " at " + p.instrPos(in) + " on the read-only edge"
				}
			}
			if r, ok := in.(*ssa.Return); ok {
				if len(r.Results) == 0 {
					return false, "return without reply at " + p.instrPos(in)
				}
				call, ok := r.Results[0].(*ssa.Call)
				if !ok {
					return false, "read-only edge returns a reply not built by an nfsError* helper at " + p.instrPos(in)
				}
				callee := staticCallee(call)
				if callee == nil || !strings.HasPrefix(callee.Name(), "nfsError") {
					return false, "read-only edge returns a reply not built by an nfsError* helper at " + p.instrPos(in)
				}
				st, isc := constInt(call.Call.Args[1])
				if !isc || st == 0 {
					return false, "read-only edge replies with status that is not a non-zero constant at " + p.instrPos(in)
				}
				return true, ""
			}
		}
		for _, s := range b.Succs {
			if ok, why := walk(s); !ok {
				return false, why
			}
		}
		return true, ""
	}
	return walk(start)
}

// neverEncodesOK: handler has no xdrEncodeUint32(_, 0) as a status write and
// every return is an nfsError* helper with non-zero constant or mapError of a
// fresh NotSupportedError; no mutating backend call reachable in the body.
func neverEncodesOK(p *Prog, h *ssa.Function) (bool, string) {
	for _, call := range calls(h) {
		if mut, _ := isMutatingBackend(asBackendCall(call)); mut {
			return false, "mutating backend call " + shortCallee(call)
		}
	}
	for _, b := range h.Blocks {
		for _, in := range b.Instrs {
			r, ok := in.(*ssa.Return)
			if !ok {
				continue
			}
			call, ok := r.Results[0].(*ssa.Call)
			if !ok {
				return false, "returns a reply not built by an nfsError* helper at " + p.instrPos(in)
			}
			callee := staticCallee(call)
			if callee == nil || !strings.HasPrefix(callee.Name(), "nfsError") {
				return false, "returns a reply not built by an nfsError* helper at " + p.instrPos(in)
			}
			vals, ok := statusConsts(p, call.Call.Args[1], 0)
			if !ok {
				return false, "status is not a resolvable constant set at " + p.instrPos(in)
			}
			for _, v := range vals {
				if v == 0 {
					return false, "status can be NFS3_OK at " + p.instrPos(in)
				}
			}
		}
	}
	return true, ""
}
