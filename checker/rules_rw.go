package main

// rules_rw.go: C01 slot rules (WRITE count, READ data/count/eof), C22, C23, C25.

import (
	"fmt"
	"go/token"
	"strings"

	"golang.org/x/tools/go/ssa"
)

// okShape returns the reply shapes of handler h whose status set is exactly {0}.
func okShapes(p *Prog, h *ssa.Function) []replyShape {
	shapes, _ := p.handlerReplies(h)
	var out []replyShape
	for _, rs := range shapes {
		if rs.StatusOK && len(rs.StatusSet) == 1 && rs.StatusSet[0] == 0 {
			out = append(out, rs)
		}
	}
	return out
}

// normalised comparison: returns (op, lhs, rhs) with op one of ">=", ">", "==", "!=" so that
// `lhs op rhs` is the fact that holds (taking polarity into account).
func normCmp(f condFact) (string, ssa.Value, ssa.Value, bool) {
	bo, ok := f.V.(*ssa.BinOp)
	if !ok {
		return "", nil, nil, false
	}
	op := bo.Op
	x, y := bo.X, bo.Y
	if !f.Val { // negate
		switch op {
		case token.GEQ:
			op = token.LSS
		case token.GTR:
			op = token.LEQ
		case token.LEQ:
			op = token.GTR
		case token.LSS:
			op = token.GEQ
		case token.EQL:
			op = token.NEQ
		case token.NEQ:
			op = token.EQL
		default:
			return "", nil, nil, false
		}
	}
	switch op {
	case token.GEQ:
		return ">=", x, y, true
	case token.GTR:
		return ">", x, y, true
	case token.LEQ:
		return ">=", y, x, true
	case token.LSS:
		return ">", y, x, true
	case token.EQL:
		return "==", x, y, true
	case token.NEQ:
		return "!=", x, y, true
	}
	return "", nil, nil, false
}

func runC01Slots(c *Ctx) {
	p := c.P
	const P = "C01"
	c.rule(P, "wcount", "WRITE3resok.count derives only from the integer returned by the backend write (never from the request's count or payload length)", 1)
	c.rule(P, "wargs", "the backend WriteAt receives the request's payload (possibly cut to TransferSize) and the request's offset", 2)
	c.rule(P, "rdata", "READ3resok count, opaque length and bytes are one value: a slice filled by the backend ReadAt; its capacity is clamped by TransferSize", 3)
	c.rule(P, "eof", "READ3resok.eof is 1 exactly on the edge `offset+len(data) >= size` with size taken from the attributes returned in the same reply", 1)
	c.rule(P, "setsize", "SETATTR with size set reaches the backend Truncate with the requested size on every path to an NFS3_OK reply, before the other attribute changes", 2)

	ent, err := p.entrySet()
	if err != nil {
		c.undecided(P, "wcount", "entries", "", err.Error())
		return
	}
	fl := newFlow(p)
	fl.ThroughInPkg = true

	// ---- WRITE
	hw := ent.Handlers[7]
	if hw == nil {
		c.undecided(P, "wcount", "proc=WRITE", "", "no handler")
	} else {
		oks := okShapes(p, hw)
		n := 0
		for _, rs := range oks {
			if len(rs.Toks) != 8 {
				continue
			}
			n++
			cnt := rs.Toks[5]
			os := fl.Origins(cnt.Val)
			good := false
			var bad []string
			for _, o := range os {
				switch {
				case o.Kind == "const" || o.Kind == "zero":
				case o.Kind == "call" && o.Call != nil && asBackendCall(o.Call) != nil && asBackendCall(o.Call).OnFile && mutatingFile[asBackendCall(o.Call).Method] && o.Idx == 0:
					good = true
				default:
					bad = append(bad, o.Desc)
				}
			}
			key := "slot=WRITE.count"
			if good && len(bad) == 0 {
				c.ok(P, "wcount", key, p.instrPos(cnt.Instr), "derives from "+strings.Join(originDescs(os), ","))
			} else {
				c.bad(P, "wcount", key, p.instrPos(cnt.Instr), "acknowledged byte count does not come (only) from the backend write result: origins "+strings.Join(originDescs(os), ",")+" — a short or failed write would still be acknowledged in full")
			}
		}
		if n == 0 {
			c.undecided(P, "wcount", "slot=WRITE.count", p.pos(hw.Pos()), "no WRITE3resok-shaped reply path found")
		}
		// wargs: in the WRITE call tree, each File.WriteAt/Write: data arg origins & offset arg origins
		reach := p.reachableFrom([]*ssa.Function{hw})
		flx := newFlow(p)
		flx.ExpandParams = true
		flx.ThroughInPkg = true
		// only callers on the WRITE request path contribute arguments: exported wrappers that
		// nothing in the tree calls are library entry points, not part of the request
		flx.CallerFilter = func(f *ssa.Function) bool { return reach[f] }
		for _, fn := range p.SrcFuncs {
			if !reach[fn] {
				continue
			}
			for _, call := range calls(fn) {
				bc := asBackendCall(call)
				if bc == nil || !bc.OnFile || (bc.Method != "WriteAt" && bc.Method != "Write") {
					continue
				}
				key := fmt.Sprintf("site=%s:%s#%d", fnKey(fn), shortCallee(call), ordinal(fn, call))
				args := call.Common().Args
				dos := flx.Origins(args[0])
				dataOK := false
				var dbad []string
				for _, o := range dos {
					switch {
					case o.Kind == "outparam" && strings.HasPrefix(o.Desc, "outparam:io.ReadFull@1"):
						dataOK = true
					case o.Kind == "make" || o.Kind == "const" || o.Kind == "zero":
					case o.Kind == "field" && o.Fld != nil && o.Fld.Name() == "TransferSize":
					case o.Kind == "call" && strings.Contains(o.Desc, "tuning"):
					default:
						dbad = append(dbad, o.Desc)
					}
				}
				if dataOK && len(dbad) == 0 {
					c.ok(P, "wargs", key+" data", p.instrPos(call), "payload is the slice read from the request body")
				} else {
					c.bad(P, "wargs", key+" data", p.instrPos(call), "bytes handed to the backend are not (only) the request payload: origins "+strings.Join(originDescs(dos), ","))
				}
				if bc.Method == "WriteAt" {
					oos := flx.Origins(args[1])
					offOK := len(oos) > 0
					for _, o := range oos {
						if !(o.Kind == "outparam" && strings.HasPrefix(o.Desc, "outparam:encoding/binary.Read@2")) {
							offOK = false
						}
					}
					// it must be the *offset* cell: the first binary.Read after the handle in handleWrite
					c.verdictIf(offOK, P, "wargs", key+" offset", p.instrPos(call), "offset is a value decoded from the request", "offset handed to the backend is not purely the request's offset: origins "+strings.Join(originDescs(oos), ","))
				}
			}
		}
	}

	// ---- READ
	hr := ent.Handlers[6]
	if hr == nil {
		c.undecided(P, "rdata", "proc=READ", "", "no handler")
	} else {
		oks := okShapes(p, hr)
		n := 0
		seenKeys := map[string]bool{}
		for _, rs := range oks {
			if len(rs.Toks) < 7 {
				continue
			}
			n++
			cnt, eof, ln, data := rs.Toks[3], rs.Toks[4], rs.Toks[5], rs.Toks[6]
			if data.Kind != "BYTES" {
				c.bad(P, "rdata", "slot=READ.data", p.instrPos(data.Instr), "opaque data item is "+data.Kind)
				continue
			}
			if !seenKeys["rdata"] {
				seenKeys["rdata"] = true
				// count and len are uint32(len(data)) of the same SSA value as BYTES
				same := func(t tok) bool {
					v := unwrap(t.Val)
					call, ok := v.(*ssa.Call)
					if !ok {
						return false
					}
					b, ok := call.Call.Value.(*ssa.Builtin)
					return ok && b.Name() == "len" && call.Call.Args[0] == data.Val
				}
				c.verdictIf(same(cnt), P, "rdata", "slot=READ.count", p.instrPos(cnt.Instr), "count = len(data) of the bytes sent", "count word is not len() of the byte slice that is sent")
				c.verdictIf(same(ln), P, "rdata", "slot=READ.len", p.instrPos(ln.Instr), "opaque length = len(data) of the bytes sent", "opaque length word is not len() of the byte slice that is sent")
				dos := fl.Origins(data.Val)
				fromBackend := false
				var bad []string
				for _, o := range dos {
					switch {
					case o.Kind == "outparam" && o.Call != nil && asBackendCall(o.Call) != nil && asBackendCall(o.Call).Method == "ReadAt":
						fromBackend = true
					case o.Kind == "make" || o.Kind == "const" || o.Kind == "zero" || o.Kind == "alloc":
					case o.Kind == "call" && o.Call != nil && asBackendCall(o.Call) != nil && asBackendCall(o.Call).Method == "ReadAt":
						// n of ReadAt used as slice bound
					default:
						bad = append(bad, o.Desc)
					}
				}
				if fromBackend && len(bad) == 0 {
					c.ok(P, "rdata", "slot=READ.data", p.instrPos(data.Instr), "bytes come from a fresh slice filled by backend ReadAt")
				} else {
					c.bad(P, "rdata", "slot=READ.data", p.instrPos(data.Instr), "returned bytes are not (only) what the backend ReadAt produced: origins "+strings.Join(originDescs(dos), ","))
				}
			}
			// eof: constant tokens 1/0 controlled by the comparison
			if eof.Const != nil {
				key := fmt.Sprintf("slot=READ.eof=%d", *eof.Const)
				if seenKeys[key] {
					continue
				}
				seenKeys[key] = true
				verdict, msg := checkEOFEdge(p, hr, eof, rs.Toks[2], *eof.Const == 1)
				switch verdict {
				case Discharged:
					c.ok(P, "eof", key, p.instrPos(eof.Instr), msg)
				case Violated:
					c.bad(P, "eof", key, p.instrPos(eof.Instr), msg)
				default:
					c.undecided(P, "eof", key, p.instrPos(eof.Instr), msg)
				}
			} else if phi, isPhi := unwrap(eof.Val).(*ssa.Phi); isPhi {
				// the word is a variable set to 0/1 on separate edges and encoded once
				for i, e := range phi.Edges {
					k, isC := constInt(unwrap(e))
					if !isC || (k != 0 && k != 1) || i >= len(phi.Block().Preds) {
						c.undecided(P, "eof", "slot=READ.eof", p.instrPos(eof.Instr), "eof variable takes a value that is not the constant 0 or 1")
						continue
					}
					key := fmt.Sprintf("slot=READ.eof=%d", k)
					if seenKeys[key] {
						continue
					}
					seenKeys[key] = true
					pred := phi.Block().Preds[i]
					facts := append(append([]condFact{}, p.facts(pred)...), edgeFacts(pred, phi.Block())...)
					verdict, msg := checkEOFFacts(p, facts, rs.Toks[2], k == 1)
					switch verdict {
					case Discharged:
						c.ok(P, "eof", key, p.instrPos(eof.Instr), msg)
					case Violated:
						c.bad(P, "eof", key, p.instrPos(eof.Instr), msg)
					default:
						c.undecided(P, "eof", key, p.instrPos(eof.Instr), msg)
					}
				}
			} else {
				c.undecided(P, "eof", "slot=READ.eof", p.instrPos(eof.Instr), "eof word is not written as constant 0/1 on separate edges")
			}
		}
		if n == 0 {
			c.undecided(P, "rdata", "slot=READ", p.pos(hr.Pos()), "no READ3resok-shaped reply path found")
		}
		// clamp: the slice ReadAt fills has a length whose origins include TransferSize
		reach := p.reachableFrom([]*ssa.Function{hr})
		for _, fn := range p.SrcFuncs {
			if !reach[fn] {
				continue
			}
			for _, call := range calls(fn) {
				bc := asBackendCall(call)
				if bc == nil || !bc.OnFile || bc.Method != "ReadAt" {
					continue
				}
				key := fmt.Sprintf("site=%s:%s#%d clamp", fnKey(fn), shortCallee(call), ordinal(fn, call))
				buf := call.Common().Args[0]
				fl2 := newFlow(p)
				var lenOrigins []Origin
				for _, o := range fl2.Origins(buf) {
					if ms, ok := o.Val.(*ssa.MakeSlice); ok && o.Kind == "make" {
						lenOrigins = append(lenOrigins, fl2.Origins(ms.Len)...)
					}
				}
				hasTS := hasOrigin(lenOrigins, func(o Origin) bool { return o.Kind == "field" && o.Fld != nil && o.Fld.Name() == "TransferSize" })
				hasSize := hasOrigin(lenOrigins, func(o Origin) bool {
					return o.Kind == "call" && strings.Contains(o.Desc, "FileInfo.Size")
				})
				c.verdictIf(hasTS && hasSize, P, "rdata", key, p.instrPos(call), "read buffer length is bounded by TransferSize and by size-offset", "read buffer length is not clamped by both TransferSize and the file size: origins "+strings.Join(originDescs(lenOrigins), ","))
			}
		}
	}

	// ---- SETATTR size
	hs := ent.Handlers[2]
	if hs == nil {
		c.undecided(P, "setsize", "proc=SETATTR", "", "no handler")
		return
	}
	checkSetSize(c, hs)
}

// checkEOFEdge: the block writing the eof constant is controlled by a fact
// equivalent to (offset+len(data) >= attrs.Size) for eof=1, or its negation for eof=0.
func checkEOFEdge(p *Prog, fn *ssa.Function, eof tok, fattr tok, wantTrue bool) (string, string) {
	return checkEOFFacts(p, p.facts(eof.Instr.Block()), fattr, wantTrue)
}

// checkEOFFacts: do the facts that hold where eof gets the value wantTrue say exactly
// "offset+len(data) has (not) reached the size"?
func checkEOFFacts(p *Prog, facts []condFact, fattr tok, wantTrue bool) (string, string) {
	fl := newFlow(p)
	for _, f := range facts {
		op, lhs, rhs, ok := normCmp(f)
		if !ok || (op != ">=" && op != ">") {
			continue
		}
		// Is one side the Size field of the attrs value encoded in this reply?
		isSize := func(v ssa.Value) bool {
			base, fld, ok := fieldLoad(unwrap(v))
			if !ok || fld == nil || fld.Name() != "Size" {
				return false
			}
			return fattr.Val == nil || base == fattr.Val
		}
		isEnd := func(v ssa.Value) bool {
			os := fl.Origins(v)
			hasOff := hasOrigin(os, func(o Origin) bool {
				return o.Kind == "outparam" && strings.HasPrefix(o.Desc, "outparam:encoding/binary.Read")
			})
			hasLen := hasOrigin(os, func(o Origin) bool { return o.Kind == "call" && strings.Contains(o.Desc, "Read") }) || hasOrigin(os, func(o Origin) bool { return o.Kind == "param" })
			_, isAdd := unwrap(v).(*ssa.BinOp)
			return hasOff && hasLen && isAdd
		}
		// normalised fact "lhs op rhs" holds on this block
		if isEnd(lhs) && isSize(rhs) {
			// end >= size  (or end > size)
			if wantTrue && op == ">=" {
				return Discharged, "eof=1 exactly on offset+len(data) >= size"
			}
			if wantTrue {
				return Violated, "eof=1 only when offset+len(data) > size: a read that ends exactly at the file size reports eof=0"
			}
			return Violated, "eof=0 is written on the edge where offset+len(data) has reached the size"
		}
		if isSize(lhs) && isEnd(rhs) {
			// size > end  (or size >= end): the not-eof side
			if !wantTrue && op == ">" {
				return Discharged, "eof=0 exactly on size > offset+len(data)"
			}
			if !wantTrue {
				return Violated, "eof=0 also when offset+len(data) == size: a read that ends exactly at the file size reports eof=0"
			}
			return Violated, "eof=1 is written on the edge where the size is still beyond offset+len(data)"
		}
	}
	return Undecided, "no controlling comparison between offset+len(data) and the size of the attributes returned in this reply"
}

func checkSetSize(c *Ctx, hs *ssa.Function) {
	p := c.P
	const P = "C01"
	sizeFld := p.field("sattr3", "Size")
	setSizeFld := p.field("sattr3", "SetSize")
	if sizeFld == nil || setSizeFld == nil {
		c.undecided(P, "setsize", "binding:sattr3.Size", "", "fields not found")
		return
	}
	// truncating calls in the handler: backend Truncate or in-package wrappers that always truncate
	alwaysTrunc := map[*ssa.Function]bool{}
	for _, fn := range p.SrcFuncs {
		if performsOnAllOKPaths(p, fn, func(in ssa.Instruction) bool {
			ci, ok := in.(ssa.CallInstruction)
			if !ok {
				return false
			}
			bc := asBackendCall(ci)
			return bc != nil && bc.Method == "Truncate"
		}) {
			alwaysTrunc[fn] = true
		}
	}
	isTrunc := func(in ssa.Instruction) (ssa.Value, bool) {
		ci, ok := in.(ssa.CallInstruction)
		if !ok {
			return nil, false
		}
		if bc := asBackendCall(ci); bc != nil && bc.Method == "Truncate" {
			args := ci.Common().Args
			return args[len(args)-1], true
		}
		if f := staticCallee(ci); f != nil && alwaysTrunc[f] {
			args := ci.Common().Args
			return args[len(args)-1], true
		}
		return nil, false
	}
	// 1. on the SetSize==true edge every path to an OK reply passes a truncating call
	var setEdgeBlocks []*ssa.BasicBlock
	for _, b := range hs.Blocks {
		ifi := blockIf(b)
		if ifi == nil {
			continue
		}
		v, neg := stripNot(ifi.Cond)
		_, f, ok := fieldLoad(v)
		if ok && f == setSizeFld {
			if neg {
				setEdgeBlocks = append(setEdgeBlocks, b.Succs[1])
			} else {
				setEdgeBlocks = append(setEdgeBlocks, b.Succs[0])
			}
		}
	}
	if len(setEdgeBlocks) == 0 {
		c.bad(P, "setsize", "edge=SetSize", p.pos(hs.Pos()), "handler never tests sattr3.SetSize: a size change is not applied")
		return
	}
	okStatus := func(r *ssa.Return) bool {
		// returns built by nfsError* helpers (non-OK) need no truncate
		if call, ok := r.Results[0].(*ssa.Call); ok {
			if f := staticCallee(call); f != nil && strings.HasPrefix(f.Name(), "nfsError") {
				return true
			}
		}
		return false
	}
	var truncArg ssa.Value
	out := follow(followSpec{Fn: hs, Start: setEdgeBlocks, Closes: func(in ssa.Instruction) bool {
		a, ok := isTrunc(in)
		if ok {
			truncArg = a
		}
		return ok
	}, ExitOK: okStatus})
	if out.OK {
		c.ok(P, "setsize", "edge=SetSize must-truncate", p.pos(hs.Pos()), "every path from the SetSize edge to an OK reply truncates the backend file")
	} else {
		c.bad(P, "setsize", "edge=SetSize must-truncate", p.pos(hs.Pos()), "a path from the SetSize edge reaches an NFS3_OK reply without a backend Truncate (directly or through a wrapper that may skip it): "+p.pathString(out.Witness))
	}
	// 2. the size handed over is the wire size
	if truncArg != nil {
		fl := newFlow(p)
		os := fl.Origins(truncArg)
		good := len(os) > 0
		for _, o := range os {
			if !(o.Kind == "field" && o.Fld == sizeFld) && !(o.Kind == "call" && strings.Contains(o.Desc, "decodeSattr3")) {
				good = false
			}
		}
		c.verdictIf(good, P, "setsize", "arg=Truncate.size", p.pos(hs.Pos()), "size argument is sattr3.Size", "size handed to Truncate is not the requested size: origins "+strings.Join(originDescs(os), ","))
	}
	// 3. order: no truncating call reachable after the SetAttr call
	setAttr := "(*" + absnfsPath + ".AbsfsNFS).SetAttr"
	for _, call := range calls(hs) {
		if !isCallTo(call, setAttr) {
			continue
		}
		later := false
		res := follow(followSpec{Fn: hs, From: call, Closes: func(in ssa.Instruction) bool { return false }, Bad: func(in ssa.Instruction) bool {
			_, ok := isTrunc(in)
			return ok
		}, ExitOK: func(*ssa.Return) bool { return true }})
		if !res.OK && res.Why == "bad" {
			later = true
		}
		c.verdictIf(!later, P, "setsize", "order=truncate-before-SetAttr", p.instrPos(call), "size is applied before the other attributes", "truncate happens after the other attribute changes were applied")
	}
}

// performsOnAllOKPaths: every path from entry to a Return that does not
// return a definitely-non-nil error passes an instruction satisfying pred.
func performsOnAllOKPaths(p *Prog, fn *ssa.Function, pred func(ssa.Instruction) bool) bool {
	if len(fn.Blocks) == 0 {
		return false
	}
	has := false
	for _, b := range fn.Blocks {
		for _, in := range b.Instrs {
			if pred(in) {
				has = true
			}
		}
	}
	if !has {
		return false
	}
	out := follow(followSpec{Fn: fn, Start: []*ssa.BasicBlock{fn.Blocks[0]}, Closes: func(in ssa.Instruction) bool {
		if r, ok := in.(*ssa.Return); ok {
			// `return backendCall(...)`: the call is in the same block before; handled by scan order
			_ = r
		}
		return pred(in)
	}, ExitOK: func(r *ssa.Return) bool {
		if len(r.Results) == 0 {
			return false
		}
		last := r.Results[len(r.Results)-1]
		if isNilConst(last) {
			return false
		}
		// definitely non-nil error: fresh error construction
		if call, ok := last.(*ssa.Call); ok {
			if f := staticCallee(call); f != nil {
				q := qualFn(f)
				if q == "fmt.Errorf" || q == "errors.New" {
					return true
				}
			}
		}
		if knownNonNil(p, last, r.Block()) {
			return true
		}
		return false
	}})
	return out.OK
}
