package main

import (
	"golang.org/x/tools/go/ssa"
)

// Round 9 (two cooperating sites).  C26-i: DirCache.Invalidate only marked the listing expired (zero validUntil)
// instead of deleting it, and UpdateTTL re-stamped every cached listing with now+timeout: an invalidated listing
// came back to life after a retune, and READDIR served a listing without the entry created since.
//
// inval-removes: in (*AttrCache).Invalidate and (*DirCache).Invalidate every return is either dominated by a
// delete(recv.<map>, path) of the path parameter, or lies behind the not-found edge of a lookup of that map
// (nothing to remove).  "Invalidated" must mean "gone from the map": anything weaker leaves an entry another
// method can revive.

func runInvalRemoves(c *Ctx, P string, owner, field string) {
	p := c.P
	c.rule(P, "inval-removes", "every return of "+owner+".Invalidate is dominated by delete(map, path) or lies behind the not-found edge of a lookup of the map", 1)
	fn := p.Fn("(*" + owner + ").Invalidate")
	key := "fn=(*" + owner + ").Invalidate"
	if fn == nil || fn.Blocks == nil {
		c.undecided(P, "inval-removes", key, "", "not found")
		return
	}
	var dels []*ssa.BasicBlock
	for _, b := range fn.Blocks {
		for _, in := range b.Instrs {
			k, ok := isDeleteOn(in, owner, field)
			if !ok {
				continue
			}
			if prm, isP := unwrap(k).(*ssa.Parameter); isP && paramIndex(fn, prm) == 1 {
				dels = append(dels, b)
			}
		}
	}
	absent := func(b *ssa.BasicBlock) bool {
		for _, f := range p.facts(b) {
			// `_, ok := m[path]` … !ok
			if ex, isEx := unwrap(f.V).(*ssa.Extract); isEx && ex.Index == 1 && !f.Val {
				if lk, isL := ex.Tuple.(*ssa.Lookup); isL {
					if _, ok := isLoadOfField(lk.X, owner, field); ok {
						return true
					}
				}
			}
			// `e := m[path]` … e == nil
			if op, l, r, ok := normCmp(f); ok && op == "==" {
				for _, pair := range [][2]ssa.Value{{l, r}, {r, l}} {
					if lk, isL := unwrap(pair[0]).(*ssa.Lookup); isL && isNilConst(pair[1]) {
						if _, ok := isLoadOfField(lk.X, owner, field); ok {
							return true
						}
					}
				}
			}
		}
		return false
	}
	good, why := true, ""
	nRet := 0
	for _, b := range fn.Blocks {
		if b == fn.Recover || len(b.Instrs) == 0 {
			continue
		}
		ret, isRet := b.Instrs[len(b.Instrs)-1].(*ssa.Return)
		if !isRet {
			continue
		}
		nRet++
		dominated := false
		for _, d := range dels {
			if d == b || d.Dominates(b) {
				dominated = true
			}
		}
		if !dominated && !absent(b) {
			good = false
			why = "Invalidate can return at " + p.instrPos(ret) + " with the entry for the path still in the map (expired or marked, not deleted): another method that touches cached entries (a TTL update, a renewal) can bring the invalidated entry back, and a listing or attributes from before the mutation are served"
		}
	}
	if nRet == 0 {
		c.undecided(P, "inval-removes", key, p.pos(fn.Pos()), "no return found")
		return
	}
	c.verdictIf(good, P, "inval-removes", key, p.pos(fn.Pos()), "delete(map, path) on every path that found an entry", why)
}
