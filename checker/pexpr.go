package main

// pexpr.go: small symbolic expressions over SSA values used to compare "the
// same path" across instructions and across call boundaries.

import (
	"go/token"
	"go/types"
	"strings"

	"golang.org/x/tools/go/ssa"
)

type pexpr struct {
	Kind string // val | load | call | const
	Val  ssa.Value
	Fld  *types.Var
	Fn   string
	Idx  int
	Args []*pexpr
}

// pure functions whose results are determined by their arguments.
var pureFns = map[string]bool{
	"path.Join": true, "path/filepath.Join": true, "path.Clean": true, "path/filepath.Clean": true,
	"path/filepath.ToSlash": true, absnfsPath + ".sanitizePath": true,
}

func mkExpr(v ssa.Value) *pexpr {
	return mkExprD(v, 0)
}

func mkExprD(v ssa.Value, d int) *pexpr {
	if d > 12 {
		return &pexpr{Kind: "val", Val: v}
	}
	switch x := v.(type) {
	case *ssa.Const:
		return &pexpr{Kind: "const", Val: v}
	case *ssa.ChangeType:
		return mkExprD(x.X, d+1)
	case *ssa.UnOp:
		if x.Op == token.MUL {
			if fa, ok := x.X.(*ssa.FieldAddr); ok {
				return &pexpr{Kind: "load", Fld: fieldOf(fa.X.Type(), fa.Field), Args: []*pexpr{mkExprD(fa.X, d+1)}}
			}
			// load of a local cell written exactly once (a parameter or local
			// spilled because a closure captures it): the stored value
			if sv := singleStore(x.X); sv != nil {
				return mkExprD(sv, d+1)
			}
		}
	case *ssa.Field:
		return &pexpr{Kind: "load", Fld: fieldOf(x.X.Type(), x.Field), Args: []*pexpr{mkExprD(x.X, d+1)}}
	case *ssa.Extract:
		if c, ok := x.Tuple.(*ssa.Call); ok {
			if e := callExpr(c, x.Index, d); e != nil {
				return e
			}
		}
	case *ssa.Call:
		if e := callExpr(x, 0, d); e != nil {
			return e
		}
	case *ssa.Slice:
		// variadic packing of constant-length arg lists is handled in callExpr
	}
	return &pexpr{Kind: "val", Val: v}
}

func callExpr(c *ssa.Call, idx, d int) *pexpr {
	f := staticCallee(c)
	if f == nil || !pureFns[qualFn(f)] {
		return nil
	}
	e := &pexpr{Kind: "call", Fn: qualFn(f), Idx: idx}
	for _, a := range variadicArgs(c) {
		e.Args = append(e.Args, mkExprD(a, d+1))
	}
	return e
}

// variadicArgs expands a variadic call's packed slice (new [n]T; stores; slice) into its elements.
func variadicArgs(c *ssa.Call) []ssa.Value {
	args := c.Call.Args
	sig := c.Call.Signature()
	if sig == nil || !sig.Variadic() || len(args) == 0 {
		return args
	}
	last := args[len(args)-1]
	sl, ok := last.(*ssa.Slice)
	if !ok {
		return args
	}
	al, ok := sl.X.(*ssa.Alloc)
	if !ok {
		return args
	}
	elems := map[int64]ssa.Value{}
	max := int64(-1)
	for _, r := range *al.Referrers() {
		ia, ok := r.(*ssa.IndexAddr)
		if !ok {
			continue
		}
		i, ok := constInt(ia.Index)
		if !ok {
			return args
		}
		for _, r2 := range *ia.Referrers() {
			if st, ok := r2.(*ssa.Store); ok && st.Addr == ia {
				elems[i] = st.Val
				if i > max {
					max = i
				}
			}
		}
	}
	out := append([]ssa.Value{}, args[:len(args)-1]...)
	for i := int64(0); i <= max; i++ {
		if elems[i] == nil {
			return args
		}
		out = append(out, elems[i])
	}
	return out
}

func (e *pexpr) equal(o *pexpr) bool {
	if e == nil || o == nil {
		return false
	}
	if e.Kind != o.Kind {
		return false
	}
	switch e.Kind {
	case "val":
		return e.Val == o.Val
	case "const":
		a, b := e.Val.(*ssa.Const), o.Val.(*ssa.Const)
		if a.Value == nil || b.Value == nil {
			return a.Value == nil && b.Value == nil
		}
		return a.Value.ExactString() == b.Value.ExactString()
	case "load":
		return e.Fld == o.Fld && e.Args[0].equal(o.Args[0])
	case "call":
		if e.Fn != o.Fn || e.Idx != o.Idx || len(e.Args) != len(o.Args) {
			return false
		}
		for i := range e.Args {
			if !e.Args[i].equal(o.Args[i]) {
				return false
			}
		}
		return true
	}
	return false
}

// subst replaces parameter leaves by the given actuals.
func (e *pexpr) subst(m map[ssa.Value]*pexpr) *pexpr {
	switch e.Kind {
	case "val":
		if r, ok := m[e.Val]; ok {
			return r
		}
		return e
	case "const":
		return e
	}
	n := &pexpr{Kind: e.Kind, Val: e.Val, Fld: e.Fld, Fn: e.Fn, Idx: e.Idx}
	for _, a := range e.Args {
		n.Args = append(n.Args, a.subst(m))
	}
	return n
}

// paramRooted reports whether all opaque leaves are parameters of fn.
func (e *pexpr) paramRooted(fn *ssa.Function) bool {
	switch e.Kind {
	case "val":
		p, ok := e.Val.(*ssa.Parameter)
		return ok && p.Parent() == fn
	case "const":
		return true
	}
	for _, a := range e.Args {
		if !a.paramRooted(fn) {
			return false
		}
	}
	return true
}

func (e *pexpr) String() string {
	switch e.Kind {
	case "val":
		if p, ok := e.Val.(*ssa.Parameter); ok {
			return p.Name()
		}
		return e.Val.Name()
	case "const":
		return e.Val.String()
	case "load":
		n := "?"
		if e.Fld != nil {
			n = e.Fld.Name()
		}
		return e.Args[0].String() + "." + n
	case "call":
		var as []string
		for _, a := range e.Args {
			as = append(as, a.String())
		}
		fn := e.Fn
		if i := strings.LastIndex(fn, "/"); i >= 0 {
			fn = fn[i+1:]
		}
		fn = strings.TrimPrefix(fn, "absnfs.")
		return fn + "(" + strings.Join(as, ",") + ")"
	}
	return "?"
}

// parentOf: the directory expression of a child path built by Join/sanitizePath.
func (e *pexpr) parentOf() *pexpr {
	if e.Kind == "call" && (strings.HasSuffix(e.Fn, ".Join") || strings.HasSuffix(e.Fn, ".sanitizePath")) && len(e.Args) == 2 {
		return e.Args[0]
	}
	if e.Kind == "call" && (strings.HasSuffix(e.Fn, ".Clean") || strings.HasSuffix(e.Fn, ".ToSlash")) && len(e.Args) == 1 {
		return e.Args[0].parentOf()
	}
	return nil
}

// singleStore: addr is a local cell (Alloc, or a FreeVar bound to one) with
// exactly one store, and no call receives its address: returns the stored value.
func singleStore(addr ssa.Value) ssa.Value {
	var al *ssa.Alloc
	switch a := addr.(type) {
	case *ssa.Alloc:
		al = a
	case *ssa.FreeVar:
		if b, ok := freeVarBinding(a).(*ssa.Alloc); ok {
			al = b
		}
	}
	if al == nil {
		return nil
	}
	var val ssa.Value
	n := 0
	forEachUseOfCell(al, func(in ssa.Instruction, how string, c ssa.CallInstruction, argIdx int) {
		n++
		if how == "store" {
			val = in.(*ssa.Store).Val
		} else {
			n += 100
		}
	})
	if n == 1 {
		return val
	}
	return nil
}
