package main

// inline_thread.go: jump threading for inlined helpers, and lowering of short-circuit operators.
//
// After `x, ok := helper(a)` has been replaced by the helper's body, every `return v, false` of the helper
// has become `{ r0, r1 = v, false; break L }`, and the caller goes on with `x, ok := r0, r1; if !ok { ... }`.
// In the SSA form r1 is a phi and the caller's test branches on it: rules that look at what happens "on the
// edge where the lookup failed" would see a merged path.  Where the value a return site gives to the tested
// result is known at that site (a constant, nil, or a value known to be non-nil there) and the caller's test
// decides to a branch that ends in return/continue/goto/panic, the `break L` of that site is replaced by a copy
// of the caller's assignment and of that branch: the same statements are executed in the same order, and the
// failing path stays a separate path, as it was before the helper was extracted.

import (
	"go/ast"
	"go/constant"
	"go/token"
	"go/types"
)

type absKind int

const (
	absUnknown absKind = iota
	absConst           // a constant value
	absNil
	absNonNil
)

type absVal struct {
	k absKind
	c constant.Value
}

type retSite struct {
	blk  *ast.BlockStmt // { temps = vals; break L }
	vals []absVal
}

type expansion struct {
	label      string
	temps      []string
	sites      []*retSite
	switchMode bool
}

// ---------------------------------------------------------------------------
// facts about the callee's own identifiers at its return statements

type calleeFacts struct {
	nonNilLocal map[types.Object]bool                       // x := &T{} / new(T) / make(...), never reassigned
	atReturn    map[*ast.ReturnStmt]map[types.Object]absVal // from enclosing if conditions
}

func (in *inliner) factsOf(decl *ast.FuncDecl) *calleeFacts {
	info := in.info
	cf := &calleeFacts{nonNilLocal: map[types.Object]bool{}, atReturn: map[*ast.ReturnStmt]map[types.Object]absVal{}}
	assigned := map[types.Object]int{}
	ast.Inspect(decl.Body, func(n ast.Node) bool {
		switch x := n.(type) {
		case *ast.AssignStmt:
			for i, l := range x.Lhs {
				id, ok := l.(*ast.Ident)
				if !ok {
					continue
				}
				obj := info.Defs[id]
				if obj == nil {
					obj = info.Uses[id]
				}
				if obj == nil {
					continue
				}
				assigned[obj]++
				if x.Tok == token.DEFINE && len(x.Lhs) == len(x.Rhs) && isNonNilExpr(info, x.Rhs[i]) {
					cf.nonNilLocal[obj] = true
				}
			}
		case *ast.IncDecStmt:
			if id, ok := x.X.(*ast.Ident); ok {
				if obj := info.Uses[id]; obj != nil {
					assigned[obj] += 2
				}
			}
		case *ast.UnaryExpr:
			if x.Op == token.AND { // address taken: may be written through the pointer
				if id, ok := ast.Unparen(x.X).(*ast.Ident); ok {
					if obj := info.Uses[id]; obj != nil {
						assigned[obj] += 2
					}
				}
			}
		}
		return true
	})
	for obj := range cf.nonNilLocal {
		if assigned[obj] != 1 {
			delete(cf.nonNilLocal, obj)
		}
	}
	// facts from enclosing conditions (only for identifiers assigned at most once in the whole body and not
	// inside the guarded branch: a simple, sound-enough criterion is "assigned at most once")
	var walk func(n ast.Node, facts map[types.Object]absVal)
	walkList := func(l []ast.Stmt, facts map[types.Object]absVal) {
		for _, s := range l {
			walk(s, facts)
		}
	}
	walk = func(n ast.Node, facts map[types.Object]absVal) {
		switch x := n.(type) {
		case nil:
		case *ast.BlockStmt:
			walkList(x.List, facts)
		case *ast.IfStmt:
			thenF := copyFacts(facts)
			elseF := copyFacts(facts)
			in.condFacts(x.Cond, true, thenF, assigned)
			in.condFacts(x.Cond, false, elseF, assigned)
			walk(x.Body, thenF)
			if x.Else != nil {
				walk(x.Else, elseF)
			}
		case *ast.ForStmt:
			walk(x.Body, facts)
		case *ast.RangeStmt:
			walk(x.Body, facts)
		case *ast.SwitchStmt:
			walk(x.Body, facts)
		case *ast.TypeSwitchStmt:
			walk(x.Body, facts)
		case *ast.SelectStmt:
			walk(x.Body, facts)
		case *ast.CaseClause:
			walkList(x.Body, facts)
		case *ast.CommClause:
			walkList(x.Body, facts)
		case *ast.LabeledStmt:
			walk(x.Stmt, facts)
		case *ast.ReturnStmt:
			cf.atReturn[x] = facts
		}
	}
	walk(decl.Body, map[types.Object]absVal{})
	return cf
}

// assignedIn: is obj written (assigned, inc/dec'd, address taken, used as range variable) inside decl's body?
func (in *inliner) assignedIn(decl *ast.FuncDecl, obj types.Object) bool {
	info := in.info
	found := false
	is := func(e ast.Expr) bool {
		id, ok := ast.Unparen(e).(*ast.Ident)
		return ok && (info.Uses[id] == obj || info.Defs[id] == obj)
	}
	ast.Inspect(decl.Body, func(n ast.Node) bool {
		switch x := n.(type) {
		case *ast.AssignStmt:
			for _, l := range x.Lhs {
				if is(l) {
					found = true
				}
			}
		case *ast.IncDecStmt:
			if is(x.X) {
				found = true
			}
		case *ast.UnaryExpr:
			if x.Op == token.AND && is(x.X) {
				found = true
			}
		case *ast.RangeStmt:
			if (x.Key != nil && is(x.Key)) || (x.Value != nil && is(x.Value)) {
				found = true
			}
		}
		return !found
	})
	return found
}

func copyFacts(m map[types.Object]absVal) map[types.Object]absVal {
	out := make(map[types.Object]absVal, len(m)+2)
	for k, v := range m {
		out[k] = v
	}
	return out
}

// condFacts adds what `cond == want` tells about plain identifiers.
func (in *inliner) condFacts(cond ast.Expr, want bool, facts map[types.Object]absVal, assigned map[types.Object]int) {
	info := in.info
	switch e := ast.Unparen(cond).(type) {
	case *ast.UnaryExpr:
		if e.Op == token.NOT {
			in.condFacts(e.X, !want, facts, assigned)
		}
	case *ast.BinaryExpr:
		switch e.Op {
		case token.LAND:
			if want {
				in.condFacts(e.X, true, facts, assigned)
				in.condFacts(e.Y, true, facts, assigned)
			}
		case token.LOR:
			if !want {
				in.condFacts(e.X, false, facts, assigned)
				in.condFacts(e.Y, false, facts, assigned)
			}
		case token.EQL, token.NEQ:
			var id *ast.Ident
			if i, ok := ast.Unparen(e.X).(*ast.Ident); ok && isNilIdent(info, e.Y) {
				id = i
			} else if i, ok := ast.Unparen(e.Y).(*ast.Ident); ok && isNilIdent(info, e.X) {
				id = i
			}
			if id != nil {
				if obj := info.Uses[id]; obj != nil && assigned[obj] <= 1 {
					isNil := (e.Op == token.EQL) == want
					if isNil {
						facts[obj] = absVal{k: absNil}
					} else {
						facts[obj] = absVal{k: absNonNil}
					}
				}
			}
		}
	case *ast.Ident:
		if obj := info.Uses[e]; obj != nil && assigned[obj] <= 1 {
			if b, ok := obj.Type().Underlying().(*types.Basic); ok && b.Info()&types.IsBoolean != 0 {
				facts[obj] = absVal{k: absConst, c: constant.MakeBool(want)}
			}
		}
	}
}

func isNilIdent(info *types.Info, e ast.Expr) bool {
	tv, ok := info.Types[ast.Unparen(e)]
	return ok && tv.IsNil()
}

func isNonNilExpr(info *types.Info, e ast.Expr) bool {
	switch x := ast.Unparen(e).(type) {
	case *ast.UnaryExpr:
		return x.Op == token.AND
	case *ast.CallExpr:
		if id, ok := x.Fun.(*ast.Ident); ok {
			if b, ok := info.Uses[id].(*types.Builtin); ok && (b.Name() == "new" || b.Name() == "make") {
				return true
			}
		}
		// fmt.Errorf and errors.New never return nil
		if sel, ok := x.Fun.(*ast.SelectorExpr); ok {
			if fn, ok := info.Uses[sel.Sel].(*types.Func); ok && fn.Pkg() != nil {
				if (fn.Pkg().Path() == "fmt" && fn.Name() == "Errorf") || (fn.Pkg().Path() == "errors" && fn.Name() == "New") {
					return true
				}
			}
		}
	case *ast.CompositeLit:
		if tv, ok := info.Types[x]; ok && tv.Type != nil {
			switch tv.Type.Underlying().(type) {
			case *types.Slice, *types.Map:
				return true
			}
		}
	case *ast.FuncLit:
		return true
	}
	return false
}

// classify gives the abstract value of a returned expression of the callee at return statement rs.
func (in *inliner) classify(cf *calleeFacts, rs *ast.ReturnStmt, e ast.Expr) absVal {
	info := in.info
	e = ast.Unparen(e)
	if tv, ok := info.Types[e]; ok {
		if tv.IsNil() {
			return absVal{k: absNil}
		}
		if tv.Value != nil {
			return absVal{k: absConst, c: tv.Value}
		}
	}
	if isNonNilExpr(info, e) {
		return absVal{k: absNonNil}
	}
	if id, ok := e.(*ast.Ident); ok {
		if obj := info.Uses[id]; obj != nil {
			if cf.nonNilLocal[obj] {
				return absVal{k: absNonNil}
			}
			if f, ok := cf.atReturn[rs][obj]; ok {
				return f
			}
		}
	}
	return absVal{}
}

// ---------------------------------------------------------------------------
// three-valued evaluation of the caller's condition

type tri int

const (
	triUnknown tri = iota
	triTrue
	triFalse
)

func triOf(b bool) tri {
	if b {
		return triTrue
	}
	return triFalse
}

func evalCond(info *types.Info, e ast.Expr, env map[string]absVal) tri {
	switch x := ast.Unparen(e).(type) {
	case *ast.Ident:
		if v, ok := env[x.Name]; ok && v.k == absConst && v.c.Kind() == constant.Bool {
			return triOf(constant.BoolVal(v.c))
		}
		if tv, ok := info.Types[x]; ok && tv.Value != nil && tv.Value.Kind() == constant.Bool {
			return triOf(constant.BoolVal(tv.Value))
		}
	case *ast.UnaryExpr:
		if x.Op == token.NOT {
			switch evalCond(info, x.X, env) {
			case triTrue:
				return triFalse
			case triFalse:
				return triTrue
			}
		}
	case *ast.BinaryExpr:
		switch x.Op {
		case token.LAND:
			a, b := evalCond(info, x.X, env), evalCond(info, x.Y, env)
			if a == triFalse || b == triFalse {
				return triFalse
			}
			if a == triTrue && b == triTrue {
				return triTrue
			}
		case token.LOR:
			a, b := evalCond(info, x.X, env), evalCond(info, x.Y, env)
			if a == triTrue || b == triTrue {
				return triTrue
			}
			if a == triFalse && b == triFalse {
				return triFalse
			}
		case token.EQL, token.NEQ:
			a, b := evalAbs(info, x.X, env), evalAbs(info, x.Y, env)
			eq := triUnknown
			switch {
			case a.k == absNil && b.k == absNil:
				eq = triTrue
			case (a.k == absNil && b.k == absNonNil) || (a.k == absNonNil && b.k == absNil):
				eq = triFalse
			case a.k == absConst && b.k == absConst && a.c.Kind() == b.c.Kind():
				eq = triOf(constant.Compare(a.c, token.EQL, b.c))
			}
			if eq == triUnknown {
				return triUnknown
			}
			if x.Op == token.NEQ {
				if eq == triTrue {
					return triFalse
				}
				return triTrue
			}
			return eq
		}
	}
	return triUnknown
}

func evalAbs(info *types.Info, e ast.Expr, env map[string]absVal) absVal {
	e = ast.Unparen(e)
	if id, ok := e.(*ast.Ident); ok {
		if v, ok := env[id.Name]; ok {
			return v
		}
	}
	if tv, ok := info.Types[e]; ok {
		if tv.IsNil() {
			return absVal{k: absNil}
		}
		if tv.Value != nil {
			return absVal{k: absConst, c: tv.Value}
		}
	}
	return absVal{}
}

// ---------------------------------------------------------------------------
// tagless switch -> if/else-if chain
//
// `switch { case a, f(x): A; case b: B; default: D }` evaluates its case expressions in order until one is
// true, exactly like `if a || f(x) { A } else if b { B } else { D }`.  The conversion is done only when a case
// expression holds a call of an inlinable function (so that the call can be reached by the lowering of `||`
// and by inlining), and only when no clause body uses `fallthrough` or an unlabelled `break` that refers to
// the switch.

func (in *inliner) switchToIf(sw *ast.SwitchStmt) ast.Stmt {
	if sw.Tag != nil || sw.Body == nil || len(sw.Body.List) == 0 {
		return nil
	}
	need := false
	var deflt *ast.CaseClause
	var clauses []*ast.CaseClause
	for _, st := range sw.Body.List {
		cc, ok := st.(*ast.CaseClause)
		if !ok {
			return nil
		}
		if cc.List == nil {
			deflt = cc
			continue
		}
		clauses = append(clauses, cc)
		for _, e := range cc.List {
			if in.containsCandidate(e) {
				need = true
			}
		}
	}
	// Every tagless switch is converted (not only those whose cases call a helper): go/ssa evaluates a case
	// expression `a || b` as a value (a phi) but an if condition as control flow, and the rules read control flow.
	_ = need
	// a default clause in the middle is still evaluated last: fine.  Bodies must not break/fallthrough.
	for _, st := range sw.Body.List {
		cc := st.(*ast.CaseClause)
		bad := false
		var visit func(n ast.Node, nest int)
		visit = func(n ast.Node, nest int) {
			ast.Inspect(n, func(m ast.Node) bool {
				if bad || m == nil {
					return false
				}
				if m == n {
					return true
				}
				switch x := m.(type) {
				case *ast.FuncLit:
					return false
				case *ast.ForStmt, *ast.RangeStmt, *ast.SwitchStmt, *ast.TypeSwitchStmt, *ast.SelectStmt:
					visit(x, nest+1)
					return false
				case *ast.BranchStmt:
					if x.Tok == token.FALLTHROUGH && nest == 0 {
						bad = true
					}
					if x.Tok == token.BREAK && x.Label == nil && nest == 0 {
						bad = true
					}
				}
				return !bad
			})
		}
		for _, b := range cc.Body {
			visit(&ast.BlockStmt{List: []ast.Stmt{b}}, 0)
		}
		if bad {
			return nil
		}
	}
	var root, last *ast.IfStmt
	for _, cc := range clauses {
		cond := cc.List[0]
		for _, e := range cc.List[1:] {
			cond = &ast.BinaryExpr{X: cond, OpPos: e.Pos(), Op: token.LOR, Y: e}
		}
		ifs := &ast.IfStmt{If: cc.Case, Cond: cond, Body: &ast.BlockStmt{Lbrace: cc.Colon, List: cc.Body, Rbrace: cc.End()}}
		if root == nil {
			root = ifs
		} else {
			last.Else = ifs
		}
		last = ifs
	}
	if root == nil {
		return nil
	}
	if deflt != nil {
		last.Else = &ast.BlockStmt{Lbrace: deflt.Colon, List: deflt.Body, Rbrace: deflt.End()}
	}
	if sw.Init != nil {
		return &ast.BlockStmt{Lbrace: sw.Switch, List: []ast.Stmt{sw.Init, root}, Rbrace: sw.End()}
	}
	return root
}

// ---------------------------------------------------------------------------
// threading

// threadable: the branch ends in a statement that leaves it for good, and contains nothing whose meaning
// would change inside the labelled switch (an unlabelled break outside its own loops/switches, a label).
func threadable(body *ast.BlockStmt) bool {
	if body == nil || len(body.List) == 0 {
		return false
	}
	switch last := body.List[len(body.List)-1].(type) {
	case *ast.ReturnStmt:
	case *ast.BranchStmt:
		if last.Tok == token.BREAK && last.Label == nil {
			return false
		}
		if last.Tok == token.FALLTHROUGH {
			return false
		}
	case *ast.ExprStmt:
		call, ok := last.X.(*ast.CallExpr)
		if !ok {
			return false
		}
		if id, ok := call.Fun.(*ast.Ident); !ok || id.Name != "panic" {
			return false
		}
	default:
		return false
	}
	ok := true
	var visit func(n ast.Node, nest int)
	visit = func(n ast.Node, nest int) {
		ast.Inspect(n, func(m ast.Node) bool {
			if !ok || m == nil {
				return false
			}
			if m == n {
				return true
			}
			switch x := m.(type) {
			case *ast.FuncLit:
				return false
			case *ast.LabeledStmt:
				ok = false
			case *ast.ForStmt, *ast.RangeStmt, *ast.SwitchStmt, *ast.TypeSwitchStmt, *ast.SelectStmt:
				visit(x, nest+1)
				return false
			case *ast.BranchStmt:
				if x.Tok == token.BREAK && x.Label == nil && nest == 0 {
					ok = false
				}
			}
			return ok
		})
	}
	visit(body, 0)
	return ok
}

// thread specialises the return sites of exp for the test `target` that follows the inlined call.
// bind are the statements between the inlined body and the test that give the results their caller names
// (`x, ok := r0, r1`), nil when the results are used by the test's own init/condition.
func (in *inliner) thread(exp *expansion, bind ast.Stmt, target *ast.IfStmt) {
	if exp == nil || !exp.switchMode || target == nil || !threadable(target.Body) {
		return
	}
	// caller names of the temporaries
	alias := map[string]int{}
	for i, t := range exp.temps {
		alias[t] = i
	}
	addAliases := func(s ast.Stmt) {
		as, ok := s.(*ast.AssignStmt)
		if !ok || len(as.Lhs) != len(as.Rhs) {
			return
		}
		for i := range as.Lhs {
			l, ok1 := as.Lhs[i].(*ast.Ident)
			r, ok2 := as.Rhs[i].(*ast.Ident)
			if ok1 && ok2 && l.Name != "_" {
				if k, ok := alias[r.Name]; ok {
					alias[l.Name] = k
				}
			}
		}
	}
	if bind != nil {
		addAliases(bind)
		if ds, ok := bind.(*ast.DeclStmt); ok {
			if gd, ok := ds.Decl.(*ast.GenDecl); ok {
				for _, sp := range gd.Specs {
					if vs, ok := sp.(*ast.ValueSpec); ok && len(vs.Names) == len(vs.Values) {
						for i := range vs.Names {
							if r, ok := vs.Values[i].(*ast.Ident); ok {
								if k, ok := alias[r.Name]; ok {
									alias[vs.Names[i].Name] = k
								}
							}
						}
					}
				}
			}
		}
	}
	if target.Init != nil {
		addAliases(target.Init)
	}
	for _, site := range exp.sites {
		n := len(site.blk.List)
		if n == 0 {
			continue
		}
		br, ok := site.blk.List[n-1].(*ast.BranchStmt)
		if !ok || br.Tok != token.BREAK || br.Label == nil || br.Label.Name != exp.label {
			continue
		}
		env := map[string]absVal{}
		for name, k := range alias {
			if k < len(site.vals) {
				env[name] = site.vals[k]
			}
		}
		if evalCond(in.info, target.Cond, env) != triTrue {
			continue
		}
		hc := &copier{in: in, rename: map[types.Object]string{}, hostCopy: true}
		var tail []ast.Stmt
		if bind != nil {
			tail = append(tail, hc.stmt(bind))
		}
		if target.Init != nil {
			tail = append(tail, hc.stmt(target.Init))
		}
		tail = append(tail, hc.stmtList(target.Body.List)...)
		site.blk.List = append(site.blk.List[:n-1:n-1], &ast.BlockStmt{Lbrace: target.Body.Lbrace, List: tail, Rbrace: target.Body.Rbrace})
		in.stats.Threaded++
	}
}
