package main

import (
	"fmt"
	"strings"

	"golang.org/x/tools/go/ssa"
)

func init() {
	register("C09",
		"Decided: (gate) the procedure dispatch calls (handleNFSCall, handleMountCall) are reachable from HandleCall only across the Allowed==true edge of the ValidateAuthentication result, the other edge stores MSG_DENIED and returns without starting the worker; dispatch functions have no other callers; (order) inside ValidateAuthentication every store Allowed=true is reachable only past the allow-list test (list empty or isIPAllowed true) and the secure-port test (Secure false or ClientPort < 1024, constant and direction checked); (siblings) the request-level and the connection-level membership functions implement the same rule: unparsable client ⇒ false, normalizeIP on the client address, entries containing '/' through ParseCIDR+Contains with invalid entries skipped, other entries through ParseIP+normalizeIP+Equal, default false — or one delegates to the other with the policy's list; the accept loop closes a connection whose filter result is false before registering it. Not decided: the membership arithmetic inside package net; the set of addresses a given list admits.",
		commonAssume, runC09)
}

func runC09(c *Ctx) {
	p := c.P
	const P = "C09"
	runC09MemberByNet(c, P)
	c.rule(P, "gate", "dispatch reachable only across AuthResult.Allowed==true; denial edge sets MSG_DENIED and returns; dispatch has no other callers", 3)
	c.rule(P, "order", "in ValidateAuthentication, Allowed=true is stored only past the allow-list and secure-port tests (ClientPort < 1024)", 2)
	c.rule(P, "siblings", "auth.isIPAllowed and Server.isIPAllowed implement the same membership rule (feature-by-feature) or delegate", 10)
	c.rule(P, "accept", "acceptLoop closes and skips a connection whose isIPAllowed result is false, before registerConnection", 1)

	// the allow-list and the secure flag the gate consults are the ones in force for this request only if the
	// policy is read after admission under the policy read lock: borrow C16's admit-first (reported under C09)
	savedOnly := c.Only
	c.Only = map[string]bool{"admit-first": true}
	runC16As(c, P)
	c.Only = savedOnly

	ent, err := p.entrySet()
	if err != nil {
		c.undecided(P, "gate", "entries", "", err.Error())
		return
	}
	allowed := p.field("AuthResult", "Allowed")
	if allowed == nil {
		c.undecided(P, "gate", "binding:AuthResult.Allowed", "", "not found")
		return
	}
	safe := fieldGuard(allowed, true)
	isEntry := map[*ssa.Function]bool{ent.HandleCall: true}
	reach := p.reachableFrom([]*ssa.Function{ent.HandleCall})
	for _, target := range []*ssa.Function{ent.NFSCall, ent.Mount} {
		sites := p.callers[target]
		if len(sites) == 0 {
			c.bad(P, "gate", "dispatch="+fnKey(target), "", "dispatch function is never called")
			continue
		}
		for _, cs := range sites {
			key := fmt.Sprintf("call=%s:%s#%d", fnKey(cs.Caller), target.Name(), ordinal(cs.Caller, cs.Instr))
			if rootFn(cs.Caller) != ent.HandleCall {
				c.bad(P, "gate", key, p.instrPos(cs.Instr), "dispatch is called from outside HandleCall: requests can bypass authentication")
				continue
			}
			r := p.liftGuard(cs.Caller, cs.Instr, safe, isEntry, reach)
			c.verdictIf(r.Guarded, P, "gate", key, p.instrPos(cs.Instr), "only across Allowed==true", "procedure dispatch is reachable without crossing the Allowed==true edge of the authentication result: "+strings.Join(r.Chain, " -> "))
		}
	}
	// handlers only invoked from handleNFSCall
	for num, h := range ent.Handlers {
		for _, cs := range p.callers[h] {
			if cs.Caller != ent.NFSCall {
				c.bad(P, "gate", fmt.Sprintf("handler=%s caller=%s", procNames[num], fnKey(cs.Caller)), p.instrPos(cs.Instr), "procedure handler invoked outside the authenticated dispatch")
			}
		}
	}
	// denial edge
	statusFld := p.field("RPCReply", "Status")
	for _, b := range ent.HandleCall.Blocks {
		ifi := blockIf(b)
		if ifi == nil {
			continue
		}
		v, neg := stripNot(ifi.Cond)
		_, f, ok := fieldLoad(v)
		if !ok || f != allowed {
			continue
		}
		deny := b.Succs[1]
		if neg {
			deny = b.Succs[0]
		}
		good, why := true, ""
		seen := map[*ssa.BasicBlock]bool{}
		stored := false
		var walk func(b *ssa.BasicBlock)
		walk = func(b *ssa.BasicBlock) {
			if seen[b] {
				return
			}
			seen[b] = true
			for _, in := range b.Instrs {
				if _, ok := in.(*ssa.Go); ok {
					good, why = false, "worker goroutine started on the denial edge at "+p.instrPos(in)
				}
				if st, ok := in.(*ssa.Store); ok {
					if _, f, ok := fieldAddrOf(st.Addr); ok && f == statusFld {
						if k, isC := constInt(st.Val); isC && k == 1 {
							stored = true
						}
					}
				}
				if ci, ok := in.(ssa.CallInstruction); ok {
					for _, callee := range p.calleesAt(ent.HandleCall, ci) {
						if callee == ent.NFSCall || callee == ent.Mount {
							good, why = false, "dispatch on the denial edge"
						}
					}
				}
				if _, ok := in.(*ssa.Return); ok {
					return
				}
			}
			for _, s := range b.Succs {
				walk(s)
			}
		}
		walk(deny)
		if good && !stored {
			good, why = false, "denial edge does not store MSG_DENIED into reply.Status"
		}
		c.verdictIf(good, P, "gate", "edge=denied", p.instrPos(ifi), "MSG_DENIED, no dispatch", why)
	}

	// order
	va := p.Fn("ValidateAuthentication")
	if va == nil {
		c.undecided(P, "order", "fn=ValidateAuthentication", "", "not found")
	} else {
		ipFn := p.Fn("isIPAllowed")
		allowedIPs := p.field("PolicyOptions", "AllowedIPs")
		secure := p.field("PolicyOptions", "Secure")
		clientPort := p.field("AuthContext", "ClientPort")
		ipSafe := func(f condFact) bool {
			// isIPAllowed(...) true
			if call, ok := f.V.(*ssa.Call); ok && f.Val && staticCallee(call) == ipFn && ipFn != nil {
				return true
			}
			// len(policy.AllowedIPs) > 0 false
			op, l, r, ok := normCmp(f)
			if ok && (op == ">=" || op == ">" || op == "==") {
				isLenIPs := func(v ssa.Value) bool {
					call, ok := v.(*ssa.Call)
					if !ok {
						return false
					}
					b, ok := call.Call.Value.(*ssa.Builtin)
					if !ok || b.Name() != "len" {
						return false
					}
					_, fl, ok := fieldLoad(call.Call.Args[0])
					return ok && fl == allowedIPs
				}
				// 0 >= len  (i.e. !(len > 0))  or len == 0
				if k, isC := constInt(l); isC && k == 0 && isLenIPs(r) && op == ">=" {
					return true
				}
				if k, isC := constInt(r); isC && k == 0 && isLenIPs(l) && op == "==" {
					return true
				}
			}
			return false
		}
		portSafe := func(f condFact) bool {
			if _, fl, ok := fieldLoad(f.V); ok && fl == secure && !f.Val {
				return true
			}
			op, l, r, ok := normCmp(f)
			if !ok {
				return false
			}
			isPort := func(v ssa.Value) bool { _, fl, ok := fieldLoad(v); return ok && fl == clientPort }
			// 1024 > port   or   1023 >= port
			if k, isC := constInt(l); isC && isPort(r) && ((op == ">" && k == 1024) || (op == ">=" && k == 1023)) {
				return true
			}
			return false
		}
		n := 0
		for _, b := range va.Blocks {
			for _, in := range b.Instrs {
				st, ok := in.(*ssa.Store)
				if !ok {
					continue
				}
				_, f, isFA := fieldAddrOf(st.Addr)
				if !isFA || f != allowed {
					continue
				}
				if k, isC := st.Val.(*ssa.Const); !isC || k.Value == nil || k.Value.String() != "true" {
					continue
				}
				n++
				key := fmt.Sprintf("store=Allowed:true#%d", n)
				c.verdictIf(guardedBy(va, b, ipSafe), P, "order", key+" ip", p.instrPos(in), "behind the allow-list test", "a request can be allowed without passing the AllowedIPs test (list empty or isIPAllowed true)")
				c.verdictIf(guardedBy(va, b, portSafe), P, "order", key+" port", p.instrPos(in), "behind the secure-port test", "a request can be allowed without passing the secure-port test (Secure false or ClientPort < 1024)")
			}
		}
		if n == 0 {
			c.undecided(P, "order", "store=Allowed:true", p.pos(va.Pos()), "no store Allowed=true found")
		}
	}

	runC09ListPreserved(c)

	// siblings
	f1 := p.Fn("isIPAllowed")
	f2 := p.Fn("(*Server).isIPAllowed")
	if f1 == nil || f2 == nil {
		c.undecided(P, "siblings", "fns", "", "isIPAllowed functions not found")
	} else {
		feat1 := membershipFeatures(p, f1, f1.Params[0])
		for _, k := range featureNames {
			c.verdictIf(feat1[k], P, "siblings", "fn=isIPAllowed feature="+k, p.pos(f1.Pos()), "present", "request-level membership rule lacks: "+featureText[k])
		}
		// delegation?
		delegates := false
		for _, call := range calls(f2) {
			if staticCallee(call) == f1 {
				args := call.Common().Args
				_, fl, ok := fieldLoad(args[1])
				if args[0] == ssa.Value(f2.Params[1]) && ok && fl != nil && fl.Name() == "AllowedIPs" {
					delegates = true
				}
			}
		}
		if delegates {
			c.ok(P, "siblings", "fn=(*Server).isIPAllowed delegates", p.pos(f2.Pos()), "connection-level filter calls isIPAllowed(clientIP, policy.AllowedIPs)")
		} else {
			feat2 := membershipFeatures(p, f2, f2.Params[1])
			for _, k := range featureNames {
				c.verdictIf(feat2[k], P, "siblings", "fn=(*Server).isIPAllowed feature="+k, p.pos(f2.Pos()), "present", "connection-level membership rule lacks: "+featureText[k])
			}
		}
	}

	// accept
	al := p.Fn("(*Server).acceptLoop")
	if al == nil || f2 == nil {
		c.undecided(P, "accept", "fn=acceptLoop", "", "not found")
		return
	}
	reg := p.Fn("(*Server).registerConnection")
	okAccept := false
	why := "acceptLoop never consults isIPAllowed"
	for _, call := range calls(al) {
		if staticCallee(call) != f2 {
			continue
		}
		why = ""
		okAccept = true
		// every registerConnection call and every `go` must be behind the true edge
		safeIP := func(f condFact) bool { return f.V == call.Value() && f.Val }
		for _, c2 := range calls(al) {
			_, isGo := c2.(*ssa.Go)
			if staticCallee(c2) == reg || isGo {
				if !guardedBy(al, c2.Block(), safeIP) {
					okAccept = false
					why = "a connection can be registered/served although isIPAllowed returned false (" + p.instrPos(c2) + ")"
				}
			}
		}
	}
	c.verdictIf(okAccept, P, "accept", "fn=acceptLoop filter", p.pos(al.Pos()), "rejected addresses are never registered or served", why)
}

var featureNames = []string{"parse-client", "normalize-client", "cidr-branch", "cidr-contains", "cidr-invalid-skipped", "plain-parse", "plain-normalize-equal", "default-false"}
var featureText = map[string]string{
	"parse-client":          "net.ParseIP(client) == nil ⇒ false",
	"normalize-client":      "normalizeIP applied to the parsed client address",
	"cidr-branch":           "entries containing '/' are parsed with net.ParseCIDR on the raw entry",
	"cidr-contains":         "subnet.Contains(normalized client) ⇒ true",
	"cidr-invalid-skipped":  "an entry ParseCIDR rejects is skipped (no accept, no abort)",
	"plain-parse":           "other entries are parsed with net.ParseIP on the raw entry",
	"plain-normalize-equal": "normalizeIP(entry).Equal(normalized client) ⇒ true",
	"default-false":         "falls through to false",
}

func membershipFeatures(p *Prog, fn *ssa.Function, client ssa.Value) map[string]bool {
	res := map[string]bool{}
	fl := newFlow(p)
	var parsedClient, normClient ssa.Value
	norm := p.Fn("normalizeIP")
	fromRange := func(v ssa.Value) bool {
		// element of a ranged-over slice: origins include a field load AllowedIPs or a slice parameter
		for _, o := range fl.Origins(v) {
			if (o.Kind == "field" && o.Fld != nil && o.Fld.Name() == "AllowedIPs") || o.Kind == "param" {
				return true
			}
		}
		return false
	}
	isRaw := func(v ssa.Value) bool {
		// raw entry: not a concatenation
		if bo, ok := v.(*ssa.BinOp); ok && bo.Op.String() == "+" {
			return false
		}
		return fromRange(v)
	}
	returnsConstOn := func(b *ssa.BasicBlock, want bool) bool {
		seen := map[*ssa.BasicBlock]bool{}
		for cur := b; cur != nil && !seen[cur]; {
			seen[cur] = true
			for _, in := range cur.Instrs {
				if r, ok := in.(*ssa.Return); ok {
					k, isC := retVal(r, 0).(*ssa.Const)
					return isC && k.Value != nil && k.Value.String() == fmt.Sprint(want)
				}
			}
			if len(cur.Succs) == 1 {
				cur = cur.Succs[0]
			} else {
				return false
			}
		}
		return false
	}
	for _, call := range calls(fn) {
		callee := staticCallee(call)
		if callee == nil {
			continue
		}
		q := qualFn(callee)
		args := call.Common().Args
		switch {
		case q == "net.ParseIP" && args[0] == client:
			parsedClient = call.Value()
			// nil check ⇒ false
			for _, r := range *call.Value().Referrers() {
				if bo, ok := r.(*ssa.BinOp); ok && (isNilConst(bo.X) || isNilConst(bo.Y)) {
					for _, r2 := range *bo.Referrers() {
						if ifi, ok := r2.(*ssa.If); ok {
							nilSucc := ifi.Block().Succs[0]
							if bo.Op.String() == "!=" {
								nilSucc = ifi.Block().Succs[1]
							}
							if returnsConstOn(nilSucc, false) {
								res["parse-client"] = true
							}
						}
					}
				}
			}
		case callee == norm && parsedClient != nil && args[0] == parsedClient:
			normClient = call.Value()
			res["normalize-client"] = true
		}
	}
	for _, call := range calls(fn) {
		callee := staticCallee(call)
		if callee == nil {
			continue
		}
		q := qualFn(callee)
		args := call.Common().Args
		switch q {
		case "net.ParseCIDR":
			if isRaw(args[0]) {
				// on the Contains(entry,"/") true edge
				if guardedBy(fn, call.Block(), func(f condFact) bool {
					c2, ok := f.V.(*ssa.Call)
					if !ok || !f.Val {
						return false
					}
					cc := staticCallee(c2)
					s, _ := constStr(argN(c2, 1))
					return cc != nil && qualFn(cc) == "strings.Contains" && s == "/" && c2.Call.Args[0] == args[0]
				}) {
					res["cidr-branch"] = true
				}
				// invalid skipped: err != nil edge does not return
				if _, fail, ok := errSuccessEdge(call); ok {
					ret := false
					for _, in := range fail.Instrs {
						if _, ok := in.(*ssa.Return); ok {
							ret = true
						}
					}
					// the failure block (possibly after a debug log) must flow back to the loop, not return
					if !ret && !returnsConstOn(fail, true) && !returnsConstOn(fail, false) {
						res["cidr-invalid-skipped"] = true
					}
				}
			}
		case "(*net.IPNet).Contains":
			if normClient != nil && args[1] == normClient {
				for _, r := range *call.Value().Referrers() {
					if ifi, ok := r.(*ssa.If); ok && returnsConstOn(ifi.Block().Succs[0], true) {
						res["cidr-contains"] = true
					}
				}
			}
		case "net.ParseIP":
			if args[0] != client && isRaw(args[0]) {
				res["plain-parse"] = true
			}
		case "(net.IP).Equal":
			if normClient != nil && args[1] == normClient {
				// receiver is normalizeIP(ParseIP(entry))
				if nc, ok := args[0].(*ssa.Call); ok && staticCallee(nc) == norm {
					if guardsReturnTrue(call, returnsConstOn) {
						res["plain-normalize-equal"] = true
					}
				}
			}
		}
	}
	// default false: the last return reachable after the loop is false
	for _, b := range fn.Blocks {
		for _, in := range b.Instrs {
			if r, ok := in.(*ssa.Return); ok {
				if k, isC := retVal(r, 0).(*ssa.Const); isC && k.Value != nil && k.Value.String() == "false" {
					// block reached from loop exit (range done): predecessor chain includes the loop header
					if len(b.Preds) > 0 {
						res["default-false"] = true
					}
				}
			}
		}
	}
	return res
}

// guardsReturnTrue: the boolean call result (possibly in an && chain) leads on its true edge to `return true`.
func guardsReturnTrue(call ssa.CallInstruction, returnsConstOn func(*ssa.BasicBlock, bool) bool) bool {
	v := call.Value()
	if v == nil || v.Referrers() == nil {
		return false
	}
	for _, r := range *v.Referrers() {
		if ifi, ok := r.(*ssa.If); ok && returnsConstOn(ifi.Block().Succs[0], true) {
			return true
		}
	}
	return false
}
