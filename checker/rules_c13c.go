package main

// rules_c13c.go: C13/no-wrap (shared with C15).  A limit test protects an
// allocation or a slice only if the tested quantity cannot wrap: arithmetic
// that can grow a wire-decoded value (+, *, <<) in a type of 32 bits or fewer
// must come after an accepting comparison of the raw value.  Otherwise a
// length like 0xFFFFFFFD makes (length+3)&^3 wrap to 0, the test passes and
// the later make/slice uses the unbounded raw value.

import (
	"fmt"
	"go/token"
	"go/types"

	"golang.org/x/tools/go/ssa"
)

func narrowInt(t types.Type) bool {
	b, ok := t.Underlying().(*types.Basic)
	if !ok {
		return false
	}
	switch b.Kind() {
	case types.Uint32, types.Int32, types.Uint16, types.Int16, types.Uint8, types.Int8:
		return true
	}
	return false
}

// noWrapScope, when set, restricts runNoWrapAs to the functions it accepts (a borrowing property's own decoders).
var noWrapScope func(*ssa.Function) bool

func runNoWrapAs(c *Ctx, P string) {
	p := c.P
	c.rule(P, "no-wrap", "growing arithmetic (+, *, <<) on a wire-decoded value in a type of <= 32 bits is dominated by an accepting bound test of the raw value", 1)
	fl := newFlow(p)
	n := 0
	per := map[string]int{}
	for _, fn := range p.SrcFuncs {
		if fn.Pkg != p.Pkg {
			continue
		}
		if noWrapScope != nil && !noWrapScope(fn) {
			continue
		}
		for _, b := range fn.Blocks {
			for _, in := range b.Instrs {
				bo, ok := in.(*ssa.BinOp)
				if !ok || (bo.Op != token.ADD && bo.Op != token.MUL && bo.Op != token.SHL) || !narrowInt(bo.Type()) {
					continue
				}
				for _, opnd := range []ssa.Value{bo.X, bo.Y} {
					if _, isC := opnd.(*ssa.Const); isC {
						continue
					}
					wire := wireCalls(fl, opnd)
					if len(wire) == 0 {
						continue
					}
					n++
					per[fnKey(fn)]++
					key := fmt.Sprintf("arith=%s:%s#%d", fnKey(fn), bo.Op.String(), per[fnKey(fn)])
					bounded := false
					for _, f := range p.facts(b) {
						if _, _, _, ok := boundOf(p, fl, f, wire); ok {
							bounded = true
						}
					}
					// x % k, x & k are bounded by construction
					if inner, ok := unwrap(opnd).(*ssa.BinOp); ok && (inner.Op == token.REM || inner.Op == token.AND || inner.Op == token.SHR) {
						if _, isC := inner.Y.(*ssa.Const); isC {
							bounded = true
						}
					}
					c.verdictIf(bounded, P, "no-wrap", key, p.instrPos(in), "the wire value is bounded before it is enlarged",
						"a wire-decoded value is enlarged ("+bo.Op.String()+") in a "+bo.Type().String()+" before any upper-bound test of the raw value: values near the type's maximum wrap around, pass the later limit test and reach an allocation or slice with the unbounded raw length (panic or oversized allocation)")
					break
				}
			}
		}
	}
	if n == 0 {
		c.ok(P, "no-wrap", "arith=none", "", "no growing arithmetic on wire values in narrow integer types")
	}
}
