package main

// rules_c26b.go: C26/entry-size.  The stop test of a listing loop adds an
// estimate of "next entry + list trailer" to the bytes already encoded.  The
// rule compares that estimate with what the loop really appends per entry:
// the per-entry token sequence is read from the reply trace (T-TRACE), each
// token has a fixed XDR size, the name contributes 4 + pad4(len).  The
// estimate must be a linear expression  Len + K + pad4(len(name))  with
// K >= (fixed bytes per entry) + (bytes appended after the loop) - 4, the 4
// being the status word that count/maxcount do not include (RFC 1813 3.3.16).

import (
	"fmt"
	"go/token"
	"strings"

	"golang.org/x/tools/go/ssa"
)

var tokFixedSize = map[string]int64{"U32": 4, "U64": 8, "FATTR3": 84, "WCCATTR": 24, "V8": 8, "FH3": 12}

type linExpr struct {
	K        int64
	Len      bool // includes reply buffer Len()
	OtherLen bool // includes Len() of another buffer (measured encoding)
	PadName  int  // number of pad4(len(x)) terms
	RawName  int  // number of unpadded len(x) terms
	OK       bool
	Why      string
}

func evalLin(p *Prog, v ssa.Value, replyBuf *ssa.Alloc, d int) linExpr {
	if d > 10 {
		return linExpr{Why: "expression too deep"}
	}
	switch x := v.(type) {
	case *ssa.Const:
		if k, ok := constInt(x); ok {
			return linExpr{K: k, OK: true}
		}
	case *ssa.Convert:
		return evalLin(p, x.X, replyBuf, d+1)
	case *ssa.ChangeType:
		return evalLin(p, x.X, replyBuf, d+1)
	case *ssa.BinOp:
		switch x.Op {
		case token.ADD, token.SUB:
			a, b := evalLin(p, x.X, replyBuf, d+1), evalLin(p, x.Y, replyBuf, d+1)
			if !a.OK {
				return a
			}
			if !b.OK {
				return b
			}
			if x.Op == token.SUB {
				if b.Len || b.OtherLen || b.PadName > 0 || b.RawName > 0 {
					return linExpr{Why: "subtraction of a non-constant"}
				}
				a.K -= b.K
				return a
			}
			return linExpr{K: a.K + b.K, Len: a.Len || b.Len, OtherLen: a.OtherLen || b.OtherLen, PadName: a.PadName + b.PadName, RawName: a.RawName + b.RawName, OK: true}
		case token.AND_NOT:
			// (len(name)+3) &^ 3
			if k, ok := constInt(x.Y); ok && k == 3 {
				in := evalLin(p, x.X, replyBuf, d+1)
				if in.OK && in.RawName == 1 && in.K == 3 && !in.Len && in.PadName == 0 {
					return linExpr{PadName: 1, OK: true}
				}
			}
		}
	case *ssa.Call:
		if bi, ok := x.Call.Value.(*ssa.Builtin); ok && bi.Name() == "len" {
			return linExpr{RawName: 1, OK: true}
		}
		callee := x.Call.StaticCallee()
		if callee == nil {
			return linExpr{Why: "dynamic call in the size estimate"}
		}
		if qualFn(callee) == "(*bytes.Buffer).Len" {
			if replyBuf == nil || len(x.Call.Args) > 0 && unwrap(x.Call.Args[0]) == ssa.Value(replyBuf) {
				return linExpr{Len: true, OK: true}
			}
			return linExpr{OtherLen: true, OK: true}
		}
		if callee.Pkg == p.Pkg && len(callee.Blocks) > 0 {
			// a size helper: single return expression over its parameters
			var res *linExpr
			for _, b := range callee.Blocks {
				r, ok := b.Instrs[len(b.Instrs)-1].(*ssa.Return)
				if !ok || len(r.Results) != 1 {
					continue
				}
				e := evalLin(p, retVal(r, 0), nil, d+1)
				if !e.OK {
					return e
				}
				if res != nil && (res.K != e.K || res.PadName != e.PadName || res.RawName != e.RawName) {
					// several returns: keep the smallest estimate (worst case for the check)
					if e.K < res.K {
						res = &e
					}
					continue
				}
				res = &e
			}
			if res != nil {
				return *res
			}
		}
	case *ssa.Phi:
		// a variable assigned on several paths: take the smallest constant part
		var res *linExpr
		for _, e := range x.Edges {
			ev := evalLin(p, e, replyBuf, d+1)
			if !ev.OK {
				return ev
			}
			if res == nil || ev.K < res.K {
				cp := ev
				res = &cp
			}
		}
		if res != nil {
			return *res
		}
	case *ssa.UnOp:
		if x.Op == token.MUL {
			if sv := singleStore(x.X); sv != nil {
				return evalLin(p, sv, replyBuf, d+1)
			}
		}
	}
	return linExpr{Why: fmt.Sprintf("unrecognised term %T in the size estimate", v)}
}

// budgetInfo describes a stop test of the form `entrySize > budget`, where budget starts as limit - K0 and is
// decreased by the entry size after every entry.
type budgetInfo struct {
	phi   *ssa.Phi
	entry ssa.Value // the tested entry size
	init  ssa.Value // the initial budget expression
	k0    int64     // constant subtracted from the limit in the initial budget
	okDec bool      // the decrement subtracts the same size that is tested
}

func budgetForm(p *Prog, bo *ssa.BinOp) *budgetInfo {
	phi, ok := unwrap(bo.Y).(*ssa.Phi)
	if !ok || !inCycle(phi.Block()) {
		return nil
	}
	est := evalLin(p, bo.X, nil, 0)
	if !est.OK || (est.PadName+est.RawName == 0 && !est.OtherLen) {
		return nil
	}
	bi := &budgetInfo{phi: phi, entry: bo.X}
	seen := map[ssa.Value]bool{}
	var visit func(e ssa.Value, depth int)
	visit = func(e ssa.Value, depth int) {
		e = unwrap(e)
		if e == ssa.Value(phi) || seen[e] {
			return // unchanged on this path (an iteration that skipped the entry)
		}
		seen[e] = true
		if sub, ok := e.(*ssa.BinOp); ok && sub.Op == token.SUB {
			if x := unwrap(sub.X); x == ssa.Value(phi) || seen[x] {
				d := evalLin(p, sub.Y, nil, 0)
				bi.okDec = d.OK && d.K == est.K && d.PadName == est.PadName && d.RawName == est.RawName && d.OtherLen == est.OtherLen
				return
			}
		}
		if ph, ok := e.(*ssa.Phi); ok && depth < 3 && inCycle(ph.Block()) {
			for _, e2 := range ph.Edges {
				visit(e2, depth+1)
			}
			return
		}
		bi.init = e
	}
	for _, e := range phi.Edges {
		visit(e, 0)
	}
	if bi.init == nil {
		return nil
	}
	// init = <limit> - K0
	if sub, ok := unwrap(bi.init).(*ssa.BinOp); ok && sub.Op == token.SUB {
		if k, isC := constInt(sub.Y); isC {
			bi.k0 = k
			bi.init = sub.X
			return bi
		}
	}
	return nil
}

func runC26EntrySizeB(c *Ctx, h *ssa.Function, name string, stopIf *ssa.If, bud *budgetInfo) {
	c26Budget = bud
	runC26EntrySize(c, h, name, stopIf)
	c26Budget = nil
}

var c26Budget *budgetInfo

func runC26EntrySize(c *Ctx, h *ssa.Function, name string, stopIf *ssa.If) {
	p := c.P
	const P = "C26"
	key := "proc=" + name
	bo, ok := stopIf.Cond.(*ssa.BinOp)
	if !ok {
		return
	}
	// the reply buffer: the one with write events inside the loop
	var bt *bufTrace
	for _, t := range p.traceBuffers(h) {
		for _, path := range t.Paths {
			for _, tk := range path {
				if tk.Instr != nil && tk.Kind != "END" && inCycle(tk.Instr.Block()) {
					bt = t
				}
			}
		}
	}
	if bt == nil {
		c.undecided(P, "entry-size", key, p.instrPos(stopIf), "no reply buffer written inside the entry loop")
		return
	}
	if len(bt.Unknown) > 0 || bt.Trunc {
		c.undecided(P, "entry-size", key, p.instrPos(stopIf), "the reply trace of the listing handler is incomplete")
		return
	}
	// per-entry bytes: each distinct in-loop event once, maximised over paths; trailer: events after the loop on OK paths
	maxEntry, maxTail, maxHead := int64(-1), int64(-1), int64(-1)
	nameToks := 0
	for _, path := range bt.Paths {
		if len(path) < 2 || path[0].Kind != "U32" || path[0].Const == nil || *path[0].Const != 0 {
			continue
		}
		counted := map[ssa.Instruction]bool{}
		var entry, tail, head int64
		names := 0
		inLoopSeen := false
		unknown := false
		skip := false
		for i, tk := range path {
			if tk.Kind == "END" || tk.Instr == nil {
				continue
			}
			loop := inCycle(tk.Instr.Block())
			if i == 0 || path[i-1].Instr != tk.Instr {
				// a new event; a later iteration repeats the same instructions: count the first only
				skip = loop && counted[tk.Instr]
				counted[tk.Instr] = true
			}
			if loop {
				inLoopSeen = true
				if skip {
					continue
				}
				if tk.Kind == "STR" {
					names++
					entry += 4
					continue
				}
				sz, known := tokFixedSize[tk.Kind]
				if !known {
					unknown = true
					continue
				}
				entry += sz
			} else if inLoopSeen {
				sz, known := tokFixedSize[tk.Kind]
				if !known {
					unknown = true
					continue
				}
				tail += sz
			} else if i > 0 {
				// bytes between the status word and the first entry
				if sz, known := tokFixedSize[tk.Kind]; known {
					head += sz
				} else {
					unknown = true
				}
			}
		}
		if unknown || !inLoopSeen {
			continue
		}
		if entry > maxEntry {
			maxEntry, nameToks = entry, names
		}
		if tail > maxTail {
			maxTail = tail
		}
		if head > maxHead {
			maxHead = head
		}
	}
	if maxEntry < 0 || maxTail < 0 {
		c.undecided(P, "entry-size", key, p.instrPos(stopIf), "no NFS3_OK reply path with at least one entry in the trace")
		return
	}
	if bud := c26Budget; bud != nil {
		// budget form: sum of tested sizes <= limit - K0; the reply holds head + entries + tail bytes after
		// the status word
		est := evalLin(p, bud.entry, nil, 0)
		var why []string
		if !bud.okDec {
			why = append(why, "the budget is not decreased by the size that was tested")
		}
		if !est.OtherLen {
			if est.PadName < nameToks {
				why = append(why, fmt.Sprintf("the name is counted without its padding to 4 bytes (%d padded term(s) for %d name(s))", est.PadName, nameToks))
			}
			if est.K < maxEntry {
				why = append(why, fmt.Sprintf("an entry is counted as %d fixed bytes but takes %d (besides the padded name)", est.K, maxEntry))
			}
		}
		if need := maxHead + maxTail; bud.k0 < need {
			why = append(why, fmt.Sprintf("the budget sets aside %d bytes for the fixed part of the reply, which takes %d bytes before the first entry and %d after the last (status word excluded): %d needed", bud.k0, maxHead, maxTail, need))
		}
		if len(why) == 0 {
			c.ok(P, "entry-size", key, p.instrPos(stopIf), fmt.Sprintf("budget limit - %d covers head %d + trailer %d; entries counted as %d + pad4(name) >= %d", bud.k0, maxHead, maxTail, est.K, maxEntry))
		} else {
			c.bad(P, "entry-size", key, p.instrPos(stopIf), name+" admits an entry whose encoding does not fit: "+strings.Join(why, "; ")+" — the reply can exceed the client's limit by the difference")
		}
		return
	}
	est := evalLin(p, bo.X, bt.Buf, 0)
	if !est.OK {
		c.undecided(P, "entry-size", key, p.instrPos(stopIf), "the stop test's size estimate is not a linear expression the rule can read: "+est.Why)
		return
	}
	if est.OtherLen {
		c.ok(P, "entry-size", key, p.instrPos(stopIf), "the entry is measured by encoding it (Len of a scratch buffer)")
		return
	}
	need := maxEntry + maxTail - 4
	var why []string
	if !est.Len {
		why = append(why, "the bytes already encoded (buf.Len()) are not part of the test")
	}
	if est.PadName < nameToks {
		why = append(why, fmt.Sprintf("the name is counted without its padding to 4 bytes (%d padded term(s) for %d name(s))", est.PadName, nameToks))
	}
	if est.K < need {
		why = append(why, fmt.Sprintf("the estimate adds %d fixed bytes, but an entry takes %d fixed bytes (besides the padded name) and %d more follow the list, minus the 4-byte status word: %d needed", est.K, maxEntry, maxTail, need))
	}
	if len(why) == 0 {
		c.ok(P, "entry-size", key, p.instrPos(stopIf), fmt.Sprintf("estimate Len + %d + pad4(name) covers entry %d + trailer %d - status 4", est.K, maxEntry, maxTail))
	} else {
		c.bad(P, "entry-size", key, p.instrPos(stopIf), name+" admits an entry whose encoding does not fit: "+strings.Join(why, "; ")+" — the reply can exceed the client's limit by the difference")
	}
}
