package main

import "golang.org/x/tools/go/ssa"

// bytesOnlyWritten: every use of buf.Bytes() is as an argument of a call (the
// bytes are handed to a writer) — none is stored into a reply or returned.
func bytesOnlyWritten(buf *ssa.Alloc) bool {
	if buf == nil || buf.Referrers() == nil {
		return false
	}
	n := 0
	for _, r := range *buf.Referrers() {
		call, ok := r.(*ssa.Call)
		if !ok {
			continue
		}
		callee := call.Call.StaticCallee()
		if callee == nil || qualFn(callee) != "(*bytes.Buffer).Bytes" || len(call.Call.Args) == 0 || call.Call.Args[0] != ssa.Value(buf) {
			continue
		}
		if call.Referrers() == nil {
			continue
		}
		for _, u := range *call.Referrers() {
			ci, isCall := u.(ssa.CallInstruction)
			if !isCall {
				return false
			}
			isArg := false
			for _, a := range ci.Common().Args {
				if a == ssa.Value(call) {
					isArg = true
				}
			}
			if !isArg {
				return false
			}
			n++
		}
	}
	return n > 0
}
