package main

// rules_round8.go: rules added after the eighth round of seeded changes (purely additive changes: a new fast
// path, a new arm, a new helper and its call — nothing existing modified).

import (
	"fmt"
	"go/constant"
	"go/token"
	"strings"

	"golang.org/x/tools/go/ssa"
)

// ---------------------------------------------------------------------------
// C04/chmod-keeps-type: some backends store the whole mode word a Chmod hands them.  On the SETATTR path every
// backend Chmod therefore carries the object's type bits: its mode argument is an OR one of whose operands is
// `x & os.ModeType`.

func runC04ChmodKeepsType(c *Ctx, P string) {
	p := c.P
	c.rule(P, "chmod-keeps-type", "every backend Chmod reachable from handleSetattr passes a mode that ORs in `current & os.ModeType`", 1)
	ent, err := p.entrySet()
	if err != nil || ent.Handlers[2] == nil {
		c.undecided(P, "chmod-keeps-type", "proc=SETATTR", "", "handler not found")
		return
	}
	reach := p.reachableFrom([]*ssa.Function{ent.Handlers[2]})
	modeType := int64(0)
	for _, pk := range p.SSA.AllPackages() {
		if pk.Pkg != nil && pk.Pkg.Path() == "io/fs" {
			if k := pk.Const("ModeType"); k != nil && k.Value != nil && k.Value.Value != nil {
				if v, ok := constant.Uint64Val(constant.ToInt(k.Value.Value)); ok {
					modeType = int64(v)
				}
			}
		}
	}
	var hasTypeTerm func(v ssa.Value, d int) bool
	hasTypeTerm = func(v ssa.Value, d int) bool {
		if d > 6 {
			return false
		}
		switch x := unwrap(v).(type) {
		case *ssa.BinOp:
			if x.Op == token.OR {
				return hasTypeTerm(x.X, d+1) || hasTypeTerm(x.Y, d+1)
			}
			if x.Op == token.AND {
				for _, o := range []ssa.Value{x.X, x.Y} {
					if k, ok := o.(*ssa.Const); ok && k.Value != nil {
						if u, ok2 := constant.Uint64Val(constant.ToInt(k.Value)); ok2 && modeType != 0 && int64(u) == modeType {
							return true
						}
					}
				}
			}
		case *ssa.Phi:
			for _, e := range x.Edges {
				if !hasTypeTerm(e, d+1) {
					return false
				}
			}
			return len(x.Edges) > 0
		}
		return false
	}
	n := 0
	for _, fn := range p.SrcFuncs {
		if !reach[fn] {
			continue
		}
		for _, call := range calls(fn) {
			bc := asBackendCall(call)
			if bc == nil || bc.OnFile || bc.Method != "Chmod" || len(call.Common().Args) < 2 {
				continue
			}
			n++
			key := fmt.Sprintf("sink=%s:Chmod#%d", fnKey(fn), n)
			c.verdictIf(hasTypeTerm(call.Common().Args[1], 0), P, "chmod-keeps-type", key, p.instrPos(call), "type bits carried",
				"SETATTR hands the backend a mode without the object's type bits: a backend that stores the whole word (memfs) then records a directory or a symbolic link as a regular file, and GETATTR, LOOKUP and the backend's lstat report another type than before")
		}
	}
	if n == 0 {
		c.ok(P, "chmod-keeps-type", "sink=none", "", "no backend Chmod on the SETATTR path")
	}
}

// ---------------------------------------------------------------------------
// C11/chown-if-changed: the ids a SETATTR record carries are, unless root set them, the ones remembered in the
// handle's node — which LOOKUP fills with zeros.  SetAttr may therefore call the backend's Chown/Lchown only
// behind a comparison of the record's ids with the current ones; an unconditional call writes the remembered
// (zero) ids back and hands the object to uid 0.

func runC11ChownIfChanged(c *Ctx, P string) {
	p := c.P
	c.rule(P, "chown-if-changed", "every backend Chown/Lchown in SetAttr is dominated by a test that compares requested and current uid/gid", 1)
	sa := p.Fn("(*AbsfsNFS).SetAttr")
	if sa == nil || sa.Blocks == nil {
		c.undecided(P, "chown-if-changed", "fn=SetAttr", "", "not found")
		return
	}
	isIDLoad := func(v ssa.Value) bool {
		os := newFlow(p).Origins(v)
		for _, o := range os {
			if o.Kind == "field" && o.Fld != nil && (o.Fld.Name() == "Uid" || o.Fld.Name() == "Gid") {
				return true
			}
		}
		return false
	}
	n := 0
	fns := append([]*ssa.Function{sa}, sa.AnonFuncs...)
	for _, fn := range fns {
		for _, call := range calls(fn) {
			bc := asBackendCall(call)
			if bc == nil || bc.OnFile || (bc.Method != "Chown" && bc.Method != "Lchown") {
				continue
			}
			n++
			key := fmt.Sprintf("sink=SetAttr:%s#%d", bc.Method, n)
			good := false
			for d := call.Block(); d != nil; d = d.Idom() {
				ifi := blockIf(d)
				if ifi == nil || d == call.Block() {
					continue
				}
				cond, _ := stripNot(ifi.Cond)
				if bo, ok := cond.(*ssa.BinOp); ok && (bo.Op == token.NEQ || bo.Op == token.EQL) && isIDLoad(bo.X) && isIDLoad(bo.Y) {
					good = true
				}
			}
			c.verdictIf(good, P, "chown-if-changed", key, p.instrPos(call), "only when the ids differ from the current ones",
				"SetAttr calls the backend's "+bc.Method+" without having compared the record's ids with the current ones: the ids remembered in the handle's node (zero after LOOKUP) are written back, so a non-root caller's SETATTR makes the backend record uid 0 / gid 0 as owner")
		}
	}
	if n == 0 {
		c.ok(P, "chown-if-changed", "sink=none", "", "SetAttr never chowns")
	}
}

// ---------------------------------------------------------------------------
// C10/authsys-writer: ValidateAuthentication decodes the credential body only when the context carries no
// decoded credential yet.  The only writer of AuthContext.AuthSys is therefore ValidateAuthentication itself,
// from the result of ParseAuthSysCredential; a credential put there by anyone else (a per-connection cache)
// bypasses the decoding of the body the call actually carries.

func runC10AuthSysWriter(c *Ctx, P string) {
	p := c.P
	c.rule(P, "authsys-writer", "AuthContext.AuthSys is stored only by ValidateAuthentication, from ParseAuthSysCredential's result", 1)
	n := 0
	for _, fn := range p.SrcFuncs {
		for _, b := range fn.Blocks {
			for _, in := range b.Instrs {
				st, ok := in.(*ssa.Store)
				if !ok {
					continue
				}
				base, f, isFA := fieldAddrOf(st.Addr)
				if !isFA || f == nil || f.Name() != "AuthSys" || recvTypeName(base.Type()) != "AuthContext" {
					continue
				}
				if isNilConst(st.Val) {
					continue
				}
				n++
				key := fmt.Sprintf("store=%s:AuthContext.AuthSys#%d", fnKey(fn), n)
				why := ""
				if rootFn(fn).Name() != "ValidateAuthentication" {
					why = "stored in " + fnKey(fn)
				} else {
					for _, o := range newFlow(p).Origins(st.Val) {
						if o.Kind == "call" && o.Call != nil {
							if g := staticCallee(o.Call); g != nil && (g.Name() == "ParseAuthSysCredential" || g.Name() == "applySquashing") {
								continue
							}
						}
						why = "value " + o.Desc
					}
				}
				c.verdictIf(why == "", P, "authsys-writer", key, p.instrPos(in), "decoded from this call's body",
					"AuthContext.AuthSys gets a credential that was not decoded from this call's body by ValidateAuthentication ("+why+"): ValidateAuthentication then skips the decoding, so an undecodable AUTH_SYS body is accepted under the ids of an earlier call")
			}
		}
	}
	if n == 0 {
		c.undecided(P, "authsys-writer", "field=AuthContext.AuthSys", "", "no store found")
	}
}

// ---------------------------------------------------------------------------
// C09/member-by-net: both allow-list filters answer "allowed" only on the true edge of (*net.IPNet).Contains or
// (net.IP).Equal (or when no list is configured).  A hand-written prefix match next to them decides membership
// by its own parsing of the entry, and malformed entries (which net.ParseCIDR refuses) start to match.

func runC09MemberByNet(c *Ctx, P string) {
	p := c.P
	c.rule(P, "member-by-net", "isIPAllowed (both implementations) returns true only on the true edge of IPNet.Contains / IP.Equal, or with an empty list", 2)
	for _, name := range []string{"isIPAllowed", "(*Server).isIPAllowed"} {
		fn := p.Fn(name)
		if fn == nil || fn.Blocks == nil {
			c.undecided(P, "member-by-net", "fn="+name, "", "not found")
			continue
		}
		okFact := func(f condFact) bool {
			if call, isCall := f.V.(*ssa.Call); isCall && f.Val {
				if g := staticCallee(call); g != nil {
					q := qualFn(g)
					if q == "(*net.IPNet).Contains" || q == "(net.IP).Equal" {
						return true
					}
					// delegation to the sibling implementation
					if g.Name() == "isIPAllowed" {
						return true
					}
				}
			}
			// no list configured: len(list) == 0
			op, l, r, okc := normCmp(f)
			if okc && op == "==" {
				// no handler attached yet: nothing to filter by
				for _, pair := range [][2]ssa.Value{{l, r}, {r, l}} {
					if isNilConst(pair[1]) {
						if _, f, isLoad := fieldLoad(unwrap(pair[0])); isLoad && f != nil && f.Name() == "handler" {
							return true
						}
					}
				}
				for _, pair := range [][2]ssa.Value{{l, r}, {r, l}} {
					if k, isC := constInt(pair[1]); isC && k == 0 {
						if lc, isCall := unwrap(pair[0]).(*ssa.Call); isCall {
							if bi, isB := lc.Call.Value.(*ssa.Builtin); isB && bi.Name() == "len" {
								return true
							}
						}
					}
				}
			}
			return false
		}
		anyOK := func(fs []condFact) bool {
			for _, f := range fs {
				if okFact(f) {
					return true
				}
			}
			return false
		}
		why := ""
		for _, b := range fn.Blocks {
			if len(b.Instrs) == 0 || b == fn.Recover {
				continue
			}
			r, isRet := b.Instrs[len(b.Instrs)-1].(*ssa.Return)
			if !isRet || len(r.Results) == 0 {
				continue
			}
			v := retVal(r, 0)
			check := func(val ssa.Value, facts []condFact, pos string) {
				k, isC := val.(*ssa.Const)
				if isC && k.Value != nil && k.Value.Kind() == constant.Bool && !constant.BoolVal(k.Value) {
					return // returns false
				}
				if call, isCall := val.(*ssa.Call); isCall {
					if g := staticCallee(call); g != nil {
						q := qualFn(g)
						if q == "(*net.IPNet).Contains" || q == "(net.IP).Equal" || g.Name() == "isIPAllowed" {
							return
						}
					}
				}
				if !anyOK(facts) {
					why = "the return at " + pos + " can answer true without a Contains/Equal of the net package having said so"
				}
			}
			if phi, isPhi := v.(*ssa.Phi); isPhi && phi.Block() == b {
				for i, e := range phi.Edges {
					if i >= len(b.Preds) {
						continue
					}
					facts := append(append([]condFact{}, p.facts(b.Preds[i])...), edgeFacts(b.Preds[i], b)...)
					check(e, facts, p.instrPos(r))
				}
			} else {
				check(v, p.facts(b), p.instrPos(r))
			}
		}
		c.verdictIf(why == "", P, "member-by-net", "fn="+name, p.pos(fn.Pos()), "membership decided by net.IPNet.Contains / net.IP.Equal",
			strings.TrimSpace("the allow-list filter decides membership by something else than the net package ("+why+"): entries net.ParseCIDR refuses (`10.0.0.0/`) can match every address, so the export fails open"))
	}
}

// ---------------------------------------------------------------------------
// C21/put-stores: AttrCache.Put always stores what it was given: no return of Put that has not performed the map
// store depends on the contents of the entry already cached (a "nothing changed" fast path that compares some of
// the fields drops updates of the others).

func runC21PutStores(c *Ctx, P string) {
	p := c.P
	c.rule(P, "put-stores", "no return of AttrCache.Put / DirCache.Put that skips the map store is decided by the cached entry's contents", 2)
	for _, spec := range []struct{ owner, field string }{{"AttrCache", "cache"}, {"DirCache", "entries"}} {
		fn := p.Fn("(*" + spec.owner + ").Put")
		key := "fn=(*" + spec.owner + ").Put"
		if fn == nil || fn.Blocks == nil {
			c.undecided(P, "put-stores", key, "", "not found")
			continue
		}
		var stores []*ssa.BasicBlock
		for _, b := range fn.Blocks {
			for _, in := range b.Instrs {
				if mu, ok := in.(*ssa.MapUpdate); ok {
					if _, ok := isLoadOfField(mu.Map, spec.owner, spec.field); ok {
						stores = append(stores, b)
					}
				}
			}
		}
		if len(stores) == 0 {
			c.bad(P, "put-stores", key, p.pos(fn.Pos()), "Put never stores into the cache map")
			continue
		}
		// does v derive from a lookup of the cache map?
		var fromEntry func(v ssa.Value, d int) bool
		fromEntry = func(v ssa.Value, d int) bool {
			if d > 8 {
				return false
			}
			switch x := unwrap(v).(type) {
			case *ssa.Lookup:
				_, ok := isLoadOfField(x.X, spec.owner, spec.field)
				return ok
			case *ssa.Extract:
				return fromEntry(x.Tuple, d+1)
			case *ssa.UnOp:
				return fromEntry(x.X, d+1)
			case *ssa.FieldAddr:
				return fromEntry(x.X, d+1)
			case *ssa.Field:
				return fromEntry(x.X, d+1)
			case *ssa.BinOp:
				return fromEntry(x.X, d+1) || fromEntry(x.Y, d+1)
			case *ssa.Call:
				for _, a := range x.Call.Args {
					if fromEntry(a, d+1) {
						return true
					}
				}
			case *ssa.Phi:
				for _, e := range x.Edges {
					if fromEntry(e, d+1) {
						return true
					}
				}
			}
			return false
		}
		why := ""
		for _, b := range fn.Blocks {
			if len(b.Instrs) == 0 || b == fn.Recover {
				continue
			}
			if _, isRet := b.Instrs[len(b.Instrs)-1].(*ssa.Return); !isRet {
				continue
			}
			dominated := false
			for _, sb := range stores {
				if sb == b || sb.Dominates(b) {
					dominated = true
				}
			}
			if dominated {
				continue
			}
			for _, ifi := range controlEdges(b) {
				cond, _ := stripNot(ifi.Cond)
				// the bare existence flag of the lookup is not "contents"
				if ex, isEx := cond.(*ssa.Extract); isEx && ex.Index == 1 {
					continue
				}
				if nilTestOperand(cond) != nil {
					continue
				}
				if fromEntry(cond, 0) {
					why = "the return at " + p.instrPos(b.Instrs[len(b.Instrs)-1]) + " skips the store when the test at " + p.instrPos(ifi) + " on the cached entry says so"
				}
			}
		}
		c.verdictIf(why == "", P, "put-stores", key, p.pos(fn.Pos()), "every value given to Put is stored",
			"Put does not always store the value it is given ("+why+"): a later Get returns the older value although a newer one was stored for the key (fields the comparison does not look at — owner, atime — stay stale, with a renewed TTL)")
	}
}
