package main

// rules_round4.go: rules added in round 4 (seeds C17-c, C09-c, C21-c and the refactor controls).

import (
	"fmt"
	"go/constant"
	"go/token"
	"go/types"
	"strings"

	"golang.org/x/tools/go/ssa"
)

// ---------------------------------------------------------------------------
// C17/idle-exempt: per-connection state that exempts a connection from the idle sweep must be cleared again
// on every path of the connection loop before the loop comes back to the instruction that set it.
//
// Necessary for "connections idle longer than IdleTimeout are closed": a flag that stays set after a path of
// the loop (a refused call, a decode error that continues) keeps an idle connection out of the sweep for good.

func runC17IdleExempt(c *Ctx, ci *ssa.Function) {
	const P = "C17"
	p := c.P
	c.rule(P, "idle-exempt", "state other than lastActivity that keeps a connection out of the idle sweep is cleared again on every path of the connection loop before its setter is reached again", 1)
	cs := p.namedType("connectionState")
	if cs == nil {
		c.undecided(P, "idle-exempt", "type=connectionState", "", "type not found")
		return
	}
	isStateField := func(f *types.Var) bool {
		st, ok := cs.Underlying().(*types.Struct)
		if !ok {
			return false
		}
		for i := 0; i < st.NumFields(); i++ {
			if st.Field(i) == f {
				return true
			}
		}
		return false
	}
	// exemption fields: connectionState fields (other than lastActivity) feeding a branch inside the sweep's loop
	exempt := map[*types.Var]ssa.Instruction{}
	fl := newFlow(p)
	for _, b := range ci.Blocks {
		ifi := blockIf(b)
		if ifi == nil || !inCycle(b) {
			continue
		}
		for _, o := range fl.Origins(ifi.Cond) {
			if o.Kind == "field" && o.Fld != nil && isStateField(o.Fld) && o.Fld.Name() != "lastActivity" {
				if _, seen := exempt[o.Fld]; !seen {
					exempt[o.Fld] = ifi
				}
			}
		}
	}
	if len(exempt) == 0 {
		c.ok(P, "idle-exempt", "fn=cleanupIdleConnections no-exemption", p.pos(ci.Pos()), "the sweep's loop branches on no per-connection state besides lastActivity")
		return
	}
	for fld, at := range exempt {
		type store struct {
			fn  *ssa.Function
			in  *ssa.Store
			set bool
		}
		var stores []store
		for _, fn := range p.SrcFuncs {
			for _, b := range fn.Blocks {
				for _, in := range b.Instrs {
					st, ok := in.(*ssa.Store)
					if !ok {
						continue
					}
					_, f, ok := fieldAddrOf(st.Addr)
					if !ok || f != fld {
						continue
					}
					stores = append(stores, store{fn, st, !isClearingValue(st.Val)})
				}
			}
		}
		clearers := map[*ssa.Function]bool{}
		for _, s := range stores {
			if !s.set {
				clearers[s.fn] = true
			}
		}
		isClear := func(in ssa.Instruction) bool {
			if st, ok := in.(*ssa.Store); ok {
				if _, f, ok := fieldAddrOf(st.Addr); ok && f == fld && isClearingValue(st.Val) {
					return true
				}
			}
			if call, ok := in.(ssa.CallInstruction); ok {
				if _, isDefer := in.(*ssa.Defer); isDefer {
					return false
				}
				for _, callee := range p.calleesAt(in.Parent(), call) {
					if clearers[callee] {
						return true
					}
				}
			}
			return false
		}
		nset := 0
		for _, s := range stores {
			if !s.set {
				continue
			}
			nset++
			// the event is the store itself, or the call of the function containing it (one level up)
			type ev struct {
				fn *ssa.Function
				in ssa.Instruction
			}
			var evs []ev
			if len(p.callers[s.fn]) == 0 || inCycle(s.in.Block()) {
				evs = append(evs, ev{s.fn, s.in})
			}
			for _, csite := range p.callers[s.fn] {
				evs = append(evs, ev{csite.Caller, csite.Instr})
			}
			for _, e := range evs {
				if strings.Contains(fnKey(e.fn), "registerConnection") || e.fn.Name() == "init" {
					continue
				}
				from := e.in
				out := follow(followSpec{Fn: e.fn, From: from, Closes: isClear,
					Bad:    func(in ssa.Instruction) bool { return in == from },
					ExitOK: func(*ssa.Return) bool { return true }})
				key := fmt.Sprintf("field=connectionState.%s set=%s", fld.Name(), fnKey(e.fn)+":"+shortInstr(from))
				if out.OK {
					c.ok(P, "idle-exempt", key, p.instrPos(from), "cleared on every path before the setter is reached again")
				} else {
					c.bad(P, "idle-exempt", key, p.instrPos(from), fmt.Sprintf("connectionState.%s keeps a connection out of the idle sweep (%s) and is set here, but a path of %s comes back to this point without clearing it (%s): after such a path the connection is never reaped however long it stays idle, and keeps its MaxConnections slot",
						fld.Name(), p.instrPos(at), fnKey(e.fn), p.pathString(out.Witness)))
				}
			}
		}
		if nset == 0 {
			c.ok(P, "idle-exempt", "field=connectionState."+fld.Name()+" never-set", p.instrPos(at), "the exemption state is never set")
		}
	}
}

// isClearingValue: the zero value (false, 0, nil) or a decrement of the location's previous value.
func isClearingValue(v ssa.Value) bool {
	switch x := v.(type) {
	case *ssa.Const:
		if x.Value == nil {
			return true
		}
		switch x.Value.Kind() {
		case constant.Bool:
			return !constant.BoolVal(x.Value)
		case constant.Int:
			return constant.Sign(x.Value) == 0
		}
		return false
	case *ssa.BinOp:
		if x.Op == token.SUB {
			if _, ok := x.Y.(*ssa.Const); ok {
				return true
			}
		}
	}
	return false
}

func shortInstr(in ssa.Instruction) string {
	switch x := in.(type) {
	case ssa.CallInstruction:
		return shortCallee(x)
	case *ssa.Store:
		if _, f, ok := fieldAddrOf(x.Addr); ok {
			return "store " + f.Name()
		}
	}
	return "instr"
}

// ---------------------------------------------------------------------------
// slice backing: where can the backing array of a slice value come from?  (aliasing, not element provenance:
// append(a, xs...) aliases a or a fresh array, never xs)

func sliceBacking(v ssa.Value, seen map[ssa.Value]bool, out map[string]bool, appends *[]*ssa.Call) {
	v = unwrap(v)
	if v == nil || seen[v] {
		return
	}
	seen[v] = true
	switch x := v.(type) {
	case *ssa.Const:
		out["fresh"] = true
	case *ssa.MakeSlice:
		out["fresh"] = true
	case *ssa.Slice:
		if al, ok := x.X.(*ssa.Alloc); ok { // slice of a local array: new([N]T)[:]
			if !escapesAlloc(al) {
				out["fresh"] = true
				return
			}
		}
		sliceBacking(x.X, seen, out, appends)
	case *ssa.Phi:
		for _, e := range x.Edges {
			sliceBacking(e, seen, out, appends)
		}
	case *ssa.Call:
		if b, ok := x.Call.Value.(*ssa.Builtin); ok && b.Name() == "append" {
			out["fresh"] = true
			if appends != nil {
				*appends = append(*appends, x)
			}
			sliceBacking(x.Call.Args[0], seen, out, appends)
			return
		}
		if f := staticCallee(x); f != nil && (f.Name() == "Clone" || f.Name() == "Fields" || f.Name() == "Split") {
			out["fresh"] = true
			return
		}
		out["call:"+shortCallee(x)] = true
	case *ssa.UnOp:
		if _, f, ok := fieldLoad(x); ok && f != nil {
			out["field:"+f.Name()] = true
			return
		}
		if al, ok := x.X.(*ssa.Alloc); ok {
			for _, ref := range *al.Referrers() {
				if st, ok := ref.(*ssa.Store); ok && st.Addr == al {
					sliceBacking(st.Val, seen, out, appends)
				}
			}
			return
		}
		out["load"] = true
	default:
		out[fmt.Sprintf("%T", v)] = true
	}
}

// ---------------------------------------------------------------------------
// C09/list-preserved: the allow-list that is put in force has an element for every element of the configured
// list.  Both gates switch filtering OFF for an empty list, so a normalisation that may drop entries (unparsable,
// blank, duplicate) can turn a configured, non-empty list into "no filtering".

func runC09ListPreserved(c *Ctx) {
	const P = "C09"
	p := c.P
	c.rule(P, "list-preserved", "the AllowedIPs list stored in the policy in force is the configured list element for element (no conditional append while it is rebuilt): an emptied list would switch both gates off", 2)
	fld := p.field("PolicyOptions", "AllowedIPs")
	if fld == nil {
		c.undecided(P, "list-preserved", "field=PolicyOptions.AllowedIPs", "", "field not found")
		return
	}
	for _, name := range []string{"(*AbsfsNFS).UpdatePolicyOptions", "policyFromExportOptions"} {
		fn := p.Fn(name)
		if fn == nil {
			c.undecided(P, "list-preserved", "fn="+name, "", "function not found")
			continue
		}
		n := 0
		for _, b := range fn.Blocks {
			for _, in := range b.Instrs {
				st, ok := in.(*ssa.Store)
				if !ok {
					continue
				}
				_, f, ok := fieldAddrOf(st.Addr)
				if !ok || f != fld {
					continue
				}
				n++
				key := fmt.Sprintf("fn=%s store#%d", name, n)
				var apps []*ssa.Call
				sliceBacking(st.Val, map[ssa.Value]bool{}, map[string]bool{}, &apps)
				bad := ""
				for _, a := range apps {
					if h := skippableInLoop(a.Block()); h != nil {
						bad = fmt.Sprintf("the list is rebuilt by an append at %s that an iteration of the loop at %s can skip", p.instrPos(a), p.pos(h.Instrs[0].Pos()))
					}
				}
				c.verdictIf(bad == "", P, "list-preserved", key, p.instrPos(st), "stored list has one element per configured element",
					bad+": entries of the configured allow-list can be dropped, and a configured list whose entries are all dropped is stored empty — which ValidateAuthentication and the connection filter both read as 'no filtering', admitting every client")
			}
		}
		if n == 0 {
			c.undecided(P, "list-preserved", "fn="+name, p.pos(fn.Pos()), "no store to PolicyOptions.AllowedIPs found")
		}
	}
}

// skippableInLoop: if b lies in a loop one of whose iterations can avoid b, the header of that loop; else nil.
func skippableInLoop(b *ssa.BasicBlock) *ssa.BasicBlock {
	fn := b.Parent()
	var best *ssa.BasicBlock
	bestSize := 0
	for _, t := range fn.Blocks {
		for _, h := range t.Succs {
			if !h.Dominates(t) {
				continue
			}
			// natural loop of back edge t->h
			body := map[*ssa.BasicBlock]bool{h: true}
			stack := []*ssa.BasicBlock{t}
			for len(stack) > 0 {
				x := stack[len(stack)-1]
				stack = stack[:len(stack)-1]
				if body[x] {
					continue
				}
				body[x] = true
				stack = append(stack, x.Preds...)
			}
			if !body[b] || b == h {
				continue
			}
			if best == nil || len(body) < bestSize {
				// can an iteration go h -> ... -> h inside body without b?
				seen := map[*ssa.BasicBlock]bool{}
				var st []*ssa.BasicBlock
				for _, s := range h.Succs {
					if body[s] && s != b {
						st = append(st, s)
					}
				}
				skips := false
				for len(st) > 0 {
					x := st[len(st)-1]
					st = st[:len(st)-1]
					if x == h {
						skips = true
						break
					}
					if seen[x] {
						continue
					}
					seen[x] = true
					for _, s := range x.Succs {
						if body[s] && s != b {
							st = append(st, s)
						}
					}
				}
				if skips {
					best, bestSize = h, len(body)
				}
			}
		}
	}
	return best
}
