package main

import (
	"fmt"
	"go/token"
	"strings"

	"golang.org/x/tools/go/ssa"
)

func init() {
	register("C11",
		"Decided: (flow) every uid/gid value that can reach a backend Chown/Lchown on the request path, or be stored into the Uid/Gid of an attribute record built by a handler, originates only from the caller's AuthContext.EffectiveUID/EffectiveGID, from the object's current NFSAttrs.Uid/Gid, or from the request's sattr3 uid/gid arriving through an assignment or phi edge that is control-dependent on the true edge of `EffectiveUID == 0` (the comparison's operand must itself be the effective uid); values are followed through parameters, locals, helper returns and record literals; (chown-new) in CREATE, MKDIR and SYMLINK every path to an NFS3_OK reply passes a backend Chown/Lchown; (eff-writer) EffectiveUID/GID are stored only in HandleCall from the AuthResult. Not decided: what the backend does with the chown; errors of Chown being ignored.",
		commonAssume, runC11)
}

type gOrigin struct {
	Desc  string
	Kind  string // eff | cur | wire | const | other
	Conds []condFact
	Val   ssa.Value
}

type guardWalker struct {
	p     *Prog
	reach map[*ssa.Function]bool
	out   []gOrigin
	seen  map[string]bool
}

type frame struct {
	call   ssa.CallInstruction
	parent *frame
}

func (w *guardWalker) walk(v ssa.Value, conds []condFact, fr *frame, depth int) {
	if depth > 30 {
		w.out = append(w.out, gOrigin{Desc: "depth-limit", Kind: "other", Conds: conds, Val: v})
		return
	}
	add := func(f []condFact) []condFact { return append(append([]condFact{}, conds...), f...) }
	switch x := v.(type) {
	case *ssa.Const:
		w.out = append(w.out, gOrigin{Desc: "const:" + x.String(), Kind: "const", Conds: conds, Val: v})
	case *ssa.Convert:
		w.walk(x.X, conds, fr, depth+1)
	case *ssa.ChangeType:
		w.walk(x.X, conds, fr, depth+1)
	case *ssa.Phi:
		key := fmt.Sprintf("%p/%d", x, len(conds))
		if w.seen[key] {
			return
		}
		w.seen[key] = true
		for i, e := range x.Edges {
			pred := x.Block().Preds[i]
			w.walk(e, add(append(append([]condFact{}, w.p.facts(pred)...), edgeFacts(pred, x.Block())...)), fr, depth+1)
		}
	case *ssa.Parameter:
		if fr != nil {
			idx := paramIndex(x.Parent(), x)
			args := fr.call.Common().Args
			if staticCallee(fr.call) == x.Parent() && idx < len(args) {
				w.walk(args[idx], conds, fr.parent, depth+1)
				return
			}
		}
		// no frame: join over request-path callers
		idx := paramIndex(x.Parent(), x)
		n := 0
		for _, cs := range w.p.callers[x.Parent()] {
			if !w.reach[cs.Caller] {
				continue
			}
			args := cs.Instr.Common().Args
			if idx < len(args) {
				n++
				w.walk(args[idx], add(w.p.facts(cs.Instr.Block())), nil, depth+1)
			}
		}
		if n == 0 {
			w.out = append(w.out, gOrigin{Desc: "param:" + x.Name(), Kind: "other", Conds: conds, Val: v})
		}
	case *ssa.Extract:
		if call, ok := x.Tuple.(*ssa.Call); ok {
			w.callResult(call, x.Index, conds, fr, depth)
			return
		}
		w.out = append(w.out, gOrigin{Desc: "extract", Kind: "other", Conds: conds, Val: v})
	case *ssa.Call:
		w.callResult(x, 0, conds, fr, depth)
	case *ssa.UnOp:
		if x.Op != token.MUL {
			w.walk(x.X, conds, fr, depth+1)
			return
		}
		switch a := x.X.(type) {
		case *ssa.Alloc:
			// a cell whose stored value is computed from the cell itself (x = f(x), a result variable of an
			// inlined helper assigned from itself) must not be walked round and round
			ckey := fmt.Sprintf("cell:%p", a)
			if w.seen[ckey] {
				return
			}
			w.seen[ckey] = true
			defer delete(w.seen, ckey)
			n := 0
			forEachUseOfCell(a, func(in ssa.Instruction, how string, c ssa.CallInstruction, argIdx int) {
				if how == "store" {
					n++
					st := in.(*ssa.Store)
					w.walk(st.Val, add(w.p.facts(st.Block())), fr, depth+1)
				} else {
					n++
					w.out = append(w.out, gOrigin{Desc: "outparam:" + shortCallee(c), Kind: "wire", Conds: conds, Val: v})
				}
			})
			if n == 0 {
				w.out = append(w.out, gOrigin{Desc: "zero", Kind: "const", Conds: conds, Val: v})
			}
		case *ssa.FieldAddr:
			w.fieldLoad(a, v, conds, fr, depth)
		default:
			w.out = append(w.out, gOrigin{Desc: "load:" + x.X.String(), Kind: "other", Conds: conds, Val: v})
		}
	case *ssa.Field:
		f := fieldOf(x.X.Type(), x.Field)
		w.classifyField(recvTypeName(x.X.Type()), f.Name(), v, conds)
	default:
		w.out = append(w.out, gOrigin{Desc: fmt.Sprintf("other:%T", v), Kind: "other", Conds: conds, Val: v})
	}
}

func (w *guardWalker) classifyField(owner, name string, v ssa.Value, conds []condFact) {
	kind := "other"
	switch {
	case owner == "AuthContext" && (name == "EffectiveUID" || name == "EffectiveGID"):
		kind = "eff"
	case owner == "NFSAttrs" && (name == "Uid" || name == "Gid"):
		kind = "cur"
	case owner == "sattr3":
		kind = "wire"
	case owner == "AuthSysCredential" || owner == "AuthResult":
		kind = "other"
	}
	w.out = append(w.out, gOrigin{Desc: "field:" + owner + "." + name, Kind: kind, Conds: conds, Val: v})
}

func (w *guardWalker) fieldLoad(fa *ssa.FieldAddr, v ssa.Value, conds []condFact, fr *frame, depth int) {
	f := fieldOf(fa.X.Type(), fa.Field)
	owner := recvTypeName(fa.X.Type())
	add := func(fs []condFact) []condFact { return append(append([]condFact{}, conds...), fs...) }
	base := fa.X
	// resolve base through parameters to a record literal (Alloc) when possible
	var resolve func(b ssa.Value, fr *frame, d int) []struct {
		al *ssa.Alloc
		fr *frame
		c  []condFact
	}
	resolve = func(b ssa.Value, fr *frame, d int) (res []struct {
		al *ssa.Alloc
		fr *frame
		c  []condFact
	}) {
		if d > 6 {
			return nil
		}
		switch y := b.(type) {
		case *ssa.Alloc:
			res = append(res, struct {
				al *ssa.Alloc
				fr *frame
				c  []condFact
			}{y, fr, nil})
		case *ssa.Parameter:
			idx := paramIndex(y.Parent(), y)
			if fr != nil && staticCallee(fr.call) == y.Parent() {
				args := fr.call.Common().Args
				if idx < len(args) {
					return resolve(args[idx], fr.parent, d+1)
				}
			}
			for _, cs := range w.p.callers[y.Parent()] {
				if !w.reach[cs.Caller] {
					continue
				}
				args := cs.Instr.Common().Args
				if idx < len(args) {
					res = append(res, resolve(args[idx], nil, d+1)...)
				}
			}
		case *ssa.UnOp:
			if sv := singleStore(y.X); sv != nil {
				return resolve(sv, fr, d+1)
			}
		}
		return res
	}
	if owner == "NFSAttrs" || owner == "sattr3" {
		lits := resolve(base, fr, 0)
		handled := false
		for _, l := range lits {
			stores := fieldStores(l.al, f)
			whole := false
			if refs := l.al.Referrers(); refs != nil {
				for _, r := range *refs {
					if st, ok := r.(*ssa.Store); ok && st.Addr == ssa.Value(l.al) {
						whole = true
					}
				}
			}
			if len(stores) == 0 || whole {
				continue
			}
			handled = true
			for _, r := range *l.al.Referrers() {
				fa2, ok := r.(*ssa.FieldAddr)
				if !ok || fieldOf(fa2.X.Type(), fa2.Field) != f {
					continue
				}
				for _, r2 := range *fa2.Referrers() {
					if st, ok := r2.(*ssa.Store); ok && st.Addr == ssa.Value(fa2) {
						// a store whose value is computed from the field itself (x.F = keepOr(x.F, ...)) is
						// not walked again from inside its own walk
						skey := fmt.Sprintf("fstore:%p", st)
						if w.seen[skey] {
							continue
						}
						w.seen[skey] = true
						w.walk(st.Val, add(w.p.facts(st.Block())), l.fr, depth+1)
						delete(w.seen, skey)
					}
				}
			}
		}
		if handled {
			return
		}
	}
	w.classifyField(owner, f.Name(), v, conds)
}

func (w *guardWalker) callResult(call *ssa.Call, idx int, conds []condFact, fr *frame, depth int) {
	callee := staticCallee(call)
	if callee == nil || callee.Blocks == nil || w.p.byName[fnKey(callee)] != callee {
		w.out = append(w.out, gOrigin{Desc: "call:" + shortCallee(call), Kind: "other", Conds: conds, Val: call})
		return
	}
	nf := &frame{call: call, parent: fr}
	for _, b := range callee.Blocks {
		for _, in := range b.Instrs {
			if r, ok := in.(*ssa.Return); ok && idx < len(r.Results) {
				w.walk(retVal(r, idx), append(append([]condFact{}, conds...), w.p.facts(b)...), nf, depth+1)
			}
		}
	}
}

// isRootTest: fact says EffectiveUID == 0 (operand must be the effective uid itself).
func isRootTest(p *Prog, f condFact) bool {
	op, l, r, ok := normCmp(f)
	if !ok || op != "==" {
		return false
	}
	isEUID := func(v ssa.Value) bool {
		os := newFlow(p).Origins(v)
		if len(os) == 0 {
			return false
		}
		for _, o := range os {
			if !(o.Kind == "field" && o.Fld != nil && o.Fld.Name() == "EffectiveUID") {
				return false
			}
		}
		return true
	}
	if k, isC := constInt(r); isC && k == 0 && isEUID(l) {
		return true
	}
	if k, isC := constInt(l); isC && k == 0 && isEUID(r) {
		return true
	}
	return false
}

func runC11(c *Ctx) {
	p := c.P
	const P = "C11"
	runC11ChownIfChanged(c, P)
	if ent0, err0 := p.entrySet(); err0 == nil {
		runAuthCtxFresh(c, P, ent0.ConnLoop)
	}
	c.rule(P, "flow", "T-FLOW with edge conditions: ownership values come from the effective identity, the current owner, or the request only under EffectiveUID==0", 8)
	c.rule(P, "chown-new", "CREATE/MKDIR/SYMLINK: every path to an NFS3_OK reply passes a backend Chown/Lchown", 3)
	c.rule(P, "eff-writer", "EffectiveUID/GID stored only in HandleCall from the AuthResult", 2)

	ent, err := p.entrySet()
	if err != nil {
		c.undecided(P, "flow", "entries", "", err.Error())
		return
	}
	reach := p.reachableFrom(ent.procEntries())
	check := func(key, pos string, v ssa.Value, at *ssa.BasicBlock) {
		w := &guardWalker{p: p, reach: reach, seen: map[string]bool{}}
		w.walk(v, append([]condFact{}, p.facts(at)...), nil, 0)
		var bad []string
		for _, o := range w.out {
			switch o.Kind {
			case "eff", "cur":
			case "wire":
				root := false
				for _, f := range o.Conds {
					if isRootTest(p, f) {
						root = true
					}
				}
				if !root {
					bad = append(bad, o.Desc+" (request value not guarded by EffectiveUID==0)")
				}
			case "const":
				// zero value of a local before assignment
				if o.Desc != "zero" && !strings.HasPrefix(o.Desc, "const:0:") {
					bad = append(bad, o.Desc)
				}
			default:
				bad = append(bad, o.Desc)
			}
		}
		if len(w.out) == 0 {
			bad = append(bad, "no origin found")
		}
		if len(bad) == 0 {
			c.ok(P, "flow", key, pos, fmt.Sprintf("%d origin(s): effective identity, current owner, or request value under EffectiveUID==0", len(w.out)))
		} else {
			c.bad(P, "flow", key, pos, "a non-root caller can make the backend record another owner: "+strings.Join(uniq(bad), "; "))
		}
	}
	for _, fn := range p.SrcFuncs {
		if !reach[fn] {
			continue
		}
		for _, call := range calls(fn) {
			bc := asBackendCall(call)
			if bc == nil || bc.OnFile || (bc.Method != "Chown" && bc.Method != "Lchown") {
				continue
			}
			args := call.Common().Args
			for i, nm := range []string{"uid", "gid"} {
				key := fmt.Sprintf("sink=%s:%s#%d %s", fnKey(fn), shortCallee(call), ordinal(fn, call), nm)
				check(key, p.instrPos(call), args[1+i], call.Block())
			}
		}
		// stores to NFSAttrs.Uid/Gid in procedure handlers
		if !strings.HasPrefix(fnKey(fn), "(*NFSProcedureHandler).handle") {
			continue
		}
		cnt := map[string]int{}
		for _, b := range fn.Blocks {
			for _, in := range b.Instrs {
				st, ok := in.(*ssa.Store)
				if !ok {
					continue
				}
				base, f, isFA := fieldAddrOf(st.Addr)
				if !isFA || f == nil || recvTypeName(base.Type()) != "NFSAttrs" || (f.Name() != "Uid" && f.Name() != "Gid") {
					continue
				}
				cnt[f.Name()]++
				key := fmt.Sprintf("store=%s:NFSAttrs.%s#%d", fnKey(fn), f.Name(), cnt[f.Name()])
				check(key, p.instrPos(in), st.Val, b)
			}
		}
	}

	runC11CreatedOwned(c, ent, nil)

	// chown-new
	for _, num := range []uint32{8, 9, 10} {
		h := ent.Handlers[num]
		key := "proc=" + procNames[num]
		if h == nil {
			c.undecided(P, "chown-new", key, "", "no handler")
			continue
		}
		okEnds := map[ssa.Instruction]bool{}
		for _, bt := range p.traceBuffers(h) {
			for _, path := range bt.Paths {
				if len(path) > 1 && path[0].Kind == "U32" && path[0].Const != nil && *path[0].Const == 0 {
					okEnds[path[len(path)-1].Instr] = true
				}
			}
		}
		if len(okEnds) == 0 {
			c.undecided(P, "chown-new", key, p.pos(h.Pos()), "no NFS3_OK reply path found")
			continue
		}
		isChown := func(in ssa.Instruction) bool {
			ci, ok := in.(ssa.CallInstruction)
			if !ok {
				return false
			}
			bc := asBackendCall(ci)
			return bc != nil && !bc.OnFile && (bc.Method == "Chown" || bc.Method == "Lchown")
		}
		always := map[*ssa.Function]bool{}
		for _, fn := range p.SrcFuncs {
			if reach[fn] && fn != h && performsOnAllOKPaths(p, fn, isChown) {
				always[fn] = true
			}
		}
		// a second level: wrappers of wrappers
		for _, fn := range p.SrcFuncs {
			if reach[fn] && fn != h && !always[fn] && performsOnAllOKPaths(p, fn, func(in ssa.Instruction) bool {
				if ci, ok := in.(ssa.CallInstruction); ok {
					if f := staticCallee(ci); f != nil && always[f] {
						return true
					}
				}
				return isChown(in)
			}) {
				always[fn] = true
			}
		}
		// no new object exists on the failure edge of the creating call (e.g. CREATE answering with an
		// object that was already there): the obligation does not extend past that edge
		noNew := map[*ssa.BasicBlock]bool{}
		isCreator := func(ci ssa.CallInstruction) bool {
			bc := asBackendCall(ci)
			return bc != nil && !bc.OnFile && (bc.Method == "Create" || bc.Method == "OpenFile" || bc.Method == "Mkdir" || bc.Method == "MkdirAll" || bc.Method == "Symlink")
		}
		for _, call := range calls(h) {
			creates := isCreator(call)
			if f := staticCallee(call); !creates && f != nil && f.Pkg != nil && f.Pkg.Pkg.Path() == absnfsPath {
				for g := range p.reachableFrom([]*ssa.Function{f}) {
					for _, c2 := range calls(g) {
						if isCreator(c2) {
							creates = true
						}
					}
				}
			}
			if !creates {
				continue
			}
			if _, fail, ok := errSuccessEdge(call); ok && fail != nil {
				noNew[fail] = true
			}
		}
		res := follow(followSpec{Fn: h, Start: []*ssa.BasicBlock{h.Blocks[0]}, StopEdge: func(from, to *ssa.BasicBlock) bool { return noNew[to] }, Closes: func(in ssa.Instruction) bool {
			if isChown(in) {
				return true
			}
			if ci, ok := in.(ssa.CallInstruction); ok {
				if f := staticCallee(ci); f != nil && always[f] {
					return true
				}
			}
			return false
		}, Bad: func(in ssa.Instruction) bool { return okEnds[in] }, ExitOK: func(*ssa.Return) bool { return true }})
		if res.OK {
			c.ok(P, "chown-new", key, p.pos(h.Pos()), "every NFS3_OK path chowns the new object")
		} else {
			c.bad(P, "chown-new", key, p.instrPos(res.At), procNames[num]+" can reply NFS3_OK without any Chown/Lchown of the new object: it keeps the backend's default owner instead of the caller's effective identity ("+p.pathString(res.Witness)+")")
		}
	}

	// eff-writer (shared with C10)
	for _, fname := range []string{"EffectiveUID", "EffectiveGID"} {
		fld := p.field("AuthContext", fname)
		cnt := 0
		for _, fn := range p.SrcFuncs {
			for _, b := range fn.Blocks {
				for _, in := range b.Instrs {
					st, ok := in.(*ssa.Store)
					if !ok {
						continue
					}
					base, f, isFA := fieldAddrOf(st.Addr)
					if !isFA || f != fld || isFresh(base) {
						continue
					}
					cnt++
					key := fmt.Sprintf("store=%s:%s#%d", fnKey(fn), fname, cnt)
					want := map[string]string{"EffectiveUID": "UID", "EffectiveGID": "GID"}[fname]
					sb, sf, isLoad := fieldLoad(st.Val)
					good := fnKey(fn) == "(*NFSProcedureHandler).HandleCall" && isLoad && sf != nil && sf.Name() == want && recvTypeName(sb.Type()) == "AuthResult"
					c.verdictIf(good, P, "eff-writer", key, p.instrPos(in), "from AuthResult in HandleCall", "effective identity written outside HandleCall or not from the AuthResult")
				}
			}
		}
		if cnt == 0 {
			c.bad(P, "eff-writer", "store="+fname, "", "effective identity is never set from the authentication result")
		}
	}
}
