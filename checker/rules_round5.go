package main

// rules_round5.go: rules added after the round-5 seeds.

import (
	"fmt"
	"go/types"
	"strings"

	"golang.org/x/tools/go/ssa"
)

// ---------------------------------------------------------------------------
// C05/unmap-paired: a path-to-handle association is dropped only together with the handle it points to.
// While the handle stays in the table it is live; if its path mapping is deleted alone, the next LOOKUP of the
// path misses the reverse map and issues a SECOND handle for the same path ("every reissue for the same path
// returns the same handle value" fails), and the old handle's later eviction unmaps the new one.

func runC05UnmapPaired(c *Ctx) {
	const P = "C05"
	p := c.P
	c.rule(P, "unmap-paired", "every delete from pathHandles happens in a function activation that also deletes an entry of handles (or replaces both tables)", 2)
	n := 0
	for _, fn := range p.SrcFuncs {
		var unmaps []ssa.Instruction
		delHandles := false
		for _, b := range fn.Blocks {
			for _, in := range b.Instrs {
				if _, ok := isDeleteOn(in, "FileHandleMap", "pathHandles"); ok {
					unmaps = append(unmaps, in)
				}
				if _, ok := isDeleteOn(in, "FileHandleMap", "handles"); ok {
					delHandles = true
				}
			}
		}
		for _, in := range unmaps {
			n++
			key := fmt.Sprintf("fn=%s delete(pathHandles)#%d", fnKey(fn), ordinalAmong(unmaps, in))
			paired := delHandles
			if paired {
				// the handle deletion must lie on every path through the unmapping (before or after it)
				paired = false
				for _, b := range fn.Blocks {
					for _, other := range b.Instrs {
						if _, ok := isDeleteOn(other, "FileHandleMap", "handles"); !ok {
							continue
						}
						ob, ub := other.Block(), in.Block()
						if ob == ub || ob.Dominates(ub) || postDominates(fn, ob, ub) {
							paired = true
						}
					}
				}
			}
			c.verdictIf(paired, P, "unmap-paired", key, p.instrPos(in), "the handle is removed in the same step",
				fnKey(fn)+" removes a path's entry from pathHandles while the handle it maps to stays in the table: the handle is still live, but the next LOOKUP/CREATE of that path finds no mapping and issues a second handle for the same path; when the old handle is evicted later it also unmaps the new one")
		}
	}
	if n == 0 {
		c.undecided(P, "unmap-paired", "sites", "", "no delete from FileHandleMap.pathHandles found")
	}
}

func ordinalAmong(list []ssa.Instruction, in ssa.Instruction) int {
	for i, x := range list {
		if x == in {
			return i + 1
		}
	}
	return 0
}

// postDominates: every path from b to a function exit passes through a (cheap reachability test: removing a
// disconnects b from every return/panic exit).
func postDominates(fn *ssa.Function, a, b *ssa.BasicBlock) bool {
	if a == b {
		return true
	}
	seen := map[*ssa.BasicBlock]bool{a: true}
	stack := []*ssa.BasicBlock{b}
	for len(stack) > 0 {
		x := stack[len(stack)-1]
		stack = stack[:len(stack)-1]
		if seen[x] {
			continue
		}
		seen[x] = true
		if len(x.Succs) == 0 {
			return false // reached an exit without passing a
		}
		stack = append(stack, x.Succs...)
	}
	return true
}

// ---------------------------------------------------------------------------
// C16/limiter-fresh: the rate limiter put in force by a policy update is built from the new configuration
// only.  State taken over from the limiter it replaces (token buckets created with the old rates and bursts)
// keeps judging the connections that were open before the update under the OLD limits.

func runC16LimiterFresh(c *Ctx, P string, upd *ssa.Function) {
	p := c.P
	c.rule(P, "limiter-fresh", "UpdatePolicyOptions does not carry state of the previous rate limiter into the new one (the previous limiter is at most compared with nil or stopped)", 1)
	n := 0
	for f := range p.reachableFrom([]*ssa.Function{upd}) {
		if f != upd && baselineFuncs[fnKey(f)] {
			continue // functions of the reference tree reached from the update were confirmed as they are
		}
		for _, call := range calls(f) {
			if !atomicPtrOp(call, "Load") || len(call.Common().Args) == 0 || !isMutexField(call.Common().Args[0], "rateLimiter") {
				continue
			}
			v := call.Value()
			if v == nil {
				continue
			}
			n++
			bad := ""
			for _, ref := range *v.Referrers() {
				switch r := ref.(type) {
				case *ssa.BinOp:
					if isNilConst(r.X) || isNilConst(r.Y) {
						continue
					}
				case *ssa.DebugRef:
					continue
				case ssa.CallInstruction:
					nm := shortCallee(r)
					if strings.HasSuffix(nm, ".Stop") || strings.HasSuffix(nm, ".Close") {
						continue
					}
					bad = "passed to " + nm
				case *ssa.FieldAddr:
					bad = "its field " + fieldOf(r.X.Type(), r.Field).Name() + " is read"
				default:
					bad = fmt.Sprintf("used by %T", ref)
				}
				if bad != "" {
					break
				}
			}
			key := fmt.Sprintf("fn=%s load#%d", fnKey(f), n)
			if bad == "" {
				c.ok(P, "limiter-fresh", key, p.instrPos(call), "previous limiter only compared with nil / stopped")
			} else {
				c.bad(P, "limiter-fresh", key, p.instrPos(call), "the policy update reads the rate limiter it is about to replace ("+bad+"): buckets or counters built under the old configuration are carried into the new limiter, so connections opened before the update keep being judged under the old rates and bursts")
			}
		}
	}
	if n == 0 {
		c.ok(P, "limiter-fresh", "fn=UpdatePolicyOptions no-read", p.pos(upd.Pos()), "the previous limiter is not read")
	}
}

// ---------------------------------------------------------------------------
// C26/order-preserved: the directory cache hands back the listing in the order it was given.  READDIR cookies
// are positions in the listing; the page served from the backend (cache miss) and the pages served from the
// cache (hits) must index the same sequence, or following the cookies repeats some entries and skips others.

func runC26OrderPreserved(c *Ctx) {
	const P = "C26"
	p := c.P
	c.rule(P, "order-preserved", "DirCache.Put/Get (and ReadDirWithContext between the backend read and its use) never reorder the entries (no sort/reverse/shuffle of the listing)", 2)
	for _, name := range []string{"(*DirCache).Put", "(*DirCache).Get", "(*AbsfsNFS).ReadDirWithContext"} {
		fn := p.Fn(name)
		if fn == nil {
			c.undecided(P, "order-preserved", "fn="+name, "", "function not found")
			continue
		}
		bad := ""
		for _, call := range calls(fn) {
			nm := shortCallee(call)
			if strings.HasPrefix(nm, "sort.") || strings.HasPrefix(nm, "slices.Sort") || strings.HasPrefix(nm, "slices.Reverse") || strings.HasPrefix(nm, "math/rand.") || strings.HasPrefix(nm, "slices.Compact") {
				for _, a := range call.Common().Args {
					s := unwrap(a).Type().String()
					if strings.Contains(s, "FileInfo") || strings.Contains(s, "NFSNode") {
						bad = nm
					}
					if mi, ok := a.(*ssa.MakeInterface); ok {
						s := mi.X.Type().String()
						if strings.Contains(s, "FileInfo") || strings.Contains(s, "NFSNode") {
							bad = nm
						}
					}
				}
			}
		}
		c.verdictIf(bad == "", P, "order-preserved", "fn="+name, p.pos(fn.Pos()), "entries keep their order",
			name+" reorders the listing ("+bad+"): the pages of one READDIR sequence are served partly from the backend order and partly from the cached order, so following the cookies returns some entries twice and others never")
	}
}

// ---------------------------------------------------------------------------
// nil-holes (C15, C29): a slice of pointers made with a non-zero length and filled by index inside a loop has
// a nil element for every iteration that skips the store (`continue` on a failed lookup).  Consumers on the
// request path dereference every element; the worker goroutine has no recover, so one concurrent REMOVE
// between the directory read and the per-entry lookup takes the server down.

func runNilHolesAs(c *Ctx, P string, reach map[*ssa.Function]bool) {
	p := c.P
	c.rule(P, "nil-holes", "a pointer slice preallocated with a length is filled on every iteration of the loop that indexes it (no iteration can skip the store)", 0)
	n := 0
	for _, fn := range p.SrcFuncs {
		if reach != nil && !reach[rootFn(fn)] && !reach[fn] {
			continue
		}
		for _, b := range fn.Blocks {
			for _, in := range b.Instrs {
				ms, ok := in.(*ssa.MakeSlice)
				if !ok {
					continue
				}
				sl, ok := ms.Type().Underlying().(*types.Slice)
				if !ok {
					continue
				}
				if _, isPtr := sl.Elem().Underlying().(*types.Pointer); !isPtr {
					continue
				}
				if k, isC := constInt(ms.Len); isC && k == 0 {
					continue
				}
				// stores through IndexAddr of this slice (directly or through phis of it)
				for _, ref := range *ms.Referrers() {
					ia, ok := ref.(*ssa.IndexAddr)
					if !ok {
						continue
					}
					for _, r2 := range *ia.Referrers() {
						st, ok := r2.(*ssa.Store)
						if !ok || st.Addr != ssa.Value(ia) {
							continue
						}
						n++
						key := fmt.Sprintf("fn=%s make#%d", fnKey(fn), n)
						if h := skippableInLoop(st.Block()); h != nil {
							c.bad(P, "nil-holes", key, p.instrPos(st), fmt.Sprintf("the slice made with a length at %s is filled by index in the loop at %s, but an iteration can skip the store: the skipped element stays nil, the slice is handed on as if every element were an object, and the first consumer that dereferences it panics outside any recover", p.instrPos(ms), p.pos(h.Instrs[0].Pos())))
						} else {
							c.ok(P, "nil-holes", key, p.instrPos(st), "every iteration stores its element")
						}
					}
				}
			}
		}
	}
	if n == 0 {
		c.ok(P, "nil-holes", "sites=none", "", "no pointer slice is preallocated with a length and filled by index on the request path")
	}
}

// ---------------------------------------------------------------------------
// C16/no-detached-work (shared with C08): inside the admitted extent of a request — the code that runs while
// the request holds the policy read lock — no goroutine is started that can outlive the request while it still
// calls the backend.  The drain-and-swap waits for the requests' lock holders; work handed to a goroutine that
// the spawning function does not join on every path escapes the drain and can modify the backend after a
// read-only policy has been put in force.

func runC16NoDetachedWork(c *Ctx, P string, inExtent map[*ssa.Function]bool) {
	p := c.P
	c.rule(P, "no-detached-work", "no function running under a request's policy read lock starts a goroutine that reaches the backend unless it waits for that goroutine on every path before returning", 1)
	n := 0
	for _, fn := range p.SrcFuncs {
		if !inExtent[rootFn(fn)] && !inExtent[fn] {
			continue
		}
		for _, b := range fn.Blocks {
			for _, in := range b.Instrs {
				g, ok := in.(*ssa.Go)
				if !ok {
					continue
				}
				target := p.funcValue(g.Call.Value)
				if target == nil {
					target = staticCallee(g)
				}
				reaches := false
				var via string
				if target != nil {
					for f := range p.reachableFrom([]*ssa.Function{target}) {
						for _, call := range calls(f) {
							if bc := asBackendCall(call); bc != nil {
								reaches = true
								via = shortCallee(call)
							}
						}
					}
				} else {
					reaches = true
					via = "an unresolved function value"
				}
				if !reaches {
					continue
				}
				n++
				key := fmt.Sprintf("go=%s#%d", fnKey(fn), n)
				// joined: every path from the go statement to a return passes an unconditional wait: a plain
				// receive, a WaitGroup.Wait, or a select ALL of whose cases are receives from channels the
				// goroutine closes/sends on is too fine a distinction — a select with another ready case
				// (ctx.Done, a timer) is exactly the escape.
				out := follow(followSpec{Fn: fn, From: in, Closes: func(x ssa.Instruction) bool {
					switch y := x.(type) {
					case *ssa.UnOp:
						return y.Op.String() == "<-"
					case ssa.CallInstruction:
						return strings.HasSuffix(calleeName(y), "(*sync.WaitGroup).Wait")
					}
					return false
				}})
				if out.OK {
					c.ok(P, "no-detached-work", key, p.instrPos(in), "joined on every path")
				} else {
					c.bad(P, "no-detached-work", key, p.instrPos(in), fmt.Sprintf("%s runs under the request's policy read lock and starts a goroutine that calls the backend (%s), but can return without waiting for it (%s): the request releases the lock while the goroutine is still working, so UpdatePolicyOptions no longer waits for it and a read-only policy can be in force while it modifies the backend", fnKey(fn), via, p.pathString(out.Witness)))
				}
			}
		}
	}
	if n == 0 {
		c.ok(P, "no-detached-work", "go=none", "", "no goroutine reaching the backend is started inside the admitted extent")
	}
}
