#!/bin/bash
# try_patch.sh <patch> <prop|all> [dump-dir]
# Applies the patch to /repo, runs the checker for one property (printing non-discharged obligations and the
# helper-inlining summary; optionally dumping the inlined sources), and undoes the patch.
cd /verif || exit 2
make -s build >/dev/null 2>build.log || { cat build.log; exit 2; }
pf=$(realpath "$1"); prop=$2; dump=${3:-}
[ -z "$(git -C /repo status --porcelain)" ] || { echo "/repo not clean"; exit 2; }
git -C /repo apply "$pf" || exit 2
ev=$(mktemp -d /tmp/ev-try.XXXXXX)
args=(-repo /repo -prop "$prop" -out "$ev" -known /verif/known_findings.json)
[ -n "$dump" ] && args+=(-dump-inlined "$dump")
./bin/absnfs-lint "${args[@]}" 2>&1 | grep -E '^  (violated|undecided) |LOAD FAILURE|panic|^C[0-9][0-9]:' | cut -c1-${PATCH_WIDTH:-600}
grep -ho '"helper_inlining": "[^"]*"' "$ev"/C*.json | sort -u | cut -c1-600
git -C /repo checkout -- .; git -C /repo clean -fdq -- . 2>/dev/null
rm -rf "$ev"
