#!/bin/bash
# run_seeds_par.sh [seed-name ...]
# Like run_seeds.sh (applies every kept seeded change, runs all checks, records the obligations that are
# violated with the change and not without it in seeded/<name>/detected.txt), but on scratch copies of /repo,
# JOBS at a time; /repo itself is never touched.
cd /verif || exit 2
seeds=("$@")
if [ ${#seeds[@]} -eq 0 ]; then seeds=($(ls /verif/seeded | grep -v INDEX)); fi
files=()
for s in "${seeds[@]}"; do [ -f "seeded/$s/patch.diff" ] && files+=("seeded/$s/patch.diff"); done
out=$(mktemp /tmp/seedspar.XXXXXX)
MAXLINES=1000 PATCH_WIDTH=100000 JOBS=${JOBS:-5} tools/run_patches_par.sh "${files[@]}" > "$out" 2>&1
cur=""
while IFS= read -r line; do
  if [[ "$line" == "== "* ]]; then
    name=$(echo "$line" | sed -E 's#== /verif/seeded/([^/]+)/patch.diff:.*#\1#')
    cur="$name"
    prop=$(python3 -c "import json;print(json.load(open('seeded/$name/meta.json'))['property'])")
    if [[ "$line" == *"does not apply"* ]]; then
      echo "== $name ($prop): patch no longer applies"
      cur=""
      continue
    fi
    : > "seeded/$name/detected.txt"
    pending="$name $prop"
  elif [ -n "$cur" ]; then
    echo "$line" | sed -E 's/^ +//; s/\] .*/]/' >> "seeded/$cur/detected.txt"
  fi
done < "$out"
for s in "${seeds[@]}"; do
  [ -f "seeded/$s/detected.txt" ] || continue
  prop=$(python3 -c "import json;print(json.load(open('seeded/$s/meta.json'))['property'])")
  n=$(grep -c . "seeded/$s/detected.txt")
  own=$(grep -c " $prop/" "seeded/$s/detected.txt")
  echo "== $s ($prop): $n new violation(s), $own under $prop"
done
rm -f "$out"
