#!/bin/bash
# keep_seed.sh <seed-name> <property> <agent-worktree>
# Independently confirms a seeded change in a fresh scratch worktree of /repo HEAD:
#   1. patch applies, package builds
#   2. demo test PASSES without the patch
#   3. demo test FAILS with the patch
#   4. the full existing suite passes with the patch (demo excluded)
# and, only if all four hold, stores it under /verif/seeded/<seed-name>/.
set -u
name=$1; prop=$2; src=$3
export GOFLAGS=-mod=mod GOPROXY=off GOSUMDB=off GOTOOLCHAIN=local
unset GOWORK
patch=$src/SEED/patch.diff
demo=$src/SEED/demo_test.go
[ -f "$demo" ] || demo=$src/SEED/demo_test.go.txt
[ -f "$patch" ] && [ -f "$demo" ] || { echo "missing SEED/patch.diff or demo_test.go in $src"; exit 2; }
wt=$(mktemp -d /tmp/keepseed.XXXXXX)
rmdir "$wt"
git -C /repo worktree add --detach "$wt" HEAD >/dev/null 2>&1 || { echo "worktree add failed"; exit 2; }
cleanup() { git -C /repo worktree remove --force "$wt" >/dev/null 2>&1; rm -rf "$wt"; }
trap cleanup EXIT
if [ -f "$src/zz_seed_demo_test.go" ]; then demo="$src/zz_seed_demo_test.go"; fi
grep -v "^//go:build ignore" "$demo" > "$wt/zz_seed_demo_test.go"
cd "$wt"
res_without=$(go test -vet=off -count=1 -run 'TestSeedDemo' . 2>&1 | tail -3)
echo "$res_without" | grep -q '^ok' && without=pass || without=fail
git apply "$patch" || { echo "patch does not apply to HEAD"; exit 3; }
go build ./... || { echo "does not build with patch"; exit 3; }
res_with=$(go test -vet=off -count=1 -run 'TestSeedDemo' . 2>&1 | tail -15)
echo "$res_with" | grep -q '^ok' && with=pass || with=fail
suite=$(go test -vet=off -count=1 -timeout 25m -skip '^TestSeedDemo' ./... 2>&1 | tail -5)
echo "$suite" | grep -q 'FAIL' && suiteok=fail || suiteok=pass
echo "demo without patch: $without; demo with patch: $with; suite with patch: $suiteok"
if [ "$without" = pass ] && [ "$with" = fail ] && [ "$suiteok" = pass ]; then
  d=/verif/seeded/$name
  mkdir -p "$d"
  cp "$patch" "$d/patch.diff"
  grep -v "^//go:build ignore" "$demo" > "$d/demo_test.go.txt"
  [ -f "$src/SEED/NOTES.md" ] && cp "$src/SEED/NOTES.md" "$d/NOTES.md"
  python3 - "$d" "$name" "$prop" "$(git -C /repo rev-parse HEAD)" <<'EOF'
import json,sys,os
d,name,prop,head=sys.argv[1:5]
meta={"seed":name,"property":prop,"base_commit":head,
 "confirmed":{"demo_without_patch":"pass","demo_with_patch":"fail","existing_suite_with_patch":"pass",
  "commands":["go test -vet=off -count=1 -run TestSeedDemo . (without patch)","git apply patch.diff; go build ./...","go test -vet=off -count=1 -run TestSeedDemo . (with patch)","go test -vet=off -count=1 -timeout 25m -skip '^TestSeedDemo' ./... (with patch)"]},
 "needs_to_manifest":"see NOTES.md","detected_by":"(filled in after running the checks)"}
p=os.path.join(d,"meta.json")
if os.path.exists(p):
    old=json.load(open(p)); meta["detected_by"]=old.get("detected_by",meta["detected_by"]); meta["needs_to_manifest"]=old.get("needs_to_manifest",meta["needs_to_manifest"])
json.dump(meta,open(p,"w"),indent=1)
EOF
  echo "KEPT $d"
else
  echo "NOT KEPT"
  echo "--- without:"; echo "$res_without"; echo "--- with:"; echo "$res_with"; echo "--- suite:"; echo "$suite"
  exit 4
fi
