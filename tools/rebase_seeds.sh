#!/bin/bash
# rebase_seeds.sh: after /repo moved on (new fix: commits), re-base every kept seed whose patch no longer
# applies cleanly: 3-way apply in a scratch worktree of /repo HEAD, regenerate the patch, and re-confirm it
# with keep_seed.sh (demo passes without / fails with, suite passes with).  Seeds that conflict are reported
# and left as they are (their meta.json keeps the tree they were confirmed on).
cd /verif || exit 2
for d in /verif/seeded/*/; do
  s=$(basename "$d")
  [ -f "$d/patch.diff" ] || continue
  if git -C /repo apply --check "$d/patch.diff" 2>/dev/null; then continue; fi
  prop=$(python3 -c "import json;print(json.load(open('$d/meta.json'))['property'])")
  wt=$(mktemp -d /tmp/rebase.XXXXXX); rmdir "$wt"
  git -C /repo worktree add --detach "$wt" HEAD >/dev/null 2>&1 || { echo "$s: worktree failed"; continue; }
  if (cd "$wt" && git apply -3 "$d/patch.diff" >/dev/null 2>&1 && ! git diff --name-only --diff-filter=U | grep -q .); then
    (cd "$wt" && git reset -q && mkdir -p SEED && git diff > SEED/patch.diff && cp "$d/demo_test.go.txt" SEED/demo_test.go && cp "$d/NOTES.md" SEED/NOTES.md 2>/dev/null; git checkout -q -- . )
    echo "== $s: re-based, re-confirming"
    ./tools/keep_seed.sh "$s" "$prop" "$wt" 2>&1 | tail -3
  else
    echo "== $s: CONFLICT with later commits (kept as confirmed on its own tree)"
  fi
  git -C /repo worktree remove --force "$wt" >/dev/null 2>&1; rm -rf "$wt"
done
