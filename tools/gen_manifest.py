#!/usr/bin/env python3
"""Regenerates /verif/MANIFEST.json from the checker's own registry (bin/absnfs-lint -describe)
and the per-property technique table below.  Run after `make build`."""
import json, subprocess, sys

TECH = {
 "C01": "must-follow on the SSA CFG (cache invalidation after data mutation) + reply-trace slots with value provenance",
 "C02": "must-follow on the SSA CFG with obligation lifting through call sites (namespace mutation ⇒ invalidations)",
 "C03": "call-tree sink classification + constant-flag propagation + use analysis of the decoded verifier",
 "C04": "allocation-site/field provenance of attribute records + switch-table extraction + shared must-follow",
 "C05": "typestate/ordering rules on FileHandleMap.Allocate (SSA CFG) + lockset + who-writes",
 "C06": "value provenance of issued ids (monotonic counter) + who-recycles call-graph rule + error-edge reply constants",
 "C07": "interprocedural taint (backward provenance with dominating validator edges) + validator table extraction",
 "C08": "interprocedural edge-sensitive dominating-guard analysis over the VTA call graph",
 "C09": "dominating-guard analysis + sibling-implementation feature agreement",
 "C10": "decision-table extraction from SSA (stores + controlling conditions) compared with an oracle table",
 "C11": "value provenance with edge conditions (phi/assignment control dependence) + must-pass-through",
 "C12": "decision-table extraction from SSA (phi alternatives + controlling conditions) compared with an oracle table",
 "C13": "wire-origin provenance of allocation sizes + dominating bound comparisons + loop-shape rules",
 "C14": "reply-trace abstraction per CFG path matched against RFC 1813 result grammars + constant status sets",
 "C15": "bound dominance (shared with C13) + loop ordering rules + recover/hazard enumeration",
 "C16": "lock-pairing (exactly-once release) on the SSA CFG + lockset + who-writes/extent call-graph containment",
 "C17": "must-follow / ordering rules on the SSA CFG + lockset + must-call sets",
 "C18": "lockset + statement-ordering rules + who-writes + table exhaustiveness",
 "C19": "ordering rule on the SSA CFG (no narrower limiter after the global one) + who-may-call",
 "C20": "channel-protocol rules (who sends/closes what) + lockset + call-graph rules",
 "C21": "lockset + pairing/ordering rules inside critical sections + allocation-site provenance",
 "C22": "must-pass-through (durability point between write and acknowledgement) + reply-trace constants + who-writes",
 "C23": "reply-trace slot provenance compared with enforced bounds + constant arithmetic",
 "C24": "normalisation-table extraction + must-precede + literal exhaustiveness over go/types",
 "C25": "interprocedural dominating-guard analysis with a value condition",
 "C26": "reply-trace analysis of the listing loops + constant arithmetic on the stop bound",
 "C27": "interprocedural fail-closed dominating-guard analysis + dispatch table + lockset",
 "C28": "constant propagation of ServerOptions.UseRecordMarking along start-up paths",
 "C29": "interprocedural lockset analysis + lock-order graph + same-instance re-acquisition",
 "C30": "dominance + field provenance in BuildConfig + alias rule for the certificate cell",
}

def main():
    desc = json.loads(subprocess.check_output(["/verif/bin/absnfs-lint", "-describe"]))
    props = [json.loads(l) for l in open("/verif/properties.jsonl")]
    not_applicable = json.load(open("/verif/not_applicable.json")) if len(sys.argv) < 2 else {}
    checks = []
    na = []
    for p in props:
        pid = p["id"]
        if pid in not_applicable or pid not in desc:
            na.append({"property_id": pid, "reason": not_applicable.get(pid, "no static slice implemented")})
            continue
        d = desc[pid]
        checks.append({
            "property_id": pid,
            "quick_cmd": "./check %s quick" % pid,
            "thorough_cmd": "./check %s thorough" % pid,
            "evidence_file": "/verif/evidence/%s.json" % pid,
            "replay_cmd_template": "./check %s quick --only {path}" % pid,
            "engine": "absnfs-lint",
            "technique": "static analysis: " + TECH[pid],
            "level_claimed": {
                "category": "other",
                "text": "Static decision of the structural slice of the property, on every path of the current /repo source, with no bound; NOT a decision of the behaviour as a whole. " + d["explain"],
                "design_ref": "DESIGN.md section 3, " + pid,
            },
            "level_note": "Trusted base: " + "; ".join(d["assume"]) + ". Undecided obligations, unresolved bindings, instance-floor misses, load/type errors and checker panics all fail the check. Known genuine defects are listed in /verif/known_findings.json and printed as KNOWN-FINDING.",
        })
    m = {
        "version": 1,
        "setup_cmd": "make -C /verif build",
        "hooks": {
            "guard": "verif",
            "enable": "none needed: the checks read the type-checked source of /repo and never build or run it; no hook commits exist",
            "baseline_off_cmd": "cd /repo && go test -vet=off -count=1 -timeout 25m ./...",
            "source_commits": [],
            "add_only": True,
        },
        "engines": [{
            "name": "absnfs-lint",
            "path": "/verif/checker",
            "serves_properties": [c["property_id"] for c in checks],
            "kind_free_text": "repository-specific static analyzer: go/packages + go/types + go/ssa + VTA call graph (x/tools v0.29.0), rule templates T-GUARD, T-FLOW, T-PAIR, T-LOCK, T-TABLE, T-TRACE",
        }],
        "checks": checks,
        "not_applicable": na,
        "notes": "Every check is one invocation of the same analyzer restricted to one property's obligations (about 10-20 s: load + SSA + call graph). thorough = the same rules under four build configurations (linux/amd64, linux/386, darwin/arm64, windows/amd64). Seeded changes and which checks catch them: /verif/seeded/*/meta.json and DESIGN.md section 8. Genuine defects repaired in /repo are 'fix:' commits listed in known_findings.json under 'fixed'.",
    }
    json.dump(m, open("/verif/MANIFEST.json", "w"), indent=1, ensure_ascii=False)
    print("wrote MANIFEST.json: %d checks, %d not applicable" % (len(checks), len(na)))

main()
