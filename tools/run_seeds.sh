#!/bin/bash
# run_seeds.sh [seed-name ...]
# Applies each kept seeded change to /repo's working tree (git apply, 3-way fallback), runs every check
# once, lists the obligations that are violated WITH the change and not WITHOUT it, and undoes the
# change straight afterwards.  Writes /verif/seeded/<name>/detected.txt.  Never commits to /repo.
cd /verif || exit 2
make -s build >/dev/null 2>build.log || { cat build.log; exit 2; }
if [ -n "$(git -C /repo status --porcelain --untracked-files=no)" ]; then echo "/repo has local modifications; refusing"; exit 2; fi
base=$(mktemp /tmp/seedbase.XXXXXX)
./bin/absnfs-lint -prop all -out /tmp/ev-seed -known /verif/known_findings.json -list 2>&1 | grep -E '^  (violated|undecided) ' | sed -E 's/\] .*/]/; s/  +/ /g' | sort -u > "$base"
seeds=("$@")
if [ ${#seeds[@]} -eq 0 ]; then seeds=($(ls /verif/seeded)); fi
for s in "${seeds[@]}"; do
  d=/verif/seeded/$s
  [ -f "$d/patch.diff" ] || continue
  prop=$(python3 -c "import json;print(json.load(open('$d/meta.json'))['property'])")
  if ! git -C /repo apply "$d/patch.diff" 2>/dev/null; then
    if ! git -C /repo apply -3 "$d/patch.diff" >/dev/null 2>&1; then
      echo "== $s ($prop): patch no longer applies"; git -C /repo reset -q; git -C /repo checkout -- . ; continue
    fi
    git -C /repo reset -q
  fi
  out=$(mktemp /tmp/seedout.XXXXXX)
  ./bin/absnfs-lint -prop all -out /tmp/ev-seed -known /verif/known_findings.json -list 2>&1 | grep -E '^  (violated|undecided) |LOAD FAILURE|panic' | sed -E 's/\] .*/]/; s/  +/ /g' | sort -u > "$out"
  git -C /repo checkout -- .
  new=$(comm -13 "$base" "$out")
  own=$(echo "$new" | grep -c " $prop/")
  echo "== $s ($prop): $(echo "$new" | grep -c .) new violation(s), $own under $prop"
  echo "$new" | cut -c1-190
  echo "$new" > "$d/detected.txt"
  rm -f "$out"
done
rm -f "$base"
rm -rf /tmp/ev-seed
