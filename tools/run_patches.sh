#!/bin/bash
# run_patches.sh <patch-file> ...
# Applies each patch to /repo's working tree, runs every check once (one process, -prop all), prints the
# obligations that are violated/undecided WITH the patch and not WITHOUT it, and undoes the patch straight
# afterwards.  Used for behaviour-preserving refactors (expected: no new line) and for candidate seeds.
cd /verif || exit 2
make -s build >/dev/null 2>build.log || { cat build.log; exit 2; }
if [ -n "$(git -C /repo status --porcelain)" ]; then echo "/repo has local modifications or untracked files; refusing"; exit 2; fi
ev=$(mktemp -d /tmp/ev-patch.XXXXXX)
base=$(mktemp /tmp/patchbase.XXXXXX)
./bin/absnfs-lint -prop all -out "$ev" -known /verif/known_findings.json -list 2>&1 | grep -E '^  (violated|undecided) |LOAD FAILURE|panic' | sed -E 's/  +/ /g' | sort -u > "$base"
for pf in "$@"; do
  pf=$(realpath "$pf")
  if ! git -C /repo apply "$pf" 2>/dev/null; then echo "== $pf: does not apply"; continue; fi
  out=$(mktemp /tmp/patchout.XXXXXX)
  ./bin/absnfs-lint -prop all -out "$ev" -known /verif/known_findings.json -list 2>&1 | grep -E '^  (violated|undecided) |LOAD FAILURE|panic' | sed -E 's/  +/ /g' | sort -u > "$out"
  git -C /repo checkout -- .
  git -C /repo clean -fdq -- . 2>/dev/null
  new=$(comm -13 <(sed -E 's/\] .*/]/' "$base" | sort -u) <(sed -E 's/\] .*/]/' "$out" | sort -u))
  echo "== $pf: $(echo "$new" | grep -c .) new"
  if [ -n "$new" ]; then
    # print the full message lines for the new keys
    while IFS= read -r k; do grep -F -- "$k" "$out" | head -1 | cut -c1-${PATCH_WIDTH:-400}; done <<< "$new"
  fi
  rm -f "$out"
done
rm -f "$base"; rm -rf "$ev"
