#!/usr/bin/env python3
"""Copies the result of tools/run_seeds.sh (seeded/<name>/detected.txt) into each seed's meta.json."""
import json, os, subprocess, sys
head = subprocess.check_output(["git", "-C", "/repo", "rev-parse", "--short", "HEAD"]).decode().strip()
for name in sorted(os.listdir("/verif/seeded")):
    d = os.path.join("/verif/seeded", name)
    mp = os.path.join(d, "meta.json")
    if not os.path.exists(mp):
        continue
    meta = json.load(open(mp))
    dt = os.path.join(d, "detected.txt")
    lines = [l.strip() for l in open(dt)] if os.path.exists(dt) else []
    lines = sorted(set(' '.join(l.split()) for l in lines if l))
    prev = meta.get("detected_by")
    if name in sys.argv[1:]:
        # seed written for the pinned tree whose lines were since rewritten by a fix: commit
        if isinstance(prev, dict):
            prev["violations"] = sorted(set(' '.join(l.split()) for l in prev.get("violations", [])))
            prev["note"] = "patch conflicts with later fix: commits in /repo; detection recorded on the tree it was written for"
            meta["detected_by"] = prev
        else:
            meta["detected_by"] = {"tree": meta.get("base_commit", "")[:7], "violations": lines,
                                   "note": "patch conflicts with later fix: commits in /repo; detection recorded on the tree it was written for"}
    else:
        meta["detected_by"] = {"tree": head, "violations": lines,
                               "own_property": [l for l in lines if (" " + meta["property"] + "/") in (" " + l)]}
    json.dump(meta, open(mp, "w"), indent=1)
    print(name, len(lines))
