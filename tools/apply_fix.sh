#!/bin/bash
# apply_fix.sh <fix.diff> <triage_test.go.txt> "<fix: one-line commit message>"
# 1. confirms the triage test FAILS on /repo HEAD (in a scratch worktree)
# 2. applies the diff to /repo, builds, confirms the triage test PASSES and the full unedited suite passes
# 3. commits it in /repo as a single unguarded commit; otherwise restores /repo
set -u
diff=$1; triage=$2; msg=$3
export GOFLAGS=-mod=mod GOPROXY=off GOSUMDB=off GOTOOLCHAIN=local
unset GOWORK
case "$msg" in fix:*) ;; *) echo "commit message must start with fix:"; exit 2;; esac
[ -z "$(git -C /repo status --porcelain --untracked-files=no)" ] || { echo "/repo dirty"; exit 2; }
name=$(basename "$triage" .go.txt)
wt=$(mktemp -d /tmp/applyfix.XXXXXX); rmdir "$wt"
git -C /repo worktree add --detach "$wt" HEAD >/dev/null 2>&1 || exit 2
trap 'git -C /repo worktree remove --force "$wt" >/dev/null 2>&1; rm -rf "$wt"' EXIT
cp "$triage" "$wt/zz_${name}_test.go"
before=$(cd "$wt" && go test -vet=off -count=1 -run 'TestTriage' . 2>&1 | tail -25)
if echo "$before" | grep -q '^ok'; then echo "TRIAGE TEST PASSES ON HEAD - not a demonstrated defect"; echo "$before" | tail -3; exit 3; fi
echo "--- triage on HEAD (expected to fail):"; echo "$before" | grep -E -- '--- FAIL|^FAIL|panic|_test.go:[0-9]+' | head -6
(cd "$wt" && git apply "$diff") || { echo "diff does not apply"; exit 3; }
(cd "$wt" && go build ./...) || { echo "does not build"; exit 3; }
after=$(cd "$wt" && go test -vet=off -count=1 -run 'TestTriage' . 2>&1 | tail -5)
echo "$after" | grep -q '^ok' || { echo "TRIAGE TEST STILL FAILS WITH FIX"; echo "$after"; exit 3; }
suite=$(cd "$wt" && go test -vet=off -count=1 -timeout 25m -skip '^TestTriage' ./... 2>&1 | tail -8)
if echo "$suite" | grep -q 'FAIL'; then echo "SUITE FAILS WITH FIX"; echo "$suite"; exit 3; fi
echo "--- suite with fix: $(echo "$suite" | grep '^ok' | head -1)"
git -C /repo apply "$diff" || exit 3
git -C /repo add -A >/dev/null
git -C /repo commit -q -m "$msg" || exit 3
echo "COMMITTED $(git -C /repo rev-parse --short HEAD) $msg"
mkdir -p /verif/triage
cp "$triage" /verif/triage/
