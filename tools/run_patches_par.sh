#!/bin/bash
# run_patches_par.sh <patch-file> ...
# Like run_patches.sh, but never touches /repo: every patch is applied to its own scratch copy of /repo's
# working tree (under /tmp, removed afterwards) and the checks run on the copy (-repo <copy>), JOBS at a time.
cd /verif || exit 2
make -s build >/dev/null 2>build.log || { cat build.log; exit 2; }
JOBS=${JOBS:-4}
W=${PATCH_WIDTH:-400}
work=$(mktemp -d /tmp/patchpar.XXXXXX)
trap 'rm -rf "$work"' EXIT
flt() { grep -E '^  (violated|undecided) |LOAD FAILURE|panic' | sed -E 's/  +/ /g' | sort -u; }
mkdir -p "$work/base" && rsync -a --exclude .git /repo/ "$work/base/"
./bin/absnfs-lint -repo "$work/base" -prop all -out "$work/ev-base" -known /verif/known_findings.json -list 2>&1 | flt > "$work/base.txt"
one() {
  pf=$(realpath "$1"); n=$2
  d="$work/c$n"; mkdir -p "$d"; rsync -a "$work/base/" "$d/"
  if ! (cd "$d" && git apply --whitespace=nowarn "$pf" 2>/dev/null); then echo "== $pf: does not apply" > "$work/out$n.txt"; rm -rf "$d"; return; fi
  ./bin/absnfs-lint -repo "$d" -prop all -out "$work/ev$n" -known /verif/known_findings.json -list 2>&1 | flt > "$work/res$n.txt"
  new=$(comm -13 <(sed -E 's/\] .*/]/' "$work/base.txt" | sort -u) <(sed -E 's/\] .*/]/' "$work/res$n.txt" | sort -u))
  {
    echo "== $pf: $(echo "$new" | grep -c .) new"
    if [ -n "$new" ]; then
      i=0
      while IFS= read -r k; do
        i=$((i+1)); [ $i -gt ${MAXLINES:-8} ] && { echo " ... ($(echo "$new" | grep -c .) in all)"; break; }
        grep -F -- "$k" "$work/res$n.txt" | head -1 | cut -c1-$W
      done <<< "$new"
    fi
  } > "$work/out$n.txt"
  rm -rf "$d" "$work/ev$n"
}
n=0
for pf in "$@"; do
  n=$((n+1))
  one "$pf" $n &
  while [ "$(jobs -r | wc -l)" -ge "$JOBS" ]; do sleep 0.5; done
done
wait
for i in $(seq 1 $n); do cat "$work/out$i.txt"; done
