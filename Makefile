# Build the repository-specific static checker (offline; x/tools v0.29.0 from the module cache).
GOENV = GOFLAGS=-mod=mod GOPROXY=off GOSUMDB=off GOTOOLCHAIN=local GOWORK=off
SRC = $(wildcard checker/*.go) checker/go.mod checker/go.sum

build: bin/absnfs-lint

bin/absnfs-lint: $(SRC)
	mkdir -p bin
	cd checker && env $(GOENV) go build -o ../bin/absnfs-lint .

selftest: build
	./tools/selftest.sh

clean:
	rm -rf bin

.PHONY: build selftest clean
